"""T-gen: regenerate the finite tables of cnl2asp from /repo's *current* source.

Every table is obtained by behaviour, not by reading source text:
  * the language of each finite grammar terminal is expanded completely from the
    regular expression Lark compiles for it (sre_parse; aborts if not finite);
  * each terminal callback of CNLTransformer is *called* on every string of its
    terminal and the returned value (or the state it writes) is recorded;
  * dictionaries / enums are imported and dumped.

Output: a python dict (also dumped as JSON for the harness) and
lean/Cnl2aspModel/Generated/Tables.lean (written only when its content changes).
"""
from __future__ import annotations

import json
import os
import sys
import re

try:
    import re._parser as sre_parse  # py >= 3.11
    import re._constants as sre_constants
except ImportError:  # pragma: no cover
    import sre_parse
    import sre_constants

REPO = os.environ.get('VERIF_REPO', '/repo')
SRC = os.path.join(REPO, 'src')
if SRC not in sys.path:
    sys.path.insert(0, SRC)


class ExtractionError(Exception):
    pass


# ---------------------------------------------------------------------------
# finite regular expression -> list of (string, case_insensitive?)
# ---------------------------------------------------------------------------
def _expand(parsed, ci=False):
    """Return list of strings denoted by a parsed pattern. Raise if infinite."""
    results = ['']
    for op, av in parsed:
        if op is sre_constants.LITERAL:
            results = [r + chr(av) for r in results]
        elif op is sre_constants.SUBPATTERN:
            group, add_flags, del_flags, sub = av
            sub_ci = ci or bool(add_flags & re.IGNORECASE)
            subs = _expand(sub, sub_ci)
            results = [r + s for r in results for s in subs]
        elif op is sre_constants.BRANCH:
            _, alts = av
            subs = []
            for alt in alts:
                subs += _expand(alt, ci)
            results = [r + s for r in results for s in subs]
        elif op is sre_constants.IN:
            chars = []
            for iop, iav in av:
                if iop is sre_constants.LITERAL:
                    chars.append(chr(iav))
                else:
                    raise ExtractionError('non-finite character class')
            results = [r + c for r in results for c in chars]
        elif op is sre_constants.MAX_REPEAT or op is sre_constants.MIN_REPEAT:
            lo, hi, sub = av
            if hi is sre_constants.MAXREPEAT or hi > 3:
                raise ExtractionError('unbounded repetition')
            subs = _expand(sub, ci)
            acc = []
            for n in range(lo, hi + 1):
                cur = ['']
                for _ in range(n):
                    cur = [c + s for c in cur for s in subs]
                acc += cur
            results = [r + s for r in results for s in acc]
        else:
            raise ExtractionError(f'unsupported regex node {op}')
    return results


def _has_ci(parsed):
    for op, av in parsed:
        if op is sre_constants.SUBPATTERN:
            group, add_flags, del_flags, sub = av
            if add_flags & re.IGNORECASE or _has_ci(sub):
                return True
        elif op is sre_constants.BRANCH:
            if any(_has_ci(a) for a in av[1]):
                return True
        elif op in (sre_constants.MAX_REPEAT, sre_constants.MIN_REPEAT):
            if _has_ci(av[2]):
                return True
    return False


def expand_terminal(term):
    rx = term.pattern.to_regexp()
    parsed = sre_parse.parse(rx)
    strings = _expand(parsed)
    ci = _has_ci(parsed) or ('i' in term.pattern.flags)
    # self-check: every string re-matches the terminal, and they are distinct
    cre = re.compile(rx, re.IGNORECASE if 'i' in term.pattern.flags else 0)
    for s in strings:
        if not cre.fullmatch(s):
            raise ExtractionError(f'self-check failed for {term.name}: {s!r}')
    if len(set(strings)) != len(strings):
        raise ExtractionError(f'duplicate strings for {term.name}')
    return sorted(strings), ci


FINITE_TERMINALS = [
    'COMPARISON_OPERATOR', 'AGGREGATE_OPERATOR', 'ARITHMETIC_OPERATOR', 'QUANTITY_OPERATOR',
    'PRIORITY_LEVEL', 'PROBLEM_IDENTIFIER', 'TELINGO_TEMPORAL_OPERATOR', 'TELINGO_DUAL_OPERATOR',
    'TELINGO_CONSTANT', 'TELINGO_ENTITY_TEMPORAL_OPERATOR', 'TEMPORAL_TYPE', 'ORDERING_OPERATOR',
    'VERB_NEGATION', 'COPULA', 'ASSIGNMENT_VERB', 'SHIFT_OPERATOR', 'CNL_MINIMIZED', 'CNL_MAXIMIZED',
    '_QUANTIFIER', '_CNL_INDEFINITE_ARTICLE', '_CNL_HOLD', '_CNL_GOES', '_CNL_RANGES',
    'PARAMETER_PREPOSITION', 'VERB_PREPOSITION', 'COMPLEX_CONCEPT_TYPE', '_CNL_EQUAL_TO',
]


def _enum_name(v):
    from enum import Enum
    if isinstance(v, Enum):
        return v.name
    return v


def extract():
    """Return the dict of tables extracted from the current source."""
    import importlib
    import lark
    from lark import Lark
    grammar_path = os.path.join(SRC, 'cnl2asp', 'grammar.lark')
    with open(grammar_path) as f:
        grammar = f.read()
    parser = Lark(grammar, propagate_positions=True)
    terms = {t.name: t for t in parser.terminals}

    from cnl2asp.parser.parser import CNLTransformer, QUANTITY_OPERATOR, PRONOUNS
    from cnl2asp.parser.proposition_builder import PreferencePropositionBuilder
    from cnl2asp.specification.operation_component import Operators
    from cnl2asp.specification.aggregate_component import AggregateOperation
    from cnl2asp.specification.entity_component import EntityType
    from cnl2asp.specification.proposition import PREFERENCE_PROPOSITION_TYPE, PROPOSITION_TYPE
    from cnl2asp.converter.asp_converter import operators_negation
    from cnl2asp.ASP_elements.asp_operation import ASPOperation, ASPTemporalOperation
    from cnl2asp.ASP_elements.asp_aggregate import ASPAggregate
    from cnl2asp.utility.utility import Utility

    T = {}
    T['terminals'] = {}
    T['terminal_ci'] = {}
    for name in FINITE_TERMINALS:
        if name not in terms:
            raise ExtractionError(f'terminal {name} disappeared from the grammar')
        strings, ci = expand_terminal(terms[name])
        T['terminals'][name] = strings
        T['terminal_ci'][name] = ci
    # multi-word terminals (strings with an embedded blank): used by C09's whitespace class
    T['spaced_terminals'] = {}
    for t in parser.terminals:
        try:
            strings, ci = expand_terminal(t)
        except (ExtractionError, Exception):
            continue
        if any(' ' in s.strip() or s != s.strip() for s in strings):
            T['spaced_terminals'][t.name] = strings

    def tok(name, s):
        return lark.Token(name, s)

    def call(cb_name, term_name=None):
        term_name = term_name or cb_name
        out = {}
        for s in T['terminals'][term_name]:
            tr = CNLTransformer()
            out[s] = _enum_name(getattr(tr, cb_name)(tok(term_name, s)))
        return out

    T['enums'] = {
        'Operators': [(m.name, m.value) for m in Operators],
        'AggregateOperation': [(m.name, m.value) for m in AggregateOperation],
        'EntityType': [(m.name, m.value) for m in EntityType],
        'PREFERENCE_PROPOSITION_TYPE': [(m.name, m.value) for m in PREFERENCE_PROPOSITION_TYPE],
        'QUANTITY_OPERATOR': [(m.name, m.value) for m in QUANTITY_OPERATOR],
    }
    T['comparison'] = call('COMPARISON_OPERATOR')
    T['aggregate'] = call('AGGREGATE_OPERATOR')
    T['arithmetic'] = call('ARITHMETIC_OPERATOR')
    T['quantity'] = call('QUANTITY_OPERATOR')
    T['dual'] = call('TELINGO_DUAL_OPERATOR')
    T['temporal_operator'] = call('TELINGO_TEMPORAL_OPERATOR')
    T['telingo_constant'] = {k: (str(v) if v is not None else None) for k, v in call('TELINGO_CONSTANT').items()}
    T['entity_temporal_operator'] = call('TELINGO_ENTITY_TEMPORAL_OPERATOR')
    T['temporal_type'] = call('TEMPORAL_TYPE')
    T['ordering'] = call('ORDERING_OPERATOR')
    T['shift'] = call('SHIFT_OPERATOR')
    T['assignment_verb'] = {k: str(v) for k, v in call('ASSIGNMENT_VERB').items()}
    T['minimized'] = call('CNL_MINIMIZED')
    T['maximized'] = call('CNL_MAXIMIZED')

    # entity prefixes: observed through the flags `entity` sets
    from cnl2asp.specification.entity_component import EntityComponent
    pref = {}
    for s in T['terminals']['TELINGO_ENTITY_TEMPORAL_OPERATOR']:
        tr = CNLTransformer()
        e = EntityComponent('p', '', [], [])
        tr.entity([tr.TELINGO_ENTITY_TEMPORAL_OPERATOR(tok('TELINGO_ENTITY_TEMPORAL_OPERATOR', s)), e])
        pref[s] = [f for f in ('is_before', 'is_after', 'is_initial', 'is_final') if getattr(e, f)]
    T['entity_prefix_flags'] = pref

    # side-effect callbacks, observed through the state they write
    lev = {}
    for s in T['terminals']['PRIORITY_LEVEL']:
        tr = CNLTransformer()
        tr._proposition = PreferencePropositionBuilder()
        before = tr._proposition.get_propositions()[0].level
        tr.PRIORITY_LEVEL(tok('PRIORITY_LEVEL', s))
        lev[s] = tr._proposition.get_propositions()[0].level
    T['priority_level'] = lev
    T['priority_default'] = PreferencePropositionBuilder().get_propositions()[0].level
    num = {}
    for n in (0, 1, 2, 3, 5, 10, 17, 100):
        tr = CNLTransformer()
        tr._proposition = PreferencePropositionBuilder()
        tr.priority_level_number([str(n)])
        num[str(n)] = tr._proposition.get_propositions()[0].level
    T['priority_number_samples'] = num
    prob = {}
    for s in T['terminals']['PROBLEM_IDENTIFIER']:
        tr = CNLTransformer()
        tr.PROBLEM_IDENTIFIER(tok('PROBLEM_IDENTIFIER', s))
        prob[s] = tr._problem.name
    T['problem_identifier'] = prob

    # effective optimisation direction of every phrase, as the grammar delivers the children
    direction = {}
    default_type = PreferencePropositionBuilder().get_propositions()[0].type.name
    T['direction_default'] = default_type
    for phrase, cb in (('as much as possible', 'cnl_as_much_as_possible'),
                       ('as little as possible', 'cnl_as_little_as_possible')):
        tr = CNLTransformer()
        tr._proposition = PreferencePropositionBuilder()
        child = getattr(tr, cb)([])
        tr.optimization_statement([child])
        direction[phrase] = tr._proposition.get_propositions()[0].type.name
    for phrase, cb, tn in (('is minimized', 'CNL_MINIMIZED', 'CNL_MINIMIZED'),
                           ('is maximized', 'CNL_MAXIMIZED', 'CNL_MAXIMIZED')):
        tr = CNLTransformer()
        tr._proposition = PreferencePropositionBuilder()
        child = getattr(tr, cb)(tok(tn, phrase.split()[-1]))
        tr.optimization_operator([child])
        direction[phrase] = tr._proposition.get_propositions()[0].type.name
    T['direction'] = direction

    # cardinality phrases: which bound(s) each QUANTITY_OPERATOR sets, and the order of 'between n and m'
    class _Meta:
        line = 1
    qb = {}
    for m in QUANTITY_OPERATOR:
        tr = CNLTransformer()
        f = tr.single_quantity_cardinality
        getattr(f, 'base_func', f)(_Meta(), [m, '7'])
        c = tr._proposition.get_cardinality()
        lo, hi = (c.lower_bound, c.upper_bound) if c is not None else (None, None)
        if lo not in (None, '7') or hi not in (None, '7'):
            raise ExtractionError(f'single_quantity_cardinality({m.name}, 7) gives bounds ({lo}, {hi})')
        qb[m.name] = [lo is not None, hi is not None]
    T['quantity_bounds'] = qb
    tr = CNLTransformer()
    f = tr.range_quantity_cardinality
    getattr(f, 'base_func', f)(_Meta(), ['3', '8'])
    c = tr._proposition.get_cardinality()
    if (c.lower_bound, c.upper_bound) == ('3', '8'):
        T['range_bounds_in_order'] = True
    elif (c.lower_bound, c.upper_bound) == ('8', '3'):
        T['range_bounds_in_order'] = False
    else:
        raise ExtractionError(f'range_quantity_cardinality(3, 8) gives bounds ({c.lower_bound}, {c.upper_bound})')

    # how the converter prints the weight of each preference type ('W' or '-W'), and the level
    from cnl2asp.specification.proposition import PreferenceProposition
    from cnl2asp.converter.asp_converter import ASPConverter
    wn = {}
    for t in PREFERENCE_PROPOSITION_TYPE:
        p = PreferenceProposition()
        p.type = t
        p.weight = 'W'
        p.level = 2
        w = ASPConverter().convert_preference_proposition(p)
        txt = str(w).strip()
        if txt == '. [W@2]':
            wn[t.name] = False
        elif txt == '. [-W@2]':
            wn[t.name] = True
        else:
            raise ExtractionError(f'weak constraint of an empty {t.name} preference prints {txt!r}')
    T['pref_weight_negated'] = wn

    T['operators_negation'] = {k.name: v.name for k, v in operators_negation.items()}
    T['asp_symbols'] = {k.name: v for k, v in ASPOperation.operators.items()}
    T['tel_symbols'] = {k.name: v for k, v in ASPTemporalOperation.asp_temporal_operators.items()}
    T['aggregate_symbols'] = {k.name: v for k, v in ASPAggregate.symbols.items()}
    T['locked_keywords'] = list(Utility.LOCKED_KEYWORDS)
    T['pronouns'] = list(PRONOUNS)
    T['null_value'] = Utility.NULL_VALUE
    T['default_attribute'] = Utility.DEFAULT_ATTRIBUTE
    return T


# ---------------------------------------------------------------------------
# Lean rendering
# ---------------------------------------------------------------------------
def lstr(s):
    if s is None:
        return 'none'
    out = '"'
    for ch in s:
        if ch == '"':
            out += '\\"'
        elif ch == '\\':
            out += '\\\\'
        elif ch == '\n':
            out += '\\n'
        else:
            out += ch
    return out + '"'


def lopt(v, f=lambda x: x):
    return 'none' if v is None else f'(some {f(v)})'


def render_lean(T) -> str:
    L = []
    A = L.append
    A('/- GENERATED by harness/extract_tables.py from the current /repo source. DO NOT EDIT. -/')
    A('namespace Cnl2aspModel.Generated')
    A('')
    # enums
    for ename, lname in (('Operators', 'Op'), ('AggregateOperation', 'AggOp'), ('EntityType', 'EntType'),
                         ('PREFERENCE_PROPOSITION_TYPE', 'PrefType'), ('QUANTITY_OPERATOR', 'QOp')):
        members = T['enums'][ename]
        A(f'inductive {lname} where')
        for n, _ in members:
            A(f'  | {n}')
        A('  deriving DecidableEq, Repr, Inhabited')
        A('')
        A(f'def {lname}.val : {lname} → Nat')
        for n, v in members:
            A(f'  | .{n} => {v}')
        A('')
        A(f'def {lname}.all : List {lname} := [{", ".join("." + n for n, _ in members)}]')
        A('')
        A(f'def {lname}.name : {lname} → String')
        for n, v in members:
            A(f'  | .{n} => {lstr(n)}')
        A('')

    def table(name, d, ty, f):
        A(f'def {name} : List (String × {ty}) := [')
        items = sorted(d.items())
        for i, (k, v) in enumerate(items):
            A(f'  ({lstr(k)}, {f(v)})' + (',' if i < len(items) - 1 else ''))
        A(']')
        A('')

    en = lambda v: 'none' if v is None else f'some .{v}'
    table('comparisonPhrases', T['comparison'], 'Option Op', en)
    table('aggregatePhrases', T['aggregate'], 'Option AggOp', en)
    table('arithmeticPhrases', T['arithmetic'], 'Option Op', en)
    table('quantityPhrases', T['quantity'], 'Option QOp', en)
    table('dualPhrases', T['dual'], 'Option Op', en)
    table('temporalOperatorPhrases', T['temporal_operator'], 'Option String', lambda v: lopt(v, lstr))
    table('telingoConstantPhrases', T['telingo_constant'], 'Option String', lambda v: lopt(v, lstr))
    table('temporalTypePhrases', T['temporal_type'], 'Option EntType', en)
    table('orderingPhrases', T['ordering'], 'Option Op', en)
    table('shiftPhrases', T['shift'], 'Option String', lambda v: lopt(v, lstr))
    table('priorityLevelPhrases', T['priority_level'], 'Nat', str)
    table('problemIdentifierPhrases', T['problem_identifier'], 'Option String', lambda v: lopt(v, lstr))
    table('directionPhrases', T['direction'], 'PrefType', lambda v: '.' + v)
    table('entityPrefixFlags', T['entity_prefix_flags'], 'List String',
          lambda v: '[' + ', '.join(lstr(x) for x in v) + ']')
    A('def prefWeightNegated : PrefType → Bool')
    for n, _ in T['enums']['PREFERENCE_PROPOSITION_TYPE']:
        A(f'  | .{n} => {str(T["pref_weight_negated"][n]).lower()}')
    A('')
    A('def quantityBounds : QOp → Bool × Bool')
    for n, _ in T['enums']['QUANTITY_OPERATOR']:
        lo, hi = T['quantity_bounds'][n]
        A(f'  | .{n} => ({str(lo).lower()}, {str(hi).lower()})')
    A('')
    A(f'def rangeBoundsInOrder : Bool := {str(T["range_bounds_in_order"]).lower()}')
    A('')
    A(f'def directionDefault : PrefType := .{T["direction_default"]}')
    A(f'def priorityDefault : Nat := {T["priority_default"]}')
    A('')
    # dictionaries as total functions into Option
    A('def negation : Op → Option Op')
    for n, _ in T['enums']['Operators']:
        v = T['operators_negation'].get(n)
        A(f'  | .{n} => {en(v)}')
    A('')
    A('def aspSymbol : Op → Option String')
    for n, _ in T['enums']['Operators']:
        v = T['asp_symbols'].get(n)
        A(f'  | .{n} => {lopt(v, lstr) if v is not None else "none"}')
    A('')
    A('def telSymbol : Op → Option String')
    for n, _ in T['enums']['Operators']:
        v = T['tel_symbols'].get(n)
        A(f'  | .{n} => {lopt(v, lstr) if v is not None else "none"}')
    A('')
    A('def aggSymbol : AggOp → Option String')
    for n, _ in T['enums']['AggregateOperation']:
        v = T['aggregate_symbols'].get(n)
        A(f'  | .{n} => {lopt(v, lstr) if v is not None else "none"}')
    A('')

    def slist(name, xs):
        A(f'def {name} : List String := [' + ', '.join(lstr(x) for x in xs) + ']')
        A('')
    slist('verbNegations', T['terminals']['VERB_NEGATION'])
    slist('copulas', T['terminals']['COPULA'])
    slist('assignmentVerbs', T['terminals']['ASSIGNMENT_VERB'])
    slist('quantifiers', T['terminals']['_QUANTIFIER'])
    slist('lockedKeywords', T['locked_keywords'])
    slist('pronouns', T['pronouns'])
    slist('holdWords', T['terminals']['_CNL_HOLD'])
    slist('goesWords', T['terminals']['_CNL_GOES'] + T['terminals']['_CNL_RANGES'])
    slist('entityTemporalOperators', T['terminals']['TELINGO_ENTITY_TEMPORAL_OPERATOR'])
    A('end Cnl2aspModel.Generated')
    return '\n'.join(L) + '\n'


def write_if_changed(path, content):
    try:
        with open(path) as f:
            if f.read() == content:
                return False
    except FileNotFoundError:
        pass
    os.makedirs(os.path.dirname(path), exist_ok=True)
    tmp = path + '.tmp'
    with open(tmp, 'w') as f:
        f.write(content)
    os.replace(tmp, path)
    return True


def main():
    verif = os.path.dirname(os.path.dirname(os.path.abspath(__file__)))
    T = extract()
    out_json = os.path.join(verif, 'lean', 'Cnl2aspModel', 'Generated', 'tables.json')
    write_if_changed(out_json, json.dumps(T, indent=1, sort_keys=True))
    changed = write_if_changed(os.path.join(verif, 'lean', 'Cnl2aspModel', 'Generated', 'Tables.lean'),
                               render_lean(T))
    print('tables', 'changed' if changed else 'unchanged')


if __name__ == '__main__':
    main()
