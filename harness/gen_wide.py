"""The wide generator (DESIGN §4.2): specifications assembled from the sentence forms that occur in the
repository's tests and examples, over random concept schemas (shared attribute names, foreign keys nested
two levels, concepts referenced twice in a sentence).

Every sentence records: kind, the variables the author wrote, the concepts it uses / defines.
Nothing here looks at the compiler's output: acceptance by the compiler is observed by the checks.
"""
from __future__ import annotations

import random

CONCEPTS = ['node', 'color', 'room', 'patient', 'seat', 'waiter', 'drink', 'movie', 'director', 'city', 'truck',
            'parcel', 'nurse', 'shift', 'teacher', 'lesson', 'vertex', 'robot', 'task', 'agent', 'classroom', 'subtask']
ATTRS = ['name', 'weight', 'cost', 'level', 'size', 'kind', 'rank', 'code']
VERBS = [('rated', 'by'), ('assigned', 'to'), ('sent', 'to'), ('placed', 'in'), ('taken', 'from'), ('linked', 'to'),
         ('chosen', None), ('marked', None), ('picked', None), ('kept', 'in')]
LABELS = ['X', 'Y', 'Z', 'W', 'V', 'U', 'P', 'Q', 'R', 'S', 'T', 'B', 'C', 'D', 'E', 'N', 'M', 'K', 'H', 'G']
CMP = ['equal to', 'the same as', 'different from', 'more than', 'greater than', 'less than', 'greater than or equal to',
       'less than or equal to', 'at least', 'at most', 'not after']


def article(word):
    return 'an' if word[0] in 'aeiou' else 'a'


class Concept:
    def __init__(self, name):
        self.name = name
        self.keys = []       # list of ('own', attrname) | ('fk', Concept)
        self.attrs = []      # own attribute names
        self.domain = None   # ('range', lo, hi) | ('enum', [values]) | None

    def flat_keys(self, path=()):
        """flattened key columns: list of (path tuple of concept names, attribute name)"""
        out = []
        for k in self.keys:
            if k[0] == 'own':
                out.append((path + (self.name,), k[1]))
            elif k[0] == 'fkpath':
                out += k[2].flat_keys(path + (self.name, k[1].name))
            else:
                out += k[1].flat_keys(path + (self.name,))
        return out

    def arity(self):
        return len(self.flat_keys()) + len(self.attrs)

    def single_own_key(self):
        return len(self.keys) == 1 and self.keys[0][0] == 'own'

    def depth(self):
        d = 0
        for k in self.keys:
            if k[0] == 'fk':
                d = max(d, 1 + k[1].depth())
            elif k[0] == 'fkpath':
                d = max(d, 2)
        return d


class Sentence:
    def __init__(self, text, kind, author_vars=(), uses=(), defines=(), documented=True, header=None):
        self.text = text
        self.kind = kind
        self.author_vars = list(author_vars)
        self.uses = list(uses)
        self.defines = list(defines)
        self.documented = documented
        self.header = header

    def __repr__(self):
        return f'<{self.kind}: {self.text}>'


class Spec:
    def __init__(self):
        self.concepts = []
        self.sentences = []
        self.verbs = {}      # verb name -> (subject concept, [object concepts])
        self.constants = []

    def text(self):
        return '\n'.join(s.text for s in self.sentences) + '\n'

    def author_vars(self):
        out = []
        for s in self.sentences:
            for v in s.author_vars:
                if v not in out:
                    out.append(v)
        return out


def gen_schema(rng, n=None, allow_fk=True):
    n = n or rng.randrange(2, 6)
    names = rng.sample(CONCEPTS, n)
    concepts = []
    for i, nm in enumerate(names):
        c = Concept(nm)
        r = rng.random()
        earlier = [x for x in concepts if x.depth() < 2]
        if allow_fk and earlier and r < 0.45:
            # one or two foreign keys, maybe an own key as well
            fks = rng.sample(earlier, min(len(earlier), rng.choice([1, 1, 2, 2, 3])))
            for f in fks:
                c.keys.append(('fk', f))
            if rng.random() < 0.4:
                c.keys.insert(rng.randrange(len(c.keys) + 1), ('own', rng.choice(['id', 'order', 'slot'])))
            # a key reached through a path: `identified by a paint node` (only the nested key of paint)
            paths = [(x, k[1]) for x in earlier for k in x.keys if k[0] == 'fk' and k[1].depth() == 0]
            if paths and rng.random() < 0.35:
                x, y = rng.choice(paths)
                c.keys = [('fkpath', x, y)] + ([('own', 'id')] if rng.random() < 0.3 else [])
        elif r < 0.85:
            c.keys.append(('own', 'id'))      # several concepts keyed by `id`
            if rng.random() < 0.15:
                c.keys.append(('own', rng.choice(ATTRS)))
        else:
            c.keys.append(('own', rng.choice(['name', 'code'])))
        na = rng.choice([0, 0, 1, 1, 2])
        pool = [a for a in ATTRS if ('own', a) not in c.keys]
        c.attrs = rng.sample(pool, na)
        concepts.append(c)
    return concepts


def decl_sentence(c):
    parts = []
    for k in c.keys:
        if k[0] == 'fkpath':
            parts.append(f'by {article(k[1].name)} {k[1].name} {k[2].name}')
            continue
        nm = k[1] if k[0] == 'own' else k[1].name
        parts.append(f'by {article(nm)} {nm}')
    text = f'{article(c.name).capitalize()} {c.name} is identified ' + ', and '.join(parts)
    if c.attrs:
        text += ', and has ' + ', and '.join(f'{article(a)} {a}' for a in c.attrs)
    return Sentence(text + '.', 'declaration', defines=[c.name], uses=[k[1].name for k in c.keys if k[0] in ('fk', 'fkpath')])


def domain_sentence(rng, c):
    """range / enumeration for single-own-key concepts without attributes"""
    if rng.random() < 0.6:
        lo = rng.randrange(0, 3)
        hi = lo + rng.randrange(1, 4)
        c.domain = ('range', lo, hi)
        verb = rng.choice(['goes from', 'ranges from'])
        return Sentence(f'{article(c.name).capitalize()} {c.name} {verb} {lo} to {hi}.', 'range', uses=[c.name])
    vals = rng.sample(['red', 'green', 'blue', 'cyan', 'amber', 'teal'], rng.randrange(2, 5))
    c.domain = ('enum', vals)
    return Sentence(f'{article(c.name).capitalize()} {c.name} is one of {", ".join(vals)}.', 'enumeration', uses=[c.name])


def entity_ref(rng, c, labels, with_params=None, label=None):
    """`a <c> [L] [with k V, ...]` — returns (text, vars written)"""
    vars_ = []
    text = f'{c.name}'
    if label:
        text += f' {label}'
        vars_.append(label)
    if with_params:
        ps = []
        for (path, attr), val in with_params:
            # foreign-key columns are addressed by the concept path (`with room id R` / `with seat room id R`)
            owner = ' '.join(path[1:]) if len(path) > 1 else ''
            nm = (owner + ' ' + attr).strip()
            # a lower-case word right after the name would be read as part of the name: use `equal to`
            ps.append(f'with {nm} {val}' if (val.isupper() or val.isdigit()) else f'with {nm} equal to {val}')
            if val.isupper():
                vars_.append(val)
        text += ' ' + ', '.join(ps)
    return text, vars_


def fresh_labels(rng, k, avoid=()):
    pool = [l for l in LABELS if l not in avoid]
    return rng.sample(pool, k)


def gen_spec(rng, size=None, temporal=False):
    sp = Spec()
    sp.concepts = gen_schema(rng)
    for c in sp.concepts:
        sp.sentences.append(decl_sentence(c))
    if rng.random() < 0.3:
        k = rng.choice(['limit', 'bound', 'maxv'])
        v = rng.randrange(1, 5)
        sp.constants.append((k, v))
        sp.sentences.append(Sentence(f'{k} is a constant equal to {v}.', 'constant', defines=[k]))
    for c in sp.concepts:
        if c.single_own_key() and not c.attrs and rng.random() < 0.8:
            sp.sentences.append(domain_sentence(rng, c))
    n = size or rng.randrange(2, 7)
    if rng.random() < 0.35:
        sp.sentences.append(s_enum_tail(rng, sp))
    makers = [s_fact, s_choice_every, s_whenever_then, s_whenever_then_attr, s_clause_params, s_aggregate_passive,
              s_agg_vs_agg, s_constraint_there_is, s_constraint_clause, s_constraint_cmp,
              s_aggregate_count, s_definition_when, s_enumerative_where, s_preference]
    tries = 0
    while len([s for s in sp.sentences if s.kind not in ('declaration', 'constant', 'range', 'enumeration')]) < n and tries < 40:
        tries += 1
        mk = rng.choice(makers)
        s = mk(rng, sp)
        if s is not None:
            sp.sentences.append(s)
    return sp


# --------------------------------------------------------------------------- sentence makers
def _pick(rng, sp, pred=lambda c: True):
    cs = [c for c in sp.concepts if pred(c)]
    return rng.choice(cs) if cs else None


def _params_for(rng, c, labels, mode='some'):
    """choose parameters (column, value) for concept c; values are labels from `labels` (consumed) or constants"""
    cols = c.flat_keys() + [((c.name,), a) for a in c.attrs]
    chosen = cols if mode == 'all' else [x for x in cols if rng.random() < 0.6] or [rng.choice(cols)]
    out = []
    for col in chosen:
        if labels and rng.random() < 0.8:
            out.append((col, labels.pop()))
        else:
            out.append((col, str(rng.randrange(1, 4))))
    return out


def s_fact(rng, sp):
    c = _pick(rng, sp)
    cols = c.flat_keys() + [((c.name,), a) for a in c.attrs]
    ps = [(col, str(rng.randrange(1, 5)) if rng.random() < 0.7 else rng.choice(['alpha', 'beta', 'gamma'])) for col in cols]
    t, _ = entity_ref(rng, c, [], with_params=ps)
    return Sentence(f'There is {article(c.name)} {t}.', 'fact', uses=[c.name])


def _new_verb(rng, sp, subj, objs):
    for _ in range(10):
        v, prep = rng.choice(VERBS)
        key = v + ('_' + prep if prep else '')
        if key not in sp.verbs and key not in [c.name for c in sp.concepts]:
            if (prep is None) == (len(objs) == 0):
                sp.verbs[key] = (v, prep, subj, objs)
                return key
    return None


def _verb_text(sp, key, aux='be'):
    v, prep, _, _ = sp.verbs[key]
    return f'{aux} {v}' + (f' {prep}' if prep else '')


def s_choice_every(rng, sp):
    subj = _pick(rng, sp)
    others = [c for c in sp.concepts if c is not subj]
    if others and rng.random() < 0.75:
        obj = rng.choice(others)
        key = _new_verb(rng, sp, subj, [obj])
        if not key:
            return None
        card = rng.choice(['exactly 1 ', 'at most 1 ', 'at least 1 ', 'between 1 and 2 ', '', 'exactly 2 ', 'at most 2 '])
        modal = 'can'
        art = '' if card else article(obj.name) + ' '
        foreach = ''
        third = [c for c in others if c is not obj]
        if third and rng.random() < 0.3:
            foreach = f' for each {third[0].name}'
            sp.verbs[key] = sp.verbs[key][:3] + ([obj, third[0]],)
        q = rng.choice(['Every', 'Any', 'every'])
        return Sentence(f'{q} {subj.name} {modal} {_verb_text(sp, key)} {card}{art}{obj.name}{foreach}.', 'choice',
                        uses=[subj.name, obj.name], defines=[key])
    key = _new_verb(rng, sp, subj, [])
    if not key:
        return None
    return Sentence(f'Every {subj.name} can {_verb_text(sp, key)}.', 'choice', uses=[subj.name], defines=[key])


def s_whenever_then(rng, sp):
    subj = _pick(rng, sp)
    others = [c for c in sp.concepts if c is not subj]
    labs = fresh_labels(rng, 4)
    x = labs.pop()
    cond = ''
    uses = [subj.name]
    vars_ = [x]
    subj_attr = ''
    if subj.attrs and rng.random() < 0.5:
        # subject with an initialised non-key attribute: it is copied into the new verb's signature
        t = labs.pop()
        subj_attr = f' with {subj.attrs[0]} {t}'
        vars_.append(t)
    if others and rng.random() < 0.5:
        o = rng.choice(others)
        y = labs.pop()
        neg = 'not ' if rng.random() < 0.2 else ''
        cond = f', whenever there is {neg}{article(o.name)} {o.name} {y}'
        uses.append(o.name)
        vars_.append(y)
    if others and rng.random() < 0.7:
        obj = rng.choice(others)
        reuse = None
        if cond and not cond.startswith(', whenever there is not') and rng.random() < 0.5:
            obj, reuse = o, y      # the object is the concept (and label) bound by the whenever clause
        key = _new_verb(rng, sp, subj, [obj])
        if not key:
            return None
        card = rng.choice(['exactly 1 ', 'at most 1 ', '', 'between 1 and 2 '])
        art = '' if card else article(obj.name) + ' '
        z = reuse if reuse else (labs.pop() if rng.random() < 0.5 else '')
        if reuse:
            card, art = '', ''
        if z and not reuse:
            vars_.append(z)
        uses.append(obj.name)
        return Sentence(f'Whenever there is {article(subj.name)} {subj.name} {x}{subj_attr}{cond}, then {x} can {_verb_text(sp, key)} '
                        f'{card}{art}{obj.name}{" " + z if z else ""}.', 'whenever_then', author_vars=vars_, uses=uses, defines=[key])
    key = _new_verb(rng, sp, subj, [])
    if not key:
        return None
    return Sentence(f'Whenever there is {article(subj.name)} {subj.name} {x}{subj_attr}{cond}, then {x} can {_verb_text(sp, key)}.',
                    'whenever_then', author_vars=vars_, uses=uses, defines=[key])


def s_whenever_then_attr(rng, sp):
    """`Whenever there is a movie M with title T, whenever there is a director D, then M can be rated by director D.`
    (single-key subject with an initialised attribute; the object re-uses the label bound by the whenever clause)"""
    subj = _pick(rng, sp, lambda c: c.single_own_key() and c.attrs)
    obj = _pick(rng, sp, lambda c: c is not subj and c.single_own_key())
    if not subj or not obj:
        return None
    key = _new_verb(rng, sp, subj, [obj])
    if not key:
        return None
    m, t, d = fresh_labels(rng, 3)
    attr = rng.choice(subj.attrs)
    return Sentence(f'Whenever there is {article(subj.name)} {subj.name} {m} with {attr} {t}, whenever there is {article(obj.name)} '
                    f'{obj.name} {d}, then {m} can {_verb_text(sp, key)} {obj.name} {d}.', 'whenever_then_attr',
                    author_vars=[m, t, d], uses=[subj.name, obj.name], defines=[key])


def s_constraint_there_is(rng, sp):
    c = _pick(rng, sp)
    labs = fresh_labels(rng, 6)
    ps = _params_for(rng, c, labs)
    t, vars_ = entity_ref(rng, c, labs, with_params=ps)
    pol = rng.choice(['prohibited', 'required'])
    tail = ''
    uses = [c.name]
    if vars_ and rng.random() < 0.6:
        # bind one of the variables by another concept that shares the column's attribute name
        v = rng.choice(vars_)
        d = _pick(rng, sp, lambda d: d is not c and d.single_own_key())
        if d:
            tail = f', whenever there is {article(d.name)} {d.name} with {d.keys[0][1]} {v}'
            uses.append(d.name)
    if vars_ and rng.random() < 0.4:
        v = rng.choice(vars_)
        tail += f', where {v} is {rng.choice(CMP)} {rng.randrange(1, 4)}'
    if pol == 'required' and not tail:
        pol = 'prohibited'
    return Sentence(f'It is {pol} that there is {article(c.name)} {t}{tail}.', 'constraint_there_is', author_vars=vars_, uses=uses)


def s_constraint_clause(rng, sp):
    if not sp.verbs:
        return None
    key = rng.choice(list(sp.verbs))
    v, prep, subj, objs = sp.verbs[key]
    labs = fresh_labels(rng, 4)
    x = labs.pop()
    vars_ = [x]
    neg = rng.choice(['', '', 'not '])
    text = f'{subj.name} {x} is {neg}{v}' + (f' {prep}' if prep else '')
    uses = [subj.name]
    olabs = []
    for o in objs:
        y = labs.pop()
        olabs.append(y)
        vars_.append(y)
        uses.append(o.name)
    if objs:
        text += ' ' + ', '.join(f'{o.name} {y}' for o, y in zip(objs, olabs))
    pol = rng.choice(['prohibited', 'required'])
    tail = ''
    if rng.random() < 0.5 or pol == 'required':
        tail = f', whenever there is {article(subj.name)} {subj.name} {x}'
        for o, y in zip(objs, olabs):
            tail += f', whenever there is {article(o.name)} {o.name} {y}'
    return Sentence(f'It is {pol} that {text}{tail}.', 'constraint_clause', author_vars=vars_, uses=uses + [key])


def s_constraint_cmp(rng, sp):
    c = _pick(rng, sp, lambda c: c.single_own_key())
    d = _pick(rng, sp, lambda d: d.single_own_key())
    if not c or not d:
        return None
    x, y = fresh_labels(rng, 2)
    ph = rng.choice(CMP)
    pol = rng.choice(['prohibited', 'required'])
    if rng.random() < 0.5:
        text = (f'It is {pol} that {x} is {ph} {y}, whenever there is {article(c.name)} {c.name} with {c.keys[0][1]} {x}, '
                f'whenever there is {article(d.name)} {d.name} with {d.keys[0][1]} {y}.')
        return Sentence(text, 'constraint_cmp', author_vars=[x, y], uses=[c.name, d.name])
    if c.attrs:
        a = c.attrs[0]
        text = f'It is {pol} that the {a} of the {c.name} {x} is {ph} {rng.randrange(1, 5)}.'
        return Sentence(text, 'constraint_cmp_attr', author_vars=[x], uses=[c.name])
    text = f'It is {pol} that {x} is {ph} {rng.randrange(1, 4)}, whenever there is {article(c.name)} {c.name} with {c.keys[0][1]} {x}.'
    return Sentence(text, 'constraint_cmp', author_vars=[x], uses=[c.name])


def s_aggregate_count(rng, sp):
    withobj = [(k, v) for k, v in sp.verbs.items() if len(v[3]) == 1 and v[2].keys == [('own', 'id')] and v[1] != 'by']
    if not withobj:
        return None
    key, (v, prep, subj, objs) = rng.choice(withobj)
    o = objs[0]
    d = fresh_labels(rng, 1)[0]
    ph = rng.choice(CMP)
    pol = rng.choice(['prohibited', 'required'])
    n = rng.randrange(0, 4)
    text = (f'It is {pol} that the number of {subj.name} that are {v} {prep} {o.name} {d} is {ph} {n}, '
            f'whenever there is {article(o.name)} {o.name} {d}.')
    return Sentence(text, 'aggregate_count', author_vars=[d], uses=[subj.name, o.name, key])


def s_definition_when(rng, sp):
    withobj = [(k, v) for k, v in sp.verbs.items() if len(v[3]) == 1]
    if not withobj:
        return None
    key, (v, prep, subj, objs) = rng.choice(withobj)
    o = objs[0]
    nk = _new_verb(rng, sp, subj, [o])
    if not nk:
        return None
    nv, nprep = sp.verbs[nk][0], sp.verbs[nk][1]
    x, y = fresh_labels(rng, 2)
    text = (f'{subj.name.capitalize()} {x} is {nv} {nprep} {o.name} {y} when {subj.name} {x} is {v} {prep} {o.name} {y}.')
    return Sentence(text, 'definition_when', author_vars=[x, y], uses=[subj.name, o.name, key], defines=[nk])


def s_enumerative_where(rng, sp):
    c = _pick(rng, sp, lambda c: c.single_own_key() and c.domain and c.domain[0] == 'range')
    if not c:
        return None
    key = _new_verb(rng, sp, c, [c])
    if not key:
        return None
    v, prep = sp.verbs[key][0], sp.verbs[key][1]
    lo, hi = c.domain[1], c.domain[2]
    a = rng.randrange(lo, hi + 1)
    vals = sorted(rng.sample(range(lo, hi + 1), min(hi - lo + 1, rng.randrange(1, 4))))
    x = fresh_labels(rng, 1)[0]
    text = f'{c.name.capitalize()} {a} is {v} {prep} {c.name} {x}, where {x} is one of {", ".join(map(str, vals))}.'
    return Sentence(text, 'enumerative_where', author_vars=[x], uses=[c.name], defines=[key])


def s_preference(rng, sp):
    withobj = [(k, v) for k, v in sp.verbs.items() if len(v[3]) == 1 and v[2].keys == [('own', 'id')] and v[1] != 'by']
    if not withobj:
        return None
    key, (v, prep, subj, objs) = rng.choice(withobj)
    o = objs[0]
    pr = rng.choice(['low', 'medium', 'high'])
    d = fresh_labels(rng, 1)[0]
    direction = rng.choice(['minimized', 'maximized'])
    text = (f'It is preferred, with {pr} priority, that the number of {subj.name} that are {v} {prep} {o.name} {d} is {direction}, '
            f'whenever there is {article(o.name)} {o.name} {d}.')
    return Sentence(text, 'preference', author_vars=[d], uses=[subj.name, o.name, key])


def s_enum_tail(rng, sp, bad=False):
    """W7: `A drink is one of cola, beer, water and has price that is equal to respectively 3, 5, 2 [and also …].`
    (an undeclared concept whose attributes all come from the sentence). bad=True: a tail shorter than the value list."""
    used = {c.name for c in sp.concepts}
    name = rng.choice([n for n in ['drink', 'fruit', 'tool', 'tier', 'brand'] if n not in used])
    vals = rng.sample(['cola', 'beer', 'water', 'milk', 'tea'], rng.randrange(2, 5))
    ntails = rng.choice([1, 1, 2])
    tails = []
    for i, an in enumerate(rng.sample(['price', 'size', 'rank'], ntails)):
        k = len(vals) - (1 if (bad and i == ntails - 1) else 0)
        link = 'and has' if i == 0 else 'and also'
        be = rng.choice(['that is equal to respectively', 'that are equal to respectively'])
        tails.append(f'{link} {an} {be} {", ".join(str(rng.randrange(1, 9)) for _ in range(k))}')
    c = Concept(name)
    c.keys = []
    c.attrs = []
    c.enum_tail = True
    text = f'{article(name).capitalize()} {name} is one of {", ".join(vals)} ' + ' '.join(tails) + '.'
    return Sentence(text, 'enum_tail_bad' if bad else 'enum_tail', defines=[name])


FAULT_CLASSES = ['tail_size', 'undeclared_concept', 'missing_attribute', 'unknown_label', 'double_cardinality']


def gen_faulty(rng):
    """A specification with exactly one injected fault. Returns (Spec, fault class, index of the faulty sentence,
    offending name)."""
    sp = gen_spec(rng, size=rng.randrange(1, 4))
    cls = rng.choice(FAULT_CLASSES)
    c = rng.choice(sp.concepts)
    name = None
    if cls == 'tail_size':
        s = s_enum_tail(rng, sp, bad=True)
    elif cls == 'undeclared_concept':
        name = rng.choice(['zorg', 'blip', 'quux', 'gadget'])
        s = Sentence(f'It is prohibited that there is {article(name)} {name} with id 1.', 'fault', uses=[name])
    elif cls == 'missing_attribute':
        name = rng.choice(['altitude', 'colour', 'vintage'])
        s = Sentence(f'It is prohibited that there is {article(c.name)} {c.name} with {name} 3.', 'fault', uses=[c.name])
    elif cls == 'unknown_label':
        name = rng.choice(['QQ', 'ZK', 'LBL'])
        d = rng.choice(sp.concepts)
        s = Sentence(f'It is prohibited that {name} is chosen, whenever there is {article(d.name)} {d.name} X.', 'fault',
                     uses=[d.name], author_vars=['X'])
        if 'chosen' not in sp.verbs:
            sp.sentences.append(Sentence(f'Every {d.name} can be chosen.', 'choice', uses=[d.name], defines=['chosen']))
    else:
        d = [x for x in sp.concepts if x is not c]
        o = d[0] if d else c
        s = Sentence(f'Every {c.name} can be exactly 1 wired to at most 2 {o.name}.', 'fault', uses=[c.name, o.name])
    pos = len(sp.sentences)
    if rng.random() < 0.5 and pos > len(sp.concepts) + 1:
        pos = rng.randrange(len([x for x in sp.sentences if x.kind in ('declaration', 'constant')]), pos + 1)
    sp.sentences.insert(pos, s)
    return sp, cls, pos, name


def _simple_verbs(sp):
    """verbs `subject be <verb> <prep> object` whose subject and object are single-own-key concepts"""
    return [(k, v) for k, v in sp.verbs.items()
            if len(v[3]) == 1 and v[1] not in (None, 'by') and v[2].single_own_key() and v[3][0].single_own_key()]


def s_clause_params(rng, sp):
    """`It is prohibited that waiter with id equal to W[, with salary greater than 3] is assigned to a pub.`"""
    vs = _simple_verbs(sp)
    if not vs:
        return None
    key, (v, prep, subj, objs) = rng.choice(vs)
    o = objs[0]
    w, p = fresh_labels(rng, 2)
    kname = subj.keys[0][1]
    form = rng.choice([f'with {kname} {w}', f'with {kname} equal to {w}'])
    vars_ = [w]
    if subj.attrs and rng.random() < 0.6:
        form += f', with {subj.attrs[0]} {rng.choice(["greater than", "less than"])} {rng.randrange(1, 5)}'
    if rng.random() < 0.5:
        obj = f'{o.name} {p}'
        vars_.append(p)
    else:
        obj = f'{article(o.name)} {o.name}'
    return Sentence(f'It is prohibited that {subj.name} {form} is {v} {prep} {obj}.', 'clause_params', author_vars=vars_,
                    uses=[subj.name, o.name, key])


def s_aggregate_passive(rng, sp):
    """`It is prohibited that the number of pub [id V] where a waiter [W] is assigned to is more than 2[, whenever there is a waiter W].`"""
    vs = _simple_verbs(sp)
    if not vs:
        return None
    key, (v, prep, subj, objs) = rng.choice(vs)
    o = objs[0]
    w, vv = fresh_labels(rng, 2)
    vars_ = []
    counted = f'{o.name}'
    if rng.random() < 0.5:
        counted += f' {o.keys[0][1]} {vv}'
        vars_.append(vv)
    who = f'a {subj.name}'
    tail = ''
    if rng.random() < 0.6:
        who += f' {w}'
        vars_.append(w)
        if rng.random() < 0.5:
            tail = f', whenever there is {article(subj.name)} {subj.name} {w}'
    pol = rng.choice(['prohibited', 'required'])
    text = (f'It is {pol} that the number of {counted} where {who} is {v} {prep} is {rng.choice(CMP)} {rng.randrange(0, 4)}{tail}.')
    return Sentence(text, 'aggregate_passive', author_vars=vars_, uses=[subj.name, o.name, key])


def s_agg_vs_agg(rng, sp):
    vs = _simple_verbs(sp)
    if len(vs) < 1:
        return None
    (k1, (v1, p1, s1, o1)) = rng.choice(vs)
    (k2, (v2, p2, s2, o2)) = rng.choice(vs)
    w, p = fresh_labels(rng, 2)
    text = (f'It is prohibited that the number of {o1[0].name} where a {s1.name} {w} is {v1} {p1} is {rng.choice(CMP)} '
            f'the number of {o2[0].name} where a {s2.name} {p} is {v2} {p2}.')
    return Sentence(text, 'agg_vs_agg', author_vars=[w, p], uses=[s1.name, s2.name, k1, k2])


HEADERS = ['The following propositions apply in the initial state:',
           'The following propositions always apply except in the initial state:',
           'The following propositions always apply:',
           'The following propositions apply in the final state:']
PREFIXES = ['previously', 'subsequently', 'initially', 'finally']


def gen_temporal_spec(rng, size=None):
    """W18: block headers, entity prefixes (previously / subsequently / initially / finally) on verbs in heads and bodies,
    including verbs that are FIRST introduced with a prefix."""
    sp = Spec()
    sp.concepts = gen_schema(rng, n=rng.randrange(2, 4), allow_fk=False)
    for c in sp.concepts:
        c.keys = [('own', 'id')]
        c.attrs = []
        sp.sentences.append(decl_sentence(c))
    first = True
    blocks = [rng.choice(HEADERS) for _ in range(rng.randrange(1, 4))]
    plain_verbs = []
    preamble = rng.random() < 0.35     # domain sentences written BEFORE the first header (they belong to no block)
    for bi, h in enumerate(blocks):
        hdr = h
        if bi == 0:
            for c in sp.concepts:
                if preamble:
                    hdr_keep, hdr = hdr, None
                lo = rng.randrange(0, 2)
                s = Sentence(f'{article(c.name).capitalize()} {c.name} goes from {lo} to {lo + rng.randrange(1, 3)}.', 'range', uses=[c.name])
                s.text = (hdr + '\n' + s.text) if hdr else s.text
                s.header = hdr
                hdr = None
                sp.sentences.append(s)
                if preamble:
                    hdr = hdr_keep
        for _ in range(rng.randrange(1, 4)):
            c = rng.choice(sp.concepts)
            x = fresh_labels(rng, 1)[0]
            r = rng.random()
            if r < 0.4 or not plain_verbs:
                v = rng.choice(['loaded', 'moved', 'open', 'ready', 'busy', 'armed']) + str(len(sp.verbs))
                pre = rng.choice(PREFIXES + ['', ''])
                sp.verbs[v] = (v, None, c, [])
                plain_verbs.append((v, c))
                text = f'Whenever there is {article(c.name)} {c.name} {x}, then {x} can be {pre + " " if pre else ""}{v}.'
                kind = 'temporal_choice'
            elif r < 0.7:
                v, vc = rng.choice(plain_verbs)
                pre = rng.choice(PREFIXES)
                neg = rng.choice(['', 'not '])
                text = f'It is prohibited that {vc.name} {x} is {neg}{pre} {v}, whenever there is {article(vc.name)} {vc.name} {x}.'
                kind = 'temporal_constraint'
            else:
                v, vc = rng.choice(plain_verbs)
                w = rng.choice(['kept', 'held', 'seen']) + str(len(sp.verbs))
                sp.verbs[w] = (w, None, vc, [])
                pre = rng.choice(['previously', 'previously', 'initially'])
                text = f'{vc.name.capitalize()} {x} is {w} when {vc.name} {x} is {pre} {v}.'
                plain_verbs.append((w, vc))
                kind = 'temporal_definition'
            s = Sentence(text, kind, author_vars=[x], uses=[c.name])
            if hdr:
                s.text = hdr + '\n' + s.text
                s.header = hdr
                hdr = None
            sp.sentences.append(s)
    return sp
