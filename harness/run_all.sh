#!/bin/bash
# usage: harness/run_all.sh [tier]  — run every claimed check on the current tree, print one line each
cd /verif
tier="${1:-quick}"
for p in $(python3 -c "import json;print(' '.join(c['property_id'] for c in json.load(open('MANIFEST.json'))['checks']))"); do
  s=$(date +%s)
  ./check $p --tier $tier > /tmp/runall_$p.log 2>&1; rc=$?
  e=$(date +%s)
  echo "$p rc=$rc $((e-s))s :: $(tail -1 /tmp/runall_$p.log | cut -c1-160)"
done
python3-vt - <<'PY'
import json, jsonschema, glob
sch=json.load(open('/root/.vp/EVIDENCE.schema.json'))
for f in sorted(glob.glob('/verif/evidence/*.json')):
    try:
        e=json.load(open(f)); jsonschema.validate(e, sch)
        c=e['coverage']
        assert c['obligations']==c['discharged'], (c['obligations'], c['discharged'])
    except Exception as ex:
        print('INVALID', f, str(ex)[:200])
print('evidence validated')
PY
