"""Access to the real intermediate objects of a compilation (layer-level correspondences)."""
from __future__ import annotations

import contextlib
import io

from . import rt


def parse_and_convert(text, auto_link=True):
    """Returns (specification, encoding) of the real pipeline, or raises."""
    rt.enable_lark_cache()
    from cnl2asp.cnl2asp import Cnl2asp
    from cnl2asp.converter.asp_converter import ASPConverter
    from cnl2asp.utility.utility import Utility
    rt.reset_globals()
    Utility.AUTO_ENTITY_LINK = auto_link
    with contextlib.redirect_stdout(io.StringIO()):
        spec = Cnl2asp(text).parse_input()
        snapshot = [[list(p.defined_attributes) for p in prob.get_propositions()] for prob in spec.get_problems()]
        enc = spec.convert(ASPConverter())
    return spec, enc, snapshot


def origin_chain(o):
    out = []
    seen = 0
    while o is not None and seen < 20:
        out.append(str(o.name))
        o = o.origin
        seen += 1
    return out


def atom_to_json(atom):
    return {
        'name': atom.name,
        'attrs': [{'name': str(a.name), 'value': str(a.get_value()), 'origin': origin_chain(a.origin)} for a in atom.attributes],
        'negated': bool(atom.negated), 'before': bool(atom.is_before), 'after': bool(atom.is_after),
        'initial': bool(atom.is_initial), 'final': bool(atom.is_final),
    }


def walk_atoms(obj, acc=None, depth=0):
    """All ASPAtom objects reachable from an ASP element (heads, conditions, bodies, aggregates, operations)."""
    from cnl2asp.ASP_elements.asp_atom import ASPAtom
    if acc is None:
        acc = []
    if depth > 12 or obj is None:
        return acc
    if isinstance(obj, ASPAtom):
        acc.append(obj)
        return acc
    if isinstance(obj, (list, tuple)):
        for x in obj:
            walk_atoms(x, acc, depth + 1)
        return acc
    for field in ('_programs', '_rules', 'head', 'body', 'choice_element', 'condition', 'conjunction', 'operands',
                  'discriminant', 'operations'):
        if hasattr(obj, field):
            walk_atoms(getattr(obj, field), acc, depth + 1)
    return acc


def rules_of(enc):
    out = []
    for prog in enc._programs:
        for r in prog._rules:
            out.append((prog.name, r))
    return out


# ---------------------------------------------------------------------------
# whole element trees (C06 printing layer): serialised for the model op `c06.print`
# ---------------------------------------------------------------------------
def elem_to_json(x):
    from cnl2asp.ASP_elements.asp_atom import ASPAtom
    from cnl2asp.ASP_elements.asp_aggregate import ASPAggregate
    from cnl2asp.ASP_elements.asp_operation import ASPOperation, ASPAngleOperation, ASPTemporalOperation
    from cnl2asp.ASP_elements.asp_temporal_formula import ASPTemporalFormula
    if isinstance(x, ASPAtom):
        return dict(atom_to_json(x), t='atom')
    if isinstance(x, ASPAggregate):
        return {'t': 'agg', 'sym': str(ASPAggregate.symbols[x.operation]), 'disc': [elem_to_json(d) for d in x.discriminant],
                'body': [elem_to_json(b) for b in x.body.conjunction]}
    if isinstance(x, ASPTemporalFormula):
        return {'t': 'tel', 'neg': bool(x.negated), 'ops': [elem_to_json(o) for o in x.operations]}
    if isinstance(x, ASPOperation):
        kind = 'temporal' if isinstance(x, ASPTemporalOperation) else 'angle' if isinstance(x, ASPAngleOperation) else 'plain'
        return {'t': 'op', 'k': kind, 'sym': str(x._operator_to_symbol(x.operator)), 'args': [elem_to_json(o) for o in x.operands]}
    return {'t': 'val', 's': str(x)}


def rule_to_json(r):
    from cnl2asp.ASP_elements.asp_rule import ASPWeakConstraint
    j = {'head': [{'elem': elem_to_json(h.choice_element), 'cond': [elem_to_json(c) for c in h.condition.conjunction]} for h in r.head],
         'body': [elem_to_json(b) for b in r.body.conjunction]}
    if r.cardinality:
        lo, hi = r.cardinality[0], r.cardinality[1]
        j['card'] = [str(lo) if lo else '', str(hi) if hi else '']
    if isinstance(r, ASPWeakConstraint):
        j['weak'] = {'weight': str(r.weight), 'level': str(r.level), 'disc': [elem_to_json(d) for d in r.discriminant]}
    return j


def encoding_to_json(enc):
    return {'consts': [[str(n), str(v) if v else ''] for n, v in enc._constants],
            'programs': [{'name': str(p.name) if p.name else '', 'rules': [rule_to_json(r) for r in p._rules]} for p in enc._programs]}


def encoding_name_pairs(enc):
    """ordered pairs of distinct names (atom names, origin names of the whole encoding) that NameComponent.__eq__ identifies;
    None if its two variants (against a str / against a NameComponent) disagree"""
    from cnl2asp.specification.name_component import NameComponent
    names = set()
    for a in walk_atoms(enc):
        names.add(str(a.name))
        for at in a.attributes:
            names.update(origin_chain(at.origin))
    names = sorted(n for n in names if n)
    pairs = []
    for x in names:
        for y in names:
            if x == y:
                continue
            e1 = NameComponent(x) == y
            e2 = NameComponent(x) == NameComponent(y)
            if e1 != e2:
                return None
            if e1:
                pairs.append([x, y])
    return pairs
