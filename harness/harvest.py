"""Access to the real intermediate objects of a compilation (layer-level correspondences)."""
from __future__ import annotations

import contextlib
import io

from . import rt


def parse_and_convert(text, auto_link=True):
    """Returns (specification, encoding) of the real pipeline, or raises."""
    rt.enable_lark_cache()
    from cnl2asp.cnl2asp import Cnl2asp
    from cnl2asp.converter.asp_converter import ASPConverter
    from cnl2asp.utility.utility import Utility
    rt.reset_globals()
    Utility.AUTO_ENTITY_LINK = auto_link
    with contextlib.redirect_stdout(io.StringIO()):
        spec = Cnl2asp(text).parse_input()
        snapshot = [[list(p.defined_attributes) for p in prob.get_propositions()] for prob in spec.get_problems()]
        enc = spec.convert(ASPConverter())
    return spec, enc, snapshot


def origin_chain(o):
    out = []
    seen = 0
    while o is not None and seen < 20:
        out.append(str(o.name))
        o = o.origin
        seen += 1
    return out


def atom_to_json(atom):
    return {
        'name': atom.name,
        'attrs': [{'name': str(a.name), 'value': str(a.get_value()), 'origin': origin_chain(a.origin)} for a in atom.attributes],
        'negated': bool(atom.negated), 'before': bool(atom.is_before), 'after': bool(atom.is_after),
        'initial': bool(atom.is_initial), 'final': bool(atom.is_final),
    }


def walk_atoms(obj, acc=None, depth=0):
    """All ASPAtom objects reachable from an ASP element (heads, conditions, bodies, aggregates, operations)."""
    from cnl2asp.ASP_elements.asp_atom import ASPAtom
    if acc is None:
        acc = []
    if depth > 12 or obj is None:
        return acc
    if isinstance(obj, ASPAtom):
        acc.append(obj)
        return acc
    if isinstance(obj, (list, tuple)):
        for x in obj:
            walk_atoms(x, acc, depth + 1)
        return acc
    for field in ('_programs', '_rules', 'head', 'body', 'choice_element', 'condition', 'conjunction', 'operands',
                  'discriminant', 'operations'):
        if hasattr(obj, field):
            walk_atoms(getattr(obj, field), acc, depth + 1)
    return acc


def rules_of(enc):
    out = []
    for prog in enc._programs:
        for r in prog._rules:
            out.append((prog.name, r))
    return out
