#!/bin/bash
# usage: harness/seedtest.sh <patch.diff> <Cxx> [<Cyy> ...]   — apply a seeded change to /repo, run the checks, undo it
patch="$1"; shift
cd /verif
if ! git -C /repo diff --quiet; then echo "/repo is dirty"; exit 3; fi
git -C /repo apply "$patch" || { echo "patch does not apply"; exit 3; }
for p in "$@"; do
  ./check "$p" --tier quick > /tmp/seedtest_$p.log 2>&1
  rc=$?
  echo "$p rc=$rc :: $(grep -c '^VIOLATION' /tmp/seedtest_$p.log) violation lines :: $(grep '^VIOLATION' /tmp/seedtest_$p.log | head -2 | tr '\n' ' ')"
done
git -C /repo checkout -- .
