"""clingo.ast -> plain python structures (tuples), for the correspondences and searches.

term  := ('var', name) | ('num', k) | ('str', s) | ('fun', name, [term]) | ('bin', op, l, r)
       | ('un', op, t) | ('interval', l, r) | ('sup',) | ('inf',)
lit   := ('atom', sign, name, [term])            sign: 0 none, 1 not, 2 not not
       | ('cmp', sign, term, [(op, term)])
       | ('agg', sign, left_guard|None, fun, [([term],[lit])], right_guard|None)   guard := (op, term)
       | ('theory', sign, name, text)
       | ('bool', sign, value)
       | ('cond', lit, [lit])
rule  := {'kind': 'rule'|'weak'|'const'|'program', 'part': str, 'text': str, 'head': ..., 'body': [lit], ...}
head  := ('none',) | ('atom', lit) | ('disj', [('cond', lit, [lit])]) | ('choice', lo|None, [('cond',lit,[lit])], hi|None)
"""
from __future__ import annotations

import clingo
import clingo.ast as A

T = A.ASTType
CMP = {0: '>', 1: '<', 2: '<=', 3: '>=', 4: '!=', 5: '='}
try:
    CMP = {int(A.ComparisonOperator.GreaterThan): '>', int(A.ComparisonOperator.LessThan): '<',
           int(A.ComparisonOperator.LessEqual): '<=', int(A.ComparisonOperator.GreaterEqual): '>=',
           int(A.ComparisonOperator.NotEqual): '!=', int(A.ComparisonOperator.Equal): '='}
except Exception:  # pragma: no cover
    pass
BIN = {int(A.BinaryOperator.Plus): '+', int(A.BinaryOperator.Minus): '-', int(A.BinaryOperator.Multiplication): '*',
       int(A.BinaryOperator.Division): '/', int(A.BinaryOperator.Modulo): '\\', int(A.BinaryOperator.Power): '**',
       int(A.BinaryOperator.And): '&', int(A.BinaryOperator.Or): '?', int(A.BinaryOperator.XOr): '^'}
UN = {int(A.UnaryOperator.Minus): '-', int(A.UnaryOperator.Absolute): '|', int(A.UnaryOperator.Negation): '~'}
AGGF = {int(A.AggregateFunction.Count): 'count', int(A.AggregateFunction.Sum): 'sum',
        int(A.AggregateFunction.SumPlus): 'sum+', int(A.AggregateFunction.Min): 'min',
        int(A.AggregateFunction.Max): 'max'}


class Unsupported(Exception):
    pass


def term(t):
    k = t.ast_type
    if k == T.Variable:
        return ('var', t.name)
    if k == T.SymbolicTerm:
        s = t.symbol
        if s.type == clingo.SymbolType.Number:
            return ('num', s.number)
        if s.type == clingo.SymbolType.String:
            return ('str', s.string)
        if s.type == clingo.SymbolType.Function:
            if not s.arguments:
                return ('fun', ('-' if s.negative else '') + s.name, [])
            return ('fun', s.name, [symterm(a) for a in s.arguments])
        if s.type == clingo.SymbolType.Infimum:
            return ('inf',)
        if s.type == clingo.SymbolType.Supremum:
            return ('sup',)
    if k == T.Function:
        return ('fun', t.name, [term(a) for a in t.arguments])
    if k == T.BinaryOperation:
        return ('bin', BIN[int(t.operator_type)], term(t.left), term(t.right))
    if k == T.UnaryOperation:
        arg = term(t.argument)
        if UN[int(t.operator_type)] == '-' and arg[0] == 'num':
            return ('num', -arg[1])        # `-1` is the number, however it was written
        return ('un', UN[int(t.operator_type)], arg)
    if k == T.Interval:
        return ('interval', term(t.left), term(t.right))
    if k == T.Pool:
        return ('pool', [term(a) for a in t.arguments])
    raise Unsupported(f'term {k}: {t}')


def symterm(s):
    if s.type == clingo.SymbolType.Number:
        return ('num', s.number)
    if s.type == clingo.SymbolType.String:
        return ('str', s.string)
    if s.type == clingo.SymbolType.Function:
        return ('fun', s.name, [symterm(a) for a in s.arguments])
    raise Unsupported(str(s))


def guard(g):
    return None if g is None else (CMP[int(g.comparison)], term(g.term))


def literal(l):
    k = l.ast_type
    if k == T.ConditionalLiteral:
        return ('cond', literal(l.literal), [literal(c) for c in l.condition])
    if k != T.Literal:
        raise Unsupported(f'literal {k}: {l}')
    sign = int(l.sign)
    a = l.atom
    ak = a.ast_type
    if ak == T.SymbolicAtom:
        s = a.symbol
        if s.ast_type == T.Function:
            return ('atom', sign, s.name, [term(x) for x in s.arguments])
        if s.ast_type == T.SymbolicTerm:
            return ('atom', sign, s.symbol.name, [symterm(x) for x in s.symbol.arguments])
        if s.ast_type == T.UnaryOperation:  # classical negation
            inner = s.argument
            return ('atom', sign, '-' + inner.name, [term(x) for x in inner.arguments])
        raise Unsupported(f'symbolic atom {s.ast_type}')
    if ak == T.Comparison:
        return ('cmp', sign, term(a.term), [(CMP[int(g.comparison)], term(g.term)) for g in a.guards])
    if ak == T.BodyAggregate:
        els = [([term(x) for x in e.terms], [literal(c) for c in e.condition]) for e in a.elements]
        return ('agg', sign, guard(a.left_guard), AGGF[int(a.function)], els, guard(a.right_guard))
    if ak == T.Aggregate:
        els = [literal(e) for e in a.elements]
        return ('setagg', sign, guard(a.left_guard), els, guard(a.right_guard))
    if ak == T.TheoryAtom:
        return ('theory', sign, str(a.term), ' ; '.join(str(e) for e in a.elements))
    if ak == T.BooleanConstant:
        return ('bool', sign, bool(a.value))
    raise Unsupported(f'atom {ak}: {a}')


def head(h):
    k = h.ast_type
    if k == T.Literal:
        if h.atom.ast_type == T.BooleanConstant and not h.atom.value:
            return ('none',)
        return ('atom', literal(h))
    if k == T.Disjunction:
        return ('disj', [literal(e) for e in h.elements])
    if k == T.Aggregate:
        return ('choice', guard(h.left_guard), [literal(e) for e in h.elements], guard(h.right_guard))
    if k == T.TheoryAtom:
        return ('theory', str(h))
    raise Unsupported(f'head {k}: {h}')


def parse(program: str):
    """Return list of statement dicts (in order). Raises RuntimeError on syntax errors."""
    stmts = []
    part = ['base']
    msgs = []

    def cb(n):
        k = n.ast_type
        if k == T.Program:
            part[0] = n.name
            stmts.append({'kind': 'program', 'part': n.name, 'text': str(n)})
        elif k == T.Rule:
            stmts.append({'kind': 'rule', 'part': part[0], 'text': str(n), 'head': head(n.head),
                          'body': [literal(b) for b in n.body]})
        elif k == T.Minimize:
            stmts.append({'kind': 'weak', 'part': part[0], 'text': str(n), 'weight': term(n.weight),
                          'priority': term(n.priority), 'terms': [term(x) for x in n.terms],
                          'body': [literal(b) for b in n.body]})
        elif k == T.Definition:
            stmts.append({'kind': 'const', 'part': part[0], 'text': str(n), 'name': n.name, 'value': term(n.value)})
        else:
            stmts.append({'kind': str(k), 'part': part[0], 'text': str(n)})
    A.parse_string(program, cb, logger=lambda c, m: msgs.append(m))
    # drop the implicit leading '#program base.'
    if stmts and stmts[0]['kind'] == 'program' and stmts[0]['part'] == 'base':
        stmts = stmts[1:]
    return stmts


# ---------------------------------------------------------------------------
# helpers over the plain structures
# ---------------------------------------------------------------------------
def term_vars(t, acc=None):
    acc = [] if acc is None else acc
    if t[0] == 'var':
        acc.append(t[1])
    elif t[0] == 'fun':
        for a in t[2]:
            term_vars(a, acc)
    elif t[0] == 'bin':
        term_vars(t[2], acc)
        term_vars(t[3], acc)
    elif t[0] == 'un':
        term_vars(t[2], acc)
    elif t[0] == 'interval':
        term_vars(t[1], acc)
        term_vars(t[2], acc)
    elif t[0] == 'pool':
        for a in t[1]:
            term_vars(a, acc)
    return acc


def lit_atoms(l, acc=None):
    """All ('atom', ...) literals inside a literal (conditions, aggregate elements)."""
    acc = [] if acc is None else acc
    k = l[0]
    if k == 'atom':
        acc.append(l)
    elif k == 'cond':
        lit_atoms(l[1], acc)
        for c in l[2]:
            lit_atoms(c, acc)
    elif k == 'agg':
        for ts, cond in l[4]:
            for c in cond:
                lit_atoms(c, acc)
    elif k == 'setagg':
        for e in l[3]:
            lit_atoms(e, acc)
    return acc


def stmt_atoms(s):
    acc = []
    h = s.get('head')
    if h:
        if h[0] == 'atom':
            lit_atoms(h[1], acc)
        elif h[0] in ('disj',):
            for e in h[1]:
                lit_atoms(e, acc)
        elif h[0] == 'choice':
            for e in h[2]:
                lit_atoms(e, acc)
    for b in s.get('body', []):
        lit_atoms(b, acc)
    return acc


def term_str(t):
    k = t[0]
    if k == 'var':
        return t[1]
    if k == 'num':
        return str(t[1])
    if k == 'str':
        return '"' + t[1] + '"'
    if k == 'fun':
        return t[1] + ('(' + ','.join(term_str(a) for a in t[2]) + ')' if t[2] else '')
    if k == 'bin':
        return '(' + term_str(t[2]) + t[1] + term_str(t[3]) + ')'
    if k == 'un':
        return ('|' + term_str(t[2]) + '|') if t[1] == '|' else (t[1] + term_str(t[2]))
    if k == 'interval':
        return '(' + term_str(t[1]) + '..' + term_str(t[2]) + ')'
    if k == 'inf':
        return '#inf'
    if k == 'sup':
        return '#sup'
    return str(t)
