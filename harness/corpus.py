"""The corpus (DESIGN §4.3): every example file and every CNL input embedded in the tests."""
from __future__ import annotations

import ast
import os
import re
from textwrap import dedent

REPO = os.environ.get('VERIF_REPO', '/repo')
_CALLS = {'check_input_to_output', 'compute_clingo_model', 'compute_telingo_model', 'get_symbols', 'Cnl2asp',
          'compute_asp'}


def _const_str(node):
    if isinstance(node, ast.Constant) and isinstance(node.value, str):
        return node.value
    return None


def test_inputs():
    out = []
    tdir = os.path.join(REPO, 'src', 'tests')
    for fn in sorted(os.listdir(tdir)):
        if not fn.endswith('.py'):
            continue
        with open(os.path.join(tdir, fn)) as f:
            try:
                tree = ast.parse(f.read())
            except SyntaxError:
                continue
        assigned = {}
        for node in ast.walk(tree):
            if isinstance(node, ast.Assign) and len(node.targets) == 1 and isinstance(node.targets[0], ast.Name):
                s = _const_str(node.value)
                if s is not None and node.targets[0].id in ('text', 'string', 'cnl', 'input_text'):
                    out.append((f'{fn}:{node.lineno}', dedent(s).strip()))
            if isinstance(node, ast.Call):
                name = node.func.attr if isinstance(node.func, ast.Attribute) else getattr(node.func, 'id', None)
                if name in _CALLS and node.args:
                    s = _const_str(node.args[0])
                    if s is not None:
                        out.append((f'{fn}:{node.lineno}', dedent(s).strip()))
    # de-duplicate, keep order
    seen = set()
    res = []
    for k, s in out:
        if s and s not in seen and not os.path.sep in s.split('\n')[0]:
            seen.add(s)
            res.append((k, s))
    return res


def example_files():
    out = []
    for root in (os.path.join(REPO, 'examples'), os.path.join(REPO, 'examples', 'telingo')):
        for fn in sorted(os.listdir(root)):
            p = os.path.join(root, fn)
            if os.path.isfile(p) and not fn.endswith('.generated') and not fn.endswith('.md'):
                with open(p) as f:
                    out.append((os.path.relpath(p, REPO), f.read()))
    return out


def corpus():
    return example_files() + test_inputs()


_SENT_END = re.compile(r'\.(?=\s|$)')


def split_sentences(text):
    """Split a specification into sentences (terminated by '.' followed by white space / end).
    Comments are kept attached to the following sentence. Quoted strings with dots are not split."""
    out = []
    cur = ''
    i = 0
    in_q = False
    n = len(text)
    while i < n:
        c = text[i]
        cur += c
        if c == '"':
            in_q = not in_q
        elif text.startswith('//', i) and not in_q:
            j = text.find('\n', i)
            j = n if j < 0 else j
            cur += text[i + 1:j]
            i = j
            continue
        elif c == '.' and not in_q:
            nxt = text[i + 1] if i + 1 < n else ' '
            prv = text[i - 1] if i > 0 else ' '
            if nxt.isspace() and not (prv.isdigit() and i + 1 < n and text[i + 1].isdigit()):
                out.append(cur.strip())
                cur = ''
        i += 1
    if cur.strip():
        out.append(cur.strip())
    return out


HEADER_RE = re.compile(r'The following propositions [^:]*:')


def split_headers(sentence):
    """A sentence may be preceded by a block header ('The following propositions …:')."""
    m = HEADER_RE.match(sentence)
    if m:
        return m.group(0), sentence[m.end():].strip()
    return None, sentence
