"""./check Cxx [--tier quick|thorough] [--replay file] | ./check --setup"""
from __future__ import annotations

import argparse
import importlib
import os
import sys
import time
import traceback


def setup():
    from . import common
    ok, tables, msg = common.run_tgen()
    print('tgen:', msg if ok else 'FAILED ' + msg)
    # generated grid files must exist before a full build; each property module regenerates its own
    for name in sorted(os.listdir(os.path.join(os.path.dirname(__file__), 'props'))):
        if name.startswith('c') and name.endswith('.py'):
            mod = importlib.import_module(f'harness.props.{name[:-3]}')
            if hasattr(mod, 'pregen'):
                try:
                    mod.pregen(tables)
                except Exception as e:  # noqa
                    print(f'pregen {name}: {e}')
    b = common.lean_build([])
    print(b['log'][-3000:])
    return 0 if b['ok'] else 2


def generic_replay(prop, path):
    """Replay of a recorded violation: show what was recorded, then run the property's check again with the recorded seed and tier on
    the current /repo and say whether a violation with the same key (or the same broken obligations) is reported again.
    Exit 1 = reproduced (prints the VIOLATION line of the new run), 0 = not reproduced, 2 = tooling failure."""
    import json
    import shutil
    import subprocess
    import tempfile
    from . import common
    with open(path) as f:
        rec = json.load(f)
    print(f'[{prop}] replaying {path}')
    print(f'  key : {rec.get("key", "(broken obligations)")}')
    print(f'  what: {str(rec.get("what", rec.get("note", "")))[:600]}')
    for k, v in (rec.get('replay') or {}).items():
        print(f'  {k}: {str(v)[:800]}')
    for b in rec.get('broken_obligations', [])[:5]:
        print(f'  broken {b.get("kind")}: {b.get("name")} {str(b.get("detail"))[:300]}')
    keep = tempfile.mkdtemp(prefix='replay_')
    shutil.copy(path, keep)            # the new run clears replays/<prop>/
    env = dict(os.environ, VERIF_SEED=str(rec.get('seed', 0)))
    p = subprocess.run([sys.executable, '-m', 'harness.main', prop, '--tier', rec.get('tier', 'quick')], cwd=common.VERIF, env=env,
                       capture_output=True, text=True)
    rdir = os.path.join(common.VERIF, 'replays', prop)
    again = None
    if os.path.isdir(rdir):
        for fn in sorted(os.listdir(rdir)):
            with open(os.path.join(rdir, fn)) as f:
                new = json.load(f)
            if 'key' in rec and new.get('key') == rec['key']:
                again = fn
            if 'key' not in rec and 'key' not in new and \
                    {b.get('name') for b in new.get('broken_obligations', [])} & {b.get('name') for b in rec.get('broken_obligations', [])}:
                again = fn
    shutil.rmtree(keep, ignore_errors=True)
    if p.returncode == 2:
        print(p.stdout[-2000:] + p.stderr[-2000:])
        return 2
    if again:
        suffix = ' no-failing-input-found' if 'key' not in rec else ''
        print(f'VIOLATION property={prop} replay=replays/{prop}/{again}{suffix}')
        print(f'[{prop}] reproduced on the current tree')
        return 1
    print(f'[{prop}] not reproduced on the current tree (the check no longer reports this violation)')
    return 0


def main():
    ap = argparse.ArgumentParser()
    ap.add_argument('prop', nargs='?')
    ap.add_argument('--tier', default=os.environ.get('VERIF_TIER', 'quick'), choices=['quick', 'thorough'])
    ap.add_argument('--replay')
    ap.add_argument('--setup', action='store_true')
    a = ap.parse_args()
    if a.setup:
        sys.exit(setup())
    if not a.prop:
        ap.error('property id required')
    mod = importlib.import_module(f'harness.props.{a.prop.lower()}')
    try:
        if a.replay:
            rc = mod.replay(a.replay) if hasattr(mod, 'replay') else generic_replay(a.prop, a.replay)
        else:
            rc = mod.main(a.tier)
    except Exception:  # tooling failure: neither a pass nor a violation
        traceback.print_exc()
        rc = 2
    sys.stdout.flush()
    os._exit(rc)


if __name__ == '__main__':
    main()
