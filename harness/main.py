"""./check Cxx [--tier quick|thorough] [--replay file] | ./check --setup"""
from __future__ import annotations

import argparse
import importlib
import os
import sys
import time
import traceback


def setup():
    from . import common
    ok, tables, msg = common.run_tgen()
    print('tgen:', msg if ok else 'FAILED ' + msg)
    # generated grid files must exist before a full build; each property module regenerates its own
    for name in sorted(os.listdir(os.path.join(os.path.dirname(__file__), 'props'))):
        if name.startswith('c') and name.endswith('.py'):
            mod = importlib.import_module(f'harness.props.{name[:-3]}')
            if hasattr(mod, 'pregen'):
                try:
                    mod.pregen(tables)
                except Exception as e:  # noqa
                    print(f'pregen {name}: {e}')
    b = common.lean_build([])
    print(b['log'][-3000:])
    return 0 if b['ok'] else 2


def main():
    ap = argparse.ArgumentParser()
    ap.add_argument('prop', nargs='?')
    ap.add_argument('--tier', default=os.environ.get('VERIF_TIER', 'quick'), choices=['quick', 'thorough'])
    ap.add_argument('--replay')
    ap.add_argument('--setup', action='store_true')
    a = ap.parse_args()
    if a.setup:
        sys.exit(setup())
    if not a.prop:
        ap.error('property id required')
    mod = importlib.import_module(f'harness.props.{a.prop.lower()}')
    try:
        if a.replay:
            rc = mod.replay(a.replay)
        else:
            rc = mod.main(a.tier)
    except Exception:  # tooling failure: neither a pass nor a violation
        traceback.print_exc()
        rc = 2
    sys.stdout.flush()
    os._exit(rc)


if __name__ == '__main__':
    main()
