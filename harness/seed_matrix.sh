#!/bin/bash
# usage: harness/seed_matrix.sh [<seed id> ...]   — apply every kept seeded change to /repo in turn, run the check of its own property
# (and the extra checks listed in seeded/<id>/also, one id per line, if present), undo it, and record the outcome in seeded/MATRIX.json
cd /verif
if ! git -C /repo diff --quiet; then echo "/repo is dirty"; exit 3; fi
ids="$@"
[ -z "$ids" ] && ids=$(ls seeded | grep -v MATRIX)
for id in $ids; do
  prop=${id%%-*}
  checks="$prop"
  [ -f seeded/$id/also ] && checks="$checks $(cat seeded/$id/also)"
  git -C /repo apply /verif/seeded/$id/patch.diff || { echo "$id: patch does not apply"; continue; }
  for c in $checks; do
    ./check $c --tier quick > /tmp/matrix_${id}_$c.log 2>&1; rc=$?
    nv=$(grep -c '^VIOLATION' /tmp/matrix_${id}_$c.log)
    nf=$(grep '^VIOLATION' /tmp/matrix_${id}_$c.log | grep -vc 'no-failing-input-found')
    nb=$(grep -c 'BROKEN' /tmp/matrix_${id}_$c.log)
    echo "$id $c rc=$rc violations=$nv with_failing_input=$nf broken_obligations=$nb"
  done
  git -C /repo checkout -- .
done | tee /tmp/seed_matrix.txt
python3 - <<'PY'
import json, re, os
rows = {}
p = '/verif/seeded/MATRIX.json'
if os.path.exists(p):
    rows = json.load(open(p))
for line in open('/tmp/seed_matrix.txt'):
    m = re.match(r'(\S+) (\S+) rc=(\d+) violations=(\d+) with_failing_input=(\d+) broken_obligations=(\d+)', line)
    if m:
        rows.setdefault(m.group(1), {})[m.group(2)] = {'exit': int(m.group(3)), 'violation_lines': int(m.group(4)),
                                                         'with_failing_input': int(m.group(5)), 'broken_obligations': int(m.group(6))}
json.dump(rows, open(p, 'w'), indent=1, sort_keys=True)
print('MATRIX.json:', len(rows), 'seeded changes')
PY
