"""Runs one API history in THIS (fresh) process and prints the canonical results as JSON.

stdin: {"calls": [call, ...], "monitor": bool}
call:  {"op": "new", "id": k, "text": str}
       {"op": "compile", "id": k, "auto_link": bool, "fn": bool}
       {"op": "get_symbols" | "check_syntax" | "cnl_to_json", "id": k, ["force_flag": bool]}
The real code is used as it is: no caching, no resetting between calls.
"""
from __future__ import annotations

import contextlib
import io
import json
import os
import re
import sys

REPO = os.environ.get('VERIF_REPO', '/repo')
sys.path.insert(0, os.path.join(REPO, 'src'))

UUID_RE = re.compile(r'x_[0-9a-f]{8}_[0-9a-f]{4}_[0-9a-f]{4}_[0-9a-f]{4}_[0-9a-f]{12}')
UUID_VAR_RE = re.compile(r'X_(?:[0-9BCDF]*_){4}[0-9BCDF]{4,}')


def norm(text):
    seen, seenv = {}, {}

    def sub(m):
        return seen.setdefault(m.group(0), f'x_aux{len(seen)}')

    def subv(m):
        return seenv.setdefault(m.group(0), f'X_AUX{len(seenv)}')
    return UUID_RE.sub(sub, UUID_VAR_RE.sub(subv, text))


def err(e):
    orig = getattr(e, 'orig_exc', None)
    msg = str(orig if orig is not None else e)
    m = re.search(r'line (\d+)', str(e))
    return {'error': type(e).__name__, 'orig': type(orig).__name__ if orig is not None else None,
            'line': int(m.group(1)) if m else None, 'msg': norm(msg)[:300]}


def sym_repr(s):
    def conv(x):
        if isinstance(x, str):
            return x
        return {'predicate': x.predicate, 'keys': [conv(k) for k in x.keys], 'attributes': [conv(a) for a in x.attributes],
                'type': x.symbol_type.name}
    return conv(s)


def snapshot():
    from cnl2asp.specification.signaturemanager import SignatureManager
    from cnl2asp.utility.utility import Utility
    from cnl2asp.parser import parser as P
    from cnl2asp.specification.proposition import ConditionComponent
    from cnl2asp.ASP_elements.asp_rule import ASPRule

    def ent(e):
        return [e.get_name(), [(a.get_name(), str(a.value), str(a.origin)) for a in e.keys],
                [(a.get_name(), str(a.value), str(a.origin)) for a in e.attributes], e.negated, str(e.entity_type),
                e.is_before, e.is_after, e.is_initial, e.is_final]
    d = P.DUMMY_ENTITY
    dflt_cond = ConditionComponent.__init__.__defaults__[0]
    dflt_rule = ASPRule.__init__.__defaults__[0]
    return {
        'signatures': [ent(s) for s in SignatureManager.signatures],
        'auto_link': Utility.AUTO_ENTITY_LINK,
        'print_fn': Utility.PRINT_WITH_FUNCTIONS,
        'immutable': {
            'DUMMY_ENTITY': [d.get_name(), d.label, len(d.keys), len(d.attributes), d.negated, d.is_before, d.is_after,
                             d.is_initial, d.is_final, d.auxiliary_verb],
            'ConditionComponent.default': len(dflt_cond),
            'ASPRule.default_body': len(dflt_rule.conjunction),
            'NULL_VALUE': Utility.NULL_VALUE, 'DEFAULT_ATTRIBUTE': Utility.DEFAULT_ATTRIBUTE,
        },
    }


def main():
    job = json.load(sys.stdin)
    from cnl2asp.cnl2asp import Cnl2asp
    from cnl2asp.utility.utility import Utility
    objs = {}
    out = []
    for c in job['calls']:
        rec = {}
        if job.get('monitor'):
            rec['pre'] = snapshot()
        buf = io.StringIO()
        try:
            with contextlib.redirect_stdout(buf), contextlib.redirect_stderr(io.StringIO()):
                op = c['op']
                if op == 'new':
                    objs[c['id']] = Cnl2asp(c['text'])
                    rec['result'] = 'constructed'
                else:
                    o = objs[c['id']]
                    if 'force_flag' in c:
                        Utility.AUTO_ENTITY_LINK = c['force_flag']
                    if op == 'compile':
                        Utility.PRINT_WITH_FUNCTIONS = bool(c.get('fn'))
                        rec['result'] = {'ok': norm(o.compile(c.get('auto_link', True)))}
                    elif op == 'get_symbols':
                        rec['result'] = {'ok': [sym_repr(s) for s in o.get_symbols()]}
                    elif op == 'check_syntax':
                        rec['result'] = {'ok': bool(o.check_syntax())}
                    elif op == 'cnl_to_json':
                        rec['result'] = {'ok': json.loads(norm(json.dumps(o.cnl_to_json(), sort_keys=True)))}
                    else:
                        rec['result'] = {'error': 'bad-op'}
        except Exception as e:  # noqa
            rec['result'] = err(e)
        if job.get('monitor'):
            rec['post'] = snapshot()
        out.append(rec)
    sys.stdout.write(json.dumps(out))


if __name__ == '__main__':
    main()
