"""Runs one API history in THIS (fresh) process and prints the canonical results as JSON.

stdin: {"calls": [call, ...], "monitor": bool}
call:  {"op": "new", "id": k, "text": str}
       {"op": "compile", "id": k, "auto_link": bool, "fn": bool}
       {"op": "get_symbols" | "check_syntax" | "cnl_to_json", "id": k, ["force_flag": bool]}
The real code is used as it is: no caching, no resetting between calls.
"""
from __future__ import annotations

import contextlib
import io
import json
import os
import re
import sys

REPO = os.environ.get('VERIF_REPO', '/repo')
sys.path.insert(0, os.path.join(REPO, 'src'))

UUID_RE = re.compile(r'x_[0-9a-f]{8}_[0-9a-f]{4}_[0-9a-f]{4}_[0-9a-f]{4}_[0-9a-f]{12}')
UUID_VAR_RE = re.compile(r'X_(?:[0-9BCDF]*_){4}[0-9BCDF]{4,}')


def norm(text):
    seen, seenv = {}, {}

    def sub(m):
        return seen.setdefault(m.group(0), f'x_aux{len(seen)}')

    def subv(m):
        return seenv.setdefault(m.group(0), f'X_AUX{len(seenv)}')
    return UUID_RE.sub(sub, UUID_VAR_RE.sub(subv, text))


def err(e):
    orig = getattr(e, 'orig_exc', None)
    msg = str(orig if orig is not None else e)
    m = re.search(r'line (\d+)', str(e))
    return {'error': type(e).__name__, 'orig': type(orig).__name__ if orig is not None else None,
            'line': int(m.group(1)) if m else None, 'msg': norm(msg)[:300]}


def sym_repr(s):
    def conv(x):
        if isinstance(x, str):
            return x
        return {'predicate': x.predicate, 'keys': [conv(k) for k in x.keys], 'attributes': [conv(a) for a in x.attributes],
                'type': x.symbol_type.name}
    return conv(s)


def _canon(x, depth=3):
    """process-independent summary of a value (no addresses, no hash order)"""
    import enum
    if x is None or isinstance(x, (bool, int, float, str, bytes)):
        return x if not isinstance(x, str) else x[:80]
    if isinstance(x, enum.Enum):
        return str(x)
    if depth <= 0:
        return type(x).__name__
    if isinstance(x, (list, tuple)):
        return [type(x).__name__, len(x)] + [_canon(e, depth - 1) for e in list(x)[:30]]
    if isinstance(x, (set, frozenset)):
        return ['set', len(x)] + sorted(json.dumps(_canon(e, depth - 1), sort_keys=True, default=str) for e in list(x)[:30])
    if isinstance(x, dict):
        return ['dict', len(x)] + sorted(json.dumps([_canon(k, 1), _canon(v, depth - 1)], sort_keys=True, default=str) for k, v in list(x.items())[:60])
    if callable(x) and not hasattr(x, '__dict__'):
        return type(x).__name__
    try:
        d = vars(x)
    except TypeError:
        return type(x).__name__
    return [type(x).__name__] + sorted(json.dumps([k, _canon(v, depth - 1)], sort_keys=True, default=str) for k, v in list(d.items())[:40]
                                       if not k.startswith('__'))


# process-wide state that API calls are expected to rewrite (tracked separately by the monitors)
_EXPECTED_TO_CHANGE = ('cnl2asp.specification.signaturemanager.SignatureManager.signatures',)


def generic_frame():
    """every mutable container that lives at module level, at class level or in a default argument anywhere in the cnl2asp package:
    none of them may change across API calls (caches, registries, shared defaults)"""
    import inspect
    import types
    out = {}

    def defaults(f, where):
        for i, dv in enumerate(f.__defaults__ or ()):
            if isinstance(dv, (list, dict, set)) or (hasattr(dv, '__dict__') and not inspect.isclass(dv) and not callable(dv)):
                out[f'{where}.__defaults__[{i}]'] = _canon(dv)
        for k, dv in (f.__kwdefaults__ or {}).items():
            if isinstance(dv, (list, dict, set)):
                out[f'{where}.__kwdefaults__[{k}]'] = _canon(dv)
    for mname, mod in sorted(sys.modules.items()):
        if mod is None or not (mname == 'cnl2asp' or mname.startswith('cnl2asp.')):
            continue
        for name, val in sorted(vars(mod).items(), key=lambda kv: kv[0]):
            if name.startswith('__'):
                continue
            if isinstance(val, (list, dict, set)):
                out[f'{mname}.{name}'] = _canon(val)
            elif inspect.isclass(val) and getattr(val, '__module__', None) == mname:
                for an, av in sorted(vars(val).items(), key=lambda kv: kv[0]):
                    if an.startswith('__') and an != '__init__':
                        continue
                    key = f'{mname}.{val.__name__}.{an}'
                    if key in _EXPECTED_TO_CHANGE:
                        continue
                    if isinstance(av, (list, dict, set)):
                        out[key] = _canon(av)
                    f = av.__func__ if isinstance(av, (staticmethod, classmethod)) else av
                    if isinstance(f, types.FunctionType):
                        defaults(f, key)
            elif isinstance(val, types.FunctionType) and getattr(val, '__module__', None) == mname:
                defaults(val, f'{mname}.{name}')
    return out


def snapshot():
    from cnl2asp.specification.signaturemanager import SignatureManager
    from cnl2asp.utility.utility import Utility
    from cnl2asp.parser import parser as P
    from cnl2asp.specification.proposition import ConditionComponent
    from cnl2asp.ASP_elements.asp_rule import ASPRule

    def ent(e):
        return [e.get_name(), [(a.get_name(), str(a.value), str(a.origin)) for a in e.keys],
                [(a.get_name(), str(a.value), str(a.origin)) for a in e.attributes], e.negated, str(e.entity_type),
                e.is_before, e.is_after, e.is_initial, e.is_final]
    d = P.DUMMY_ENTITY
    dflt_cond = ConditionComponent.__init__.__defaults__[0]
    dflt_rule = ASPRule.__init__.__defaults__[0]
    return {
        'signatures': [ent(s) for s in SignatureManager.signatures],
        'auto_link': Utility.AUTO_ENTITY_LINK,
        'print_fn': Utility.PRINT_WITH_FUNCTIONS,
        'immutable': {
            'DUMMY_ENTITY': [d.get_name(), d.label, len(d.keys), len(d.attributes), d.negated, d.is_before, d.is_after,
                             d.is_initial, d.is_final, d.auxiliary_verb],
            'ConditionComponent.default': len(dflt_cond),
            'ASPRule.default_body': len(dflt_rule.conjunction),
            'NULL_VALUE': Utility.NULL_VALUE, 'DEFAULT_ATTRIBUTE': Utility.DEFAULT_ATTRIBUTE,
            'generic': generic_frame(),
        },
    }


def main():
    job = json.load(sys.stdin)
    from cnl2asp.cnl2asp import Cnl2asp
    from cnl2asp.utility.utility import Utility
    objs = {}
    out = []
    for c in job['calls']:
        rec = {}
        if job.get('monitor'):
            rec['pre'] = snapshot()
        buf = io.StringIO()
        try:
            with contextlib.redirect_stdout(buf), contextlib.redirect_stderr(io.StringIO()):
                op = c['op']
                if op == 'new':
                    objs[c['id']] = Cnl2asp(c['text'])
                    rec['result'] = 'constructed'
                else:
                    o = objs[c['id']]
                    if 'force_flag' in c:
                        Utility.AUTO_ENTITY_LINK = c['force_flag']
                    if op == 'compile':
                        Utility.PRINT_WITH_FUNCTIONS = bool(c.get('fn'))
                        rec['result'] = {'ok': norm(o.compile(c.get('auto_link', True)))}
                    elif op == 'get_symbols':
                        rec['result'] = {'ok': [sym_repr(s) for s in o.get_symbols()]}
                    elif op == 'check_syntax':
                        rec['result'] = {'ok': bool(o.check_syntax())}
                    elif op == 'cnl_to_json':
                        rec['result'] = {'ok': json.loads(norm(json.dumps(o.cnl_to_json(), sort_keys=True)))}
                    else:
                        rec['result'] = {'error': 'bad-op'}
        except Exception as e:  # noqa
            rec['result'] = err(e)
        if job.get('monitor'):
            rec['post'] = snapshot()
        out.append(rec)
    sys.stdout.write(json.dumps(out))


if __name__ == '__main__':
    main()
