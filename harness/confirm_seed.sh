#!/bin/bash
# usage: harness/confirm_seed.sh <worktree> <mutation dir> <seed id>
# Confirms, in the scratch worktree: demo passes without the change, fails with it, and the unedited test suite passes with it.
# On success copies patch.diff, demo.py, meta.json (+ what was run) to /verif/seeded/<id>/.
wt="$1"; mdir="$2"; id="$3"
cd "$wt" || exit 3
git checkout -q -- src
export PYTHONPATH="$wt/src"
/venv/bin/python "$mdir/demo.py" > /tmp/confirm_$id.clean.log 2>&1; rc_clean=$?
git apply "$mdir/patch.diff" || { echo "$id: patch does not apply"; exit 3; }
/venv/bin/python "$mdir/demo.py" > /tmp/confirm_$id.mut.log 2>&1; rc_mut=$?
/venv/bin/python -m pytest -q -p no:cacheprovider --timeout=900 src/tests > /tmp/confirm_$id.tests.log 2>&1; rc_tests=$?
git checkout -q -- src
summary=$(tail -1 /tmp/confirm_$id.tests.log)
echo "$id: demo clean rc=$rc_clean, demo mutated rc=$rc_mut, tests rc=$rc_tests ($summary)"
if [ $rc_clean -eq 0 ] && [ $rc_mut -ne 0 ] && [ $rc_tests -eq 0 ]; then
  mkdir -p /verif/seeded/$id
  cp "$mdir/patch.diff" "$mdir/demo.py" /verif/seeded/$id/
  /venv/bin/python - "$mdir/meta.json" "/verif/seeded/$id/meta.json" "$summary" <<'PY'
import json, sys
m = json.load(open(sys.argv[1]))
m['confirmed'] = {'demo_exit_unchanged': 0, 'demo_exit_with_change': 'non-zero', 'test_suite_with_change': sys.argv[3],
                  'how': 'harness/confirm_seed.sh in a scratch git worktree of /repo (PYTHONPATH=<worktree>/src)'}
json.dump(m, open(sys.argv[2], 'w'), indent=1)
PY
  echo "$id: KEPT"
else
  echo "$id: NOT kept"
fi
