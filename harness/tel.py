"""telingo as an oracle: (1) how telingo's own operator table makes clingo read the text inside &tel{…};
(2) running telingo on a program and reading the states of every model."""
from __future__ import annotations

import os
import re
import subprocess
import tempfile

_THEORY = None


def tel_theory():
    """the `#theory tel {…}.` definition, taken from the installed telingo's source"""
    global _THEORY
    if _THEORY is None:
        import telingo.transformers as T
        src = open(os.path.join(os.path.dirname(T.__file__), '__init__.py')).read()
        m = re.search(r"(#theory tel \{.*?\n\s*\}\.)", src, flags=re.S)
        if not m:
            raise RuntimeError('cannot find the tel theory in telingo')
        _THEORY = m.group(1)
    return _THEORY


def _sexpr(t, names):
    import clingo
    TT = clingo.TheoryTermType
    if t.type == TT.Symbol:
        return names.get(t.name, t.name)
    if t.type == TT.Number:
        return str(t.number)
    if t.type == TT.Function:
        args = [_sexpr(a, names) for a in t.arguments]
        key = t.name + '(' + ','.join(args) + ')'
        if key in names:
            return names[key]
        return '(' + ' '.join([t.name] + args) + ')'
    if t.type == TT.Tuple:
        args = [_sexpr(a, names) for a in t.arguments]
        return args[0] if len(args) == 1 else '(tuple ' + ' '.join(args) + ')'
    return str(t)


def read_formula(text, names):
    """the tree clingo builds for `&tel{text}` with telingo's operator precedences, as an s-expression;
    `names` maps ground atoms (e.g. 'alpha(1)') to short names. Raises RuntimeError if the text does not parse."""
    import clingo
    msgs = []
    ctl = clingo.Control(['--warn=none'], logger=lambda c, m: msgs.append(m))
    try:
        ctl.add('base', [], tel_theory() + f'\nprobe :- &tel(0) {{ {text} }}.\n')
        ctl.ground([('base', [])])
    except RuntimeError as e:
        raise RuntimeError(str(e) + ' ' + ' '.join(msgs)[:300])
    for ta in ctl.theory_atoms:
        els = ta.elements
        if len(els) != 1 or len(els[0].terms) != 1:
            raise RuntimeError('unexpected theory atom shape')
        return _sexpr(els[0].terms[0], names)
    raise RuntimeError('no theory atom')


STATE_RE = re.compile(r'^ State (\d+):(.*)$')


def run_telingo(program, horizon, timeout=120, errlen=400, models=0):
    """all models of `program` with exactly `horizon` states (imin=imax=horizon).
    Returns ('ok', [ [set(atoms) per state] per model ]) or ('err', message)."""
    with tempfile.NamedTemporaryFile('w', suffix='.lp', delete=False) as f:
        f.write(program)
        path = f.name
    try:
        p = subprocess.run(['/venv/bin/python', '-m', 'telingo', path, str(models), f'--imin={horizon}', f'--imax={horizon}',
                            '--verbose=0', '--warn=none'], capture_output=True, text=True, timeout=timeout)
    finally:
        os.unlink(path)
    out = p.stdout
    if 'error' in p.stderr.lower() or 'Traceback' in p.stderr:
        return ('err', p.stderr[-errlen:])
    models = []
    cur = None
    state = None
    for line in out.split('\n'):
        m = re.match(r'^ State (\d+):\s*(.*)$', line)
        if m:
            if int(m.group(1)) == 0:
                cur = []
                models.append(cur)
            state = set(split_atoms(m.group(2)))
            if cur is not None:
                cur.append(state)
            continue
        if line.startswith('  ') and state is not None:
            state.update(split_atoms(line))
    models = [m for m in models if len(m) == horizon]
    return ('ok', models)


def split_atoms(line):
    """the atoms of one line of telingo's output: separated by blanks, but a blank inside a quoted value belongs to the value"""
    atoms, cur, quoted = [], '', False
    for ch in line:
        if ch == '"':
            quoted = not quoted
        if ch.isspace() and not quoted:
            if cur:
                atoms.append(cur)
            cur = ''
        else:
            cur += ch
    if cur:
        atoms.append(cur)
    return atoms
