"""C18 — the command line never crashes and never leaves a partial result.

Lean: Props/C18.lean (totality of the control function for all flag sets x outcomes, no file on error,
diagnostic kind, blank-free word extraction, offset <-> (line, col) round trip).
Tie: T-corr unit — real ParserError.get_uncrecognized_word / str(ParserError(...)) vs the model;
T-corr end-to-end — the real main() in-process (argv, stdout, cwd patched) on damaged corpus texts:
(uncaught?, printed class, file written?) vs the model's cli(flags, outcome).
Search: the same runs are the failing-input search (an uncaught exception, a file on error or a
mis-cited position on the real code is a violation by itself); a few runs go through `python src/main.py`.
"""
from __future__ import annotations

import contextlib
import io
import os
import random
import re
import subprocess
import sys
import tempfile

from .. import common, rt, corpus

PROP = 'C18'
MODULES = ['Cnl2aspModel.Props.C18']
THEOREMS = ['C18_no_uncaught', 'C18_no_file_on_error', 'C18_diagnostic_kind', 'C18_word_no_blank', 'C18_linecol',
            'C18_headline_cites']

PRINTABLE = ''.join(chr(c) for c in range(32, 127))


def damaged_texts(rng, n):
    """valid corpus texts damaged by insertion / deletion / truncation / token swap, plus random printable text"""
    base = [t for _, t in corpus.corpus()]
    out = []
    kinds = ['valid', 'insert', 'delete', 'truncate', 'dup_word', 'random', 'insert_end', 'locked_name', 'blank_lines',
             'undeclared', 'long_line', 'temporal_edge', 'exotic_linebreak']
    for i in range(n):
        kind = kinds[i % len(kinds)]
        t = rng.choice(base)
        if len(t) > 1200:  # keep parsing time bounded: take a prefix of whole sentences
            sents = corpus.split_sentences(t)
            t = '\n'.join(sents[:rng.randrange(2, 9)])
        pos = rng.randrange(len(t) + 1)
        if kind == 'insert':
            t = t[:pos] + rng.choice('%$#@!?;:&*()[]{}0Zq"\'\\|,. ') + t[pos:]
        elif kind == 'delete':
            k = rng.randrange(1, 4)
            t = t[:pos] + t[pos + k:]
        elif kind == 'truncate':
            t = t[:pos]
        elif kind == 'dup_word':
            words = t.split(' ')
            j = rng.randrange(len(words))
            words.insert(j, rng.choice(['is', 'and', 'the', 'to', words[j], 'whenever', 'X', '1']))
            t = ' '.join(words)
        elif kind == 'random':
            t = ''.join(rng.choice(PRINTABLE + '\n') for _ in range(rng.randrange(0, 60)))
        elif kind == 'insert_end':
            # offending character glued to the last / first word of a line (no blank after / before it)
            lines = t.split('\n')
            j = rng.randrange(len(lines))
            ch = rng.choice('%$#@!?')
            lines[j] = (lines[j].rstrip('.') + ch + '.') if rng.random() < 0.5 else (ch + lines[j])
            t = '\n'.join(lines)
        elif kind == 'locked_name':
            t = t.replace(' id', ' ' + rng.choice(['and', 'is', 'to', 'with', 'where']), 1)
        elif kind == 'undeclared':
            # a concept that nothing declares, in a position that cannot define it -> compilation error
            t = t.rstrip() + '\nIt is prohibited that there is a ' + rng.choice(['zorg', 'blip', 'quux']) + ' with id 1.\n'
        elif kind == 'exotic_linebreak':
            # characters that str.splitlines() takes for line boundaries but the grammar does not (form feed is legal white space):
            # placed before a lexical error, so that the diagnostic is built for a (line, column) counted differently
            lines = t.split('\n')
            j = rng.randrange(len(lines))
            ch = rng.choice(['\x0c', '\x0b', '\x1c', '\x1d', '\x1e', '\x85', '\u2028', '\u2029', '\r'])
            k = rng.randrange(len(lines[j]) + 1)
            if rng.random() < 0.5:
                lines[j] = lines[j][:k] + ch + lines[j][k:]
            else:
                lines.insert(j, ch)
            lines[-1] = lines[-1] + rng.choice([' %', '\nEvery movee is.', ' $$', '\n@'])
            t = '\n'.join(lines)
        elif kind == 'temporal_edge':
            # temporal concept declarations with degenerate numbers: zero / huge lengths, reversed and one-point ranges, malformed values
            unit = rng.choice(['minutes', 'days', 'steps'])
            a, b = {'minutes': ('07:30 AM', '09:00 AM'), 'days': ('27/02/2024', '02/03/2024'), 'steps': ('1', '4')}[unit]
            if rng.random() < 0.3:
                a, b = b, a
            if rng.random() < 0.2:
                b = a
            if rng.random() < 0.15:
                a = rng.choice(['25:00 AM', '31/02/2024', '07:30', '0'])
            ln = rng.choice(['0', '0', '00', '1', '7', '100000', '000'])
            t = (f'A slot is a temporal concept expressed in {unit} ranging from {a} to {b}'
                 + (f' with a length of {ln} {unit}.' if unit != 'steps' else '.')
                 + '\nA visit is identified by an id, and by a slot.\n'
                 + rng.choice(['', f'It is prohibited that there is a visit with slot T, whenever there is a slot T that is after {b}.\n',
                               f'It is prohibited that the visit V is before {a}.\n']))
        elif kind == 'long_line':
            # lexical error far to the right on a long sentence (beyond the 40-character context window)
            sents = [x for x in corpus.split_sentences(t) if len(x) > 90 and '\n' not in x]
            if sents:
                x = rng.choice(sents)
                k = rng.randrange(82, len(x))
                t = t.replace(x, x[:k] + rng.choice('%$#') + x[k:], 1)
            else:
                t = t + ' %'
        elif kind == 'blank_lines':
            t = '\n' * rng.randrange(1, 4) + t.replace('. ', '.\n\n', 1) + rng.choice(['%', ' $', '\n@'])
        out.append((kind, t))
    return out


FLAGSETS = [
    {}, {'outfile': True}, {'c': True}, {'symbols': True}, {'p': True}, {'p': True, 'outfile': True},
    {'json': True}, {'c': True, 'outfile': True}, {'symbols': True, 'p': True},
]


def api_outcome(text, flags):
    """What the API call selected by the flags does on the text (observed separately from main())."""
    from cnl2asp.cnl2asp import Cnl2asp
    from cnl2asp.utility.utility import Utility
    from lark import UnexpectedCharacters
    from lark.exceptions import VisitError
    rt.reset_globals()
    Utility.PRINT_WITH_FUNCTIONS = bool(flags.get('p'))
    buf = io.StringIO()
    try:
        with contextlib.redirect_stdout(buf):
            c = Cnl2asp(io.StringIO(text))
            if flags.get('c'):
                c.check_syntax()
                return {'outcome': 'ok', 'nonempty': True}
            if flags.get('json'):
                c.cnl_to_json()
                return {'outcome': 'ok', 'nonempty': True}
            if flags.get('symbols'):
                c.get_symbols()
                return {'outcome': 'ok', 'nonempty': True}
            out = c.compile()
            return {'outcome': 'ok', 'nonempty': bool(str(out)), 'out': out}
    except UnexpectedCharacters as e:
        return {'outcome': 'UnexpectedCharacters', 'line': e.line, 'col': e.column, 'char': e.char,
                'allowed': sorted(e.allowed) if e.allowed else [], 'context': e.get_context(text)}
    except VisitError as e:
        return {'outcome': 'VisitError', 'msg': str(e.args[0])}
    except Exception as e:  # noqa
        return {'outcome': 'other', 'type': type(e).__name__}
    finally:
        Utility.PRINT_WITH_FUNCTIONS = False


def run_main(text, flags):
    """Run the real main() in-process. Returns observed dict."""
    import cnl2asp.cnl2asp as M
    rt.reset_globals()
    with tempfile.TemporaryDirectory() as d:
        inp = os.path.join(d, 'in.cnl')
        outp = os.path.join(d, 'out.lp')
        with open(inp, 'w') as f:
            f.write(text)
        argv = ['cnl2asp']
        if flags.get('c'):
            argv.append('-c')
        if flags.get('json'):
            argv.append('--cnl2json')
        if flags.get('symbols'):
            argv.append('--symbols')
        if flags.get('p'):
            argv.append('-p')
        argv.append(inp)
        if flags.get('outfile'):
            argv.append(outp)
        old_argv = sys.argv
        sys.argv = argv
        buf = io.StringIO()
        err = io.StringIO()
        uncaught = None
        try:
            with contextlib.redirect_stdout(buf), contextlib.redirect_stderr(err):
                M.main()
        except SystemExit as e:
            if e.code not in (0, None):
                uncaught = f'SystemExit({e.code})'
        except BaseException as e:  # noqa
            if isinstance(e, KeyboardInterrupt):
                raise
            uncaught = f'{type(e).__name__}: {str(e)[:200]}'
        finally:
            sys.argv = old_argv
            rt.reset_globals()
        file_exists = os.path.exists(outp)
        file_content = open(outp).read() if file_exists else None
        return {'uncaught': uncaught, 'stdout': buf.getvalue(), 'file': file_exists, 'file_content': file_content}


def classify(stdout, flags, outcome):
    s = stdout
    if s.startswith('Parser error at line'):
        return 'parserDiagnostic'
    if s.startswith('Error in asp conversion:'):
        return 'conversionDiagnostic'
    if 'Compilation error' in s or s.startswith('Error trying to process rule'):
        return 'compilationDiagnostic'
    if flags.get('c') or flags.get('json') or flags.get('symbols'):
        return 'modeResult'
    if s.strip() == 'Compilation completed.':
        return 'completed'
    if s == '' and flags.get('outfile'):
        return 'nothing'
    return 'program'


def _job(args):
    kind, text, flags = args
    rt.enable_lark_cache()
    # the command line reads its file in text mode: \r\n and \r arrive as \n (universal newlines); the API is given what main() sees
    text = text.replace('\r\n', '\n').replace('\r', '\n')
    try:
        with rt.time_limit(TIME_LIMIT):
            out = api_outcome(text, flags)
    except rt.NonTermination as e:
        out = {'outcome': 'nontermination', 'msg': str(e)}
    if out['outcome'] == 'nontermination':
        return (kind, text, flags, out, {'uncaught': None, 'stdout': '', 'file': False, 'file_content': None, 'nontermination': True})
    try:
        with rt.time_limit(TIME_LIMIT):
            obs = run_main(text, flags)
    except rt.NonTermination:
        obs = {'uncaught': None, 'stdout': '', 'file': False, 'file_content': None, 'nontermination': True}
    return (kind, text, flags, out, obs)


TIME_LIMIT = int(os.environ.get('VERIF_TIME_LIMIT', '120'))     # seconds for one call of the real code on a text of at most ~1.5 kB (a compilation takes about 1 s)


def _classify_job(text):
    rt.enable_lark_cache()
    text = text.replace('\r\n', '\n').replace('\r', '\n')
    try:
        with rt.time_limit(TIME_LIMIT):
            return api_outcome(text, {})['outcome']
    except rt.NonTermination:
        return 'nontermination'


def unit_cases(rng, n):
    cases = []
    alphabet = 'ab%. '
    # exhaustive over short lines on a 5-letter alphabet, every index
    for L in range(1, 5):
        def rec(prefix):
            if len(prefix) == L:
                for i in range(L):
                    cases.append((prefix, i))
                return
            for ch in alphabet:
                rec(prefix + ch)
        rec('')
    for _ in range(n):
        L = rng.randrange(1, 40)
        s = ''.join(rng.choice('abcxyz  %.,') for _ in range(L))
        cases.append((s, rng.randrange(L)))
    return cases


def main(tier):
    run = common.Run(PROP, tier)
    rng = random.Random(run.seed)
    run.coverage['rule'] = ('unit: (line, index) pairs through the real get_uncrecognized_word and full ParserError messages vs the model '
                            '(all lines of length <= 4 over a 5-letter alphabet exhaustively + random); e2e: damaged corpus texts x flag sets '
                            'through the real main(); non-trivial = distinct (damage kind, outcome class, flag set) / distinct unit input')
    run.lean(MODULES, THEOREMS, extra_modules=['Cnl2aspModel.Compiler.Cli'])
    from cnl2asp.exception.cnl2asp_exceptions import ParserError
    # ---- unit: word extraction -------------------------------------------------
    ucases = unit_cases(rng, 2000 if tier == 'quick' else 20000)
    reqs = [('c18.word', {'s': s, 'i': i}) for s, i in ucases]
    n_unit = len(reqs)
    # ---- e2e ------------------------------------------------------------------
    n_texts = 130 if tier == 'quick' else 1500
    texts = damaged_texts(rng, n_texts)
    # phase 1: outcome class of plain compilation, so that flag sets can be spread evenly over the classes
    pre = rt.pmap(_classify_job, [t for _, t in texts], chunksize=4)
    counters = {}
    jobs = []
    for (kind, t), cls in zip(texts, pre):
        k = counters.get(cls, 0)
        counters[cls] = k + 1
        jobs.append((kind, t, FLAGSETS[k % len(FLAGSETS)]))
        if k % 2 == 0:
            jobs.append((kind, t, FLAGSETS[(k // 2 + 1) % len(FLAGSETS)]))
    results = rt.pmap(_job, jobs, chunksize=2)
    # model requests for the e2e cases
    nonterm = [r for r in results if r[4].get('nontermination')]
    results = [r for r in results if not r[4].get('nontermination')]
    for (kind, text, flags, out, obs) in nonterm:
        fkey = '+'.join(sorted(k for k, v in flags.items() if v)) or 'plain'
        run.count(f'{kind}/nontermination/{fkey}')
        run.violation(f'e2e/nontermination/{kind}', f'the command line did not terminate within {TIME_LIMIT} s on a {len(text)}-character input',
                      {'text': text, 'flags': flags})
    for (kind, text, flags, out, obs) in results:
        reqs.append(('c18.cli', dict(flags, outcome=out['outcome'], nonempty=out.get('nonempty', False))))
    msg_cases = []
    for (kind, text, flags, out, obs) in results:
        if out['outcome'] == 'UnexpectedCharacters':
            from lark import UnexpectedCharacters
            lines = text.splitlines()
            if 1 <= out['line'] <= len(lines):
                msg_cases.append((text, out, obs))
    try:
        answers = common.run_model(reqs)
    except RuntimeError as e:
        run.broke('corr', 'model driver', e)
        return run.finish()
    # compare unit
    for (s, i), ans in zip(ucases, answers[:n_unit]):
        run.count(('word', s, i))
        try:
            real = {'ok': ParserError.get_uncrecognized_word(None, s, i)}
        except Exception as e:  # noqa
            real = {'err': type(e).__name__}
            run.violation(f'unit/word/{type(e).__name__}', f'get_uncrecognized_word({s!r}, {i}) raised {type(e).__name__}',
                          {'line': s, 'index': i, 'observed': real})
        if real != ans:
            run.broke('corr', 'unrecognizedWord vs get_uncrecognized_word', {'input': [s, i], 'real': real, 'model': ans})
            break
    # compare e2e
    dist = {}
    for (kind, text, flags, out, obs), ans in zip(results, answers[n_unit:]):
        fkey = '+'.join(sorted(k for k, v in flags.items() if v)) or 'plain'
        dkey = f'{kind}/{out["outcome"]}/{fkey}'
        dist[dkey] = dist.get(dkey, 0) + 1
        run.count(dkey)
        replay = {'text': text, 'flags': flags, 'api_outcome': {k: v for k, v in out.items() if k != 'out'},
                  'observed': {'uncaught': obs['uncaught'], 'stdout': obs['stdout'][:400], 'file': obs['file']}}
        # property, judged directly on the real code
        if obs['uncaught']:
            run.violation(f'e2e/uncaught/{fkey}/{out["outcome"]}/{obs["uncaught"].split(":")[0]}',
                          f'main() ended with an uncaught exception: {obs["uncaught"]}', replay)
        if out['outcome'] != 'ok' and obs['file']:
            run.violation(f'e2e/file-on-error/{fkey}', 'an output file was written although an error was reported', replay)
        if out['outcome'] == 'ok' and flags.get('outfile') and not (flags.get('c') or flags.get('json') or flags.get('symbols')):
            if not obs['file'] or rt.norm_uuid(obs['file_content'] or '') != rt.norm_uuid(out.get('out', '')):
                run.violation(f'e2e/partial-file/{fkey}', 'output file missing or different from the compiled program', replay)
        observed = {'uncaught': bool(obs['uncaught']),
                    'printed': 'Cnl2aspModel.Cli.Printed.' + classify(obs['stdout'], flags, out), 'file': obs['file']}
        if not obs['uncaught'] and observed != ans:
            run.broke('corr', 'cli(flags, outcome) vs main()', {'model': ans, 'observed': observed, 'replay': replay})
    # parser diagnostics: position and full message
    mreqs = []
    for text, out, obs in msg_cases:
        lines = text.splitlines()
        so = obs['stdout']
        m = re.match(r'Parser error at line (\d+), col (\d+)\. Unexpected char "(.*?)":\n', so, flags=re.S)
        if not m:
            continue
        if (int(m.group(1)), int(m.group(2))) != (out['line'], out['col']):
            run.violation('e2e/position', f'diagnostic cites {m.group(1)}:{m.group(2)} but the parser stopped at '
                                          f'{out["line"]}:{out["col"]}', {'text': text, 'stdout': so[:300]})
        mreqs.append(('linecol', {'s': text, 'k': 0}))
    # main()'s whole parser diagnostic vs the model's message assembled from the exception's own fields
    def canon(msg):
        head, sep, rest = msg.partition('Expected one of:\n')
        bullets, sep2, tail = rest.partition('\n\n')
        return head + sep + '\n'.join(sorted(bullets.split('\n'))) + sep2 + tail
    full = []
    for text, out, obs in msg_cases:
        ctx = out['context']
        full.append((obs['stdout'], ('c18.msg', {'line': out['line'], 'col': out['col'], 'ch': out['char'], 'context': ctx,
                                                 'linetext': text.splitlines()[out['line'] - 1], 'allowed': out['allowed']})))
    if full:
        ans3 = common.run_model([r for _, r in full])
        for (so, req), a in zip(full, ans3):
            run.count(('stdout', req[1]['linetext'], req[1]['col']))
            if canon(so) != canon(a.get('ok', '') + '\n'):
                run.broke('corr', "main()'s parser diagnostic vs parserMessage", {'req': req[1], 'stdout': so[:400], 'model': str(a)[:400]})
                break
    run.coverage['e2e_distribution'] = dict(sorted(dist.items(), key=lambda kv: -kv[1])[:40])
    run.coverage['e2e_runs'] = len(results)
    # full message correspondence through the real ParserError constructor
    from lark import Lark  # noqa
    mm = []
    for text, out, obs in msg_cases[:200]:
        lines = text.splitlines()
        line_text = lines[out['line'] - 1]
        ctx = 'CTX\n'
        allowed = out['allowed']
        try:
            real = str(ParserError(out['char'], out['line'], out['col'], ctx, line_text, allowed))
        except Exception as e:  # noqa
            run.violation(f'unit/ParserError/{type(e).__name__}', f'ParserError(...) raised {type(e).__name__}',
                          {'text': text, 'line': line_text, 'col': out['col']})
            continue
        mm.append((real, ('c18.msg', {'line': out['line'], 'col': out['col'], 'ch': out['char'], 'context': ctx,
                                      'linetext': line_text, 'allowed': allowed})))
        # the character at the cited position is the unexpected character (lines as the grammar counts them: separated by \n only;
        # str.splitlines(), which main() uses to pick the line it echoes, also breaks at form feeds and other separators)
        nl_lines = text.split('\n')
        nl_line = nl_lines[out['line'] - 1] if 1 <= out['line'] <= len(nl_lines) else ''
        if out['col'] - 1 < len(nl_line) and nl_line[out['col'] - 1] != out['char']:
            run.violation('e2e/position-char', 'character at the cited (line, col) is not the reported one',
                          {'text': text, 'line': out['line'], 'col': out['col'], 'char': out['char']})
    if mm:
        ans2 = common.run_model([r for _, r in mm])
        for (real, req), a in zip(mm, ans2):
            run.count(('msg', req[1]['linetext'], req[1]['col']))
            if a.get('ok') != real:
                run.broke('corr', 'parserMessage vs str(ParserError(...))', {'req': req[1], 'real': real[:300], 'model': str(a)[:300]})
                break
    # a few runs through the console entry point in a subprocess
    nsub = 4 if tier == 'quick' else 40
    for kind, t in texts[:nsub]:
        with tempfile.TemporaryDirectory() as d:
            inp = os.path.join(d, 'in.cnl')
            open(inp, 'w').write(t)
            p = subprocess.run([common.PY, os.path.join(common.REPO, 'src', 'main.py'), inp], capture_output=True, text=True,
                               env=dict(os.environ, PYTHONPATH=os.path.join(common.REPO, 'src')))
            run.count(('subprocess', kind, t[:40]))
            if p.returncode != 0 or 'Traceback' in p.stderr:
                run.violation('subprocess/uncaught', f'python src/main.py exited {p.returncode}: {p.stderr[-300:]}', {'text': t})
    for (kind, text, flags, out, obs) in results[:4]:
        run.sample({'damage': kind, 'flags': flags, 'text': text[:200], 'outcome': out['outcome'], 'stdout': obs['stdout'][:120]})
    run.assumptions += [
        "Lark's contract that UnexpectedCharacters carries the (line, column) of the first character no terminal can match "
        "(cross-checked: the character at that position is the reported one)",
        'texts are valid UTF-8; missing input files and --optimize/--solve are outside the property',
    ]
    return run.finish()
