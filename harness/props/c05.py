"""C05 — temporal connectives mean what they say on every trace.

Lean: Props/C05.lean (C05_main: for every condition — any nesting — every finite trace and every state, the compiled
rule fires exactly when the reference reading of the CNL sentence is true; operator tables total; dualities).
Tie: T-gen (TELINGO_DUAL_OPERATOR / TELINGO_CONSTANT / symbol tables, regenerated) + T-corr end-to-end: generated
conditions (single-level grid exhaustively, random nesting up to depth 4) are compiled by the real compiler; the text
inside `&tel{…}` is read by clingo's theory-term parser with telingo's own operator table and must be the model's
tree; acceptance / rejection must agree.
Search: the real telingo on ALL traces of length 1..3 (4 in thorough) over two atoms for every grid shape and the
random nested ones: the state-wise truth of the rule head vs the reference reading (evaluated by the Lean model).
This also validates Tel.eval (the model of telingo, trusted base).
"""
from __future__ import annotations

import itertools
import random
import re

from .. import common, rt, tel

PROP = 'C05'
MODULES = ['Cnl2aspModel.Props.C05']
THEOREMS = ['C05_main', 'C05_dual_table', 'C05_constant_table', 'C05_combinations_total', 'C05_duality']

DECL = ('An alpha is identified by an id.\nA beta is identified by an id.\nA fired is identified by an id.\n'
        'The following propositions always apply:\n')
NAMES = {'alpha(1)': 'a', 'beta(1)': 'b'}
LEADS = ['always', 'eventually', 'before', 'since before', 'after', 'since after']
CONSTS = ['it is the initial state', 'it is the final state', 'the true constant', 'the false constant']
ENT = {0: 'an alpha with id 1', 1: 'a beta with id 1'}


def r_leaf(l):
    if 'const' in l:
        return l['const']
    pfx = l.get('pfx')
    return (pfx + ' ' if pfx else '') + ENT[l['ent']]


def r_operand(o):
    if 'leaf' in o:
        return r_leaf(o['leaf'])
    return f'{r_leaf(o["l"])} {o["d"]} {r_operand(o["r"])}'


def r_core(c, prefixed=False):
    neg = ' not' if c['neg'] else ''
    hold = ''
    if c.get('hold'):
        hn, hop = c['hold']
        hold = f' that {"does not " if hn else ""}{hop} holds' if not c.get('hold_after') else f' that {"does not " if hn else ""}holds {hop}'
    if c.get('lead') and prefixed:
        return f'{c["lead"]} there is{neg} {r_operand(c["operand"])}{hold}'
    lead = f' {c["lead"]}' if c.get('lead') else ''
    return f'there is{neg}{lead} {r_operand(c["operand"])}{hold}'


def r_top(t, prefixed=False):
    s = r_core(t['core'], prefixed)
    if t.get('rest'):
        s += f' {t["d"]} {r_top(t["rest"])}'
    return s


def sentence(t, prefixed=False):
    return f'Whenever {r_top(t, prefixed)}, then we must have a fired with id 1.'


def strip(t):
    """the JSON sent to the model (rendering hints removed)"""
    c = {k: v for k, v in t['core'].items() if k != 'hold_after'}
    out = {'core': c}
    if t.get('rest'):
        out['d'] = t['d']
        out['rest'] = strip(t['rest'])
    return out


def leaf(e):
    return {'leaf': {'ent': e}}


def grid(tables):
    """single-level shapes: leading x hold x negations x dual operators (the property's syntactic space)"""
    duals = tables['terminals']['TELINGO_DUAL_OPERATOR']
    out = []
    for lead in [None] + LEADS:
        for hold in [None] + [(hn, h) for h in LEADS for hn in (False, True)]:
            for neg in (False, True):
                core = {'neg': neg, 'lead': lead, 'operand': leaf(0), 'hold': list(hold) if hold else None}
                out.append({'core': core})
    for d in duals:
        out.append({'core': {'neg': False, 'lead': None, 'operand': {'l': {'ent': 0}, 'd': d, 'r': leaf(1)}, 'hold': None}})
        out.append({'core': {'neg': True, 'lead': None, 'operand': {'l': {'ent': 0}, 'd': d, 'r': leaf(1)}, 'hold': None}})
        out.append({'core': {'neg': False, 'lead': 'before', 'operand': leaf(0), 'hold': None}, 'd': d,
                    'rest': {'core': {'neg': False, 'lead': None, 'operand': leaf(1), 'hold': None}}})
        out.append({'core': {'neg': False, 'lead': 'after', 'operand': leaf(0), 'hold': [False, 'eventually']}, 'd': d,
                    'rest': {'core': {'neg': False, 'lead': 'before', 'operand': leaf(1), 'hold': [False, 'always']}}})
    # a unary operator (leading or holding) over a COMPOUND operand, nested inside an enclosing connective: the parentheses matter
    for lead in LEADS:
        for d_in, d_out in (('or', 'and'), ('and', 'or'), ('or', 'or')):
            out.append({'core': {'neg': False, 'lead': None, 'operand': leaf(1), 'hold': None}, 'd': d_out,
                        'rest': {'core': {'neg': False, 'lead': lead, 'operand': {'l': {'ent': 0}, 'd': d_in, 'r': leaf(1)}, 'hold': None}}})
            out.append({'core': {'neg': False, 'lead': lead, 'operand': {'l': {'ent': 0}, 'd': d_in, 'r': leaf(1)}, 'hold': None}, 'd': d_out,
                        'rest': {'core': {'neg': False, 'lead': None, 'operand': leaf(0), 'hold': None}}})
            out.append({'core': {'neg': False, 'lead': None, 'operand': leaf(1), 'hold': None}, 'd': d_out,
                        'rest': {'core': {'neg': False, 'lead': None, 'operand': {'l': {'ent': 0}, 'd': d_in, 'r': leaf(1)},
                                          'hold': [False, lead]}}})
    for c in CONSTS:
        out.append({'core': {'neg': False, 'lead': None, 'operand': {'l': {'ent': 0}, 'd': 'and', 'r': {'leaf': {'const': c}}}, 'hold': None}})
        out.append({'core': {'neg': False, 'lead': None, 'operand': {'l': {'const': c}, 'd': 'or', 'r': leaf(1)}, 'hold': None}})
    for pfx in ('previously', 'subsequently', 'initially', 'finally'):
        # outside any formula: a plain prefixed entity
        for neg in (False, True):
            out.append({'core': {'neg': neg, 'lead': None, 'operand': {'leaf': {'ent': 0, 'pfx': pfx}}, 'hold': None}, 'pfxpos': 'outside'})
        # the prefixed entity at the start of a top-level operand …
        for lead in ('before', 'after'):
            out.append({'core': {'neg': False, 'lead': lead, 'operand': {'leaf': {'ent': 0, 'pfx': pfx}}, 'hold': None}, 'pfxpos': 'start'})
        out.append({'core': {'neg': False, 'lead': None, 'operand': {'l': {'ent': 0, 'pfx': pfx}, 'd': 'and', 'r': leaf(1)}, 'hold': None}, 'pfxpos': 'start'})
        out.append({'core': {'neg': False, 'lead': None, 'operand': {'l': {'ent': 0}, 'd': 'or', 'r': {'leaf': {'ent': 1, 'pfx': pfx}}}, 'hold': None}, 'pfxpos': 'start'})
        # … and deeper inside the formula
        out.append({'core': {'neg': False, 'lead': 'before', 'operand': leaf(0), 'hold': None}, 'd': 'and',
                    'rest': {'core': {'neg': False, 'lead': 'after', 'operand': {'leaf': {'ent': 1, 'pfx': pfx}}, 'hold': None}}, 'pfxpos': 'inner'})
    return out


def rand_top(rng, duals, depth):
    def operand(d):
        l = {'ent': rng.randrange(2)} if rng.random() < 0.85 else {'const': rng.choice(CONSTS)}
        if d > 0 and rng.random() < 0.5:
            return {'l': l, 'd': rng.choice(duals), 'r': operand(d - 1)}
        return {'leaf': l}

    def core():
        lead = rng.choice([None, None] + LEADS)
        hold = None
        if rng.random() < 0.5:
            hold = [rng.random() < 0.15, rng.choice(LEADS)]
        return {'neg': rng.random() < 0.15, 'lead': lead, 'operand': operand(rng.randrange(0, 3)), 'hold': hold,
                'hold_after': rng.random() < 0.3}
    t = {'core': core()}
    cur = t
    for _ in range(rng.randrange(0, depth)):
        cur['d'] = rng.choice(duals)
        cur['rest'] = {'core': core()}
        cur = cur['rest']
    return t


def _compile_job(args):
    t, prefixed = args
    s = sentence(t, prefixed)
    r = rt.compile_cnl(DECL + s)
    out = {'sentence': s}
    if r[0] != 'ok':
        out['err'] = r[1]
        return out
    rule = [l for l in r[1].split('\n') if l.startswith('fired(1)')]
    out['rule'] = rule[0] if rule else r[1]
    if not rule:
        out['shape'] = 'no-rule'
        return out
    m = re.fullmatch(r'fired\(1\) :- (not )?(not not )?&tel \{(.*)\}\.', rule[0])
    if not m:
        m2 = re.fullmatch(r'fired\(1\) :- (not )?((?:alpha|beta)\(1\))\.', rule[0])
        if m2:   # a condition without any temporal operator is an ordinary body literal: same reading
            out.update(shape='tel', text=m2.group(2), tree=NAMES[m2.group(2)])
            out['not'] = bool(m2.group(1))
            return out
        m3 = re.fullmatch(r'fired\(1\) :- (not )?(&(?:true|false|initial|final))\.', rule[0])
        if m3:   # a condition that is one constant is printed as telingo's theory atom itself: same reading as &tel {&c}
            out.update(shape='tel', text=m3.group(2))
            out['not'] = bool(m3.group(1))
            try:
                out['tree'] = tel.read_formula(m3.group(2), NAMES)
            except RuntimeError as e:
                out['telingo_parse_error'] = str(e)[:200]
            return out
        out['shape'] = 'other'          # e.g. a primed atom body: `fired(1) :- 'alpha(1).`
        return out
    out['shape'] = 'tel'
    out['not'] = bool(m.group(1))
    out['text'] = m.group(3)
    try:
        out['tree'] = tel.read_formula(m.group(3), NAMES)
    except RuntimeError as e:
        out['telingo_parse_error'] = str(e)[:200]
    return out


def _telingo_job(args):
    rule, horizons = args
    res = {}
    for h in horizons:
        prog = ('#program always.\n{alpha(1)}. {beta(1)}.\n' + rule + '\n#show alpha/1. #show beta/1. #show fired/1.\n')
        r = tel.run_telingo(prog, h)
        if r[0] != 'ok':
            return {'err': r[1]}
        table = {}
        for model in r[1]:
            key = tuple((('alpha(1)' in st), ('beta(1)' in st)) for st in model)
            fired = [('fired(1)' in st) for st in model]
            if key in table and table[key] != fired:
                return {'err': f'two models for one trace disagree on fired: {key}'}
            table[key] = fired
        if len(table) != 4 ** h:
            return {'err': f'{len(table)} traces of length {h} instead of {4 ** h}'}
        res[h] = table
    return {'ok': res}


def _multi_job(args):
    text, horizons = args
    r = rt.compile_cnl(DECL + text)
    if r[0] != 'ok':
        return {'rejected': str(r[1])[:200]}
    rule = [l for l in r[1].split('\n') if l.startswith('fired(1)')]
    if len(rule) != 1:
        return {'program': r[1], 'err': 'no single fired rule'}
    t = _telingo_job((rule[0], horizons))
    t['rule'] = rule[0]
    return t


def multi_clause(run, rng, tier, horizons):
    """one rule with SEVERAL whenever clauses over plain / previously / initially occurrences (also of the same entity): the rule
    fires exactly where every clause holds (previously = in the state before, initially = in the first state)"""
    ents = ['alpha', 'beta']
    forms = []
    opts = [(e, p, n) for e in (0, 1) for p in ('', 'previously', 'initially') for n in (False, True)]
    for a in opts:
        for b in opts:
            if a < b and (a[1] or b[1]):
                forms.append([a, b])
    rng2 = random.Random(rng.random())
    rng2.shuffle(forms)
    forms = forms[:24] if tier == 'quick' else forms
    forms.append([(0, '', False), (0, 'previously', False), (0, 'initially', False)])
    def clause(e, p, n):
        art = 'an' if ents[e][0] in 'aeiou' else 'a'
        return f'whenever there is {"not " if n else ""}{p + " " if p else ""}{art} {ents[e]} with id 1'
    jobs = []
    for f in forms:
        text = ', '.join(clause(*c) for c in f)
        text = text[0].upper() + text[1:] + ', then we must have a fired with id 1.'
        jobs.append((text, horizons))
    results = rt.pmap(_multi_job, jobs, chunksize=1)
    for f, (text, _), r in zip(forms, jobs, results):
        key = '+'.join(sorted((('not-' if n else '') + (p or 'plain')) for _, p, n in f)) + ('/same-entity' if len({e for e, _, _ in f}) == 1 else '')
        run.count(('multi-clause', text))
        replay = {'cnl': DECL + text, 'rule': r.get('rule')}
        if 'rejected' in r:
            run.violation(f'rejected/multi-clause/{key}', f'rejected: {r["rejected"][:150]}', replay)
            continue
        if 'err' in r:
            run.violation(f'telingo-error/multi-clause/{key}', f'telingo failed on {r.get("rule")!r}: {str(r["err"])[:200]}', replay)
            continue
        bad = None
        for h, table in r['ok'].items():
            for tr, fired in table.items():
                run.coverage['evaluations'] += 1
                def holds(i, e, p, n):
                    v = tr[i][e] if not p else (i > 0 and tr[i - 1][e]) if p == 'previously' else tr[0][e]
                    return v != n
                expect = [all(holds(i, *c) for c in f) for i in range(len(tr))]
                if expect != fired:
                    bad = (tr, fired, expect)
                    break
            if bad:
                break
        if bad:
            tr, fired, expect = bad
            run.violation(f'meaning/multi-clause/{key}', f'on trace {[list(x) for x in tr]} the rule {r["rule"]!r} fires at '
                          f'{[i for i, x in enumerate(fired) if x]} but all clauses hold at {[i for i, x in enumerate(expect) if x]}',
                          dict(replay, trace=[list(x) for x in tr], telingo_fired=fired, reference=expect))


def _polarity_job(args):
    cond_text, horizons = args
    out = {}
    for pol in ('prohibited', 'required'):
        text = f'It is {pol} that {cond_text}.'
        r = rt.compile_cnl(DECL + text)
        if r[0] != 'ok':
            out[pol] = {'rejected': str(r[1])[:200], 'cnl': text}
            continue
        rules = [l for l in r[1].split('\n') if l.startswith(':-')]
        if len(rules) != 1:
            out[pol] = {'err': 'no single constraint', 'program': r[1], 'cnl': text}
            continue
        adm = {}
        err = None
        for h in horizons:
            prog = '#program always.\n{alpha(1)}. {beta(1)}.\n' + rules[0] + '\n#show alpha/1. #show beta/1.\n'
            t = tel.run_telingo(prog, h)
            if t[0] != 'ok':
                err = t[1]
                break
            adm[h] = sorted({tuple((('alpha(1)' in st), ('beta(1)' in st)) for st in model) for model in t[1]})
        out[pol] = {'rule': rules[0], 'cnl': text, 'admitted': adm} if err is None else {'rule': rules[0], 'cnl': text, 'err': err}
    return out


def polarity(run, rng, tier, conds, comp, tres, horizons):
    """the same conditions under `It is prohibited that …` / `It is required that …`: the constraint admits exactly the traces on
    which the condition holds at no state / at every state — judged against where the `Whenever …` rule of the same condition fires
    (itself judged against the reference reading above)"""
    picks = []
    for ci, ((t, p, kind), c) in enumerate(zip(conds, comp)):
        tr_ = tres.get(ci)
        if kind != 'grid' or p or all_pfx(t) or tr_ is None or 'ok' not in tr_ or t.get('rest'):
            continue
        picks.append(ci)
    rng2 = random.Random(rng.random())
    rng2.shuffle(picks)
    picks = sorted(picks[: (36 if tier == 'quick' else 400)])
    hz = [h for h in horizons if h <= 2]
    results = rt.pmap(_polarity_job, [(r_top(conds[ci][0]), hz) for ci in picks], chunksize=1)
    n = 0
    for ci, res in zip(picks, results):
        fired_tab = tres[ci]['ok']
        key_shape = shape_key(conds[ci][0])
        for pol, r in res.items():
            run.count(('polarity', pol, r.get('cnl')))
            replay = {'cnl': DECL + r.get('cnl', ''), 'rule': r.get('rule')}
            if 'rejected' in r:
                run.violation(f'reject/{pol}/{key_shape}', f'the condition is accepted after Whenever but rejected after "It is {pol} that": {r["rejected"][:150]}', replay)
                continue
            if 'err' in r:
                run.violation(f'telingo-error/{pol}/{key_shape}', f'telingo failed on {r.get("rule")!r}: {str(r["err"])[:200]}', replay)
                continue
            n += 1
            for h in hz:
                table = fired_tab[h] if h in fired_tab else fired_tab[str(h)]
                want = sorted(tr for tr, fired in table.items() if (not any(fired) if pol == 'prohibited' else all(fired)))
                got = [tuple(tuple(st) for st in tr) for tr in r['admitted'][h]]
                run.coverage['evaluations'] += len(table)
                if got != want:
                    odd = sorted(set(got) ^ set(want))[0]
                    run.violation(f'meaning/{pol}/{key_shape}',
                                  f'{r["cnl"]!r} compiles to {r["rule"]!r}, which {"admits" if odd in got else "rejects"} the trace '
                                  f'{[list(x) for x in odd]} although the condition holds at states '
                                  f'{[i for i, x in enumerate(table[odd]) if x]}', dict(replay, trace=[list(x) for x in odd]))
                    break
    run.coverage['polarity_constraints_run'] = n


def _copied_job(args):
    text, horizons = args
    r = rt.compile_cnl(DECL + text)
    if r[0] != 'ok':
        return {'rejected': str(r[1])[:200]}
    rules = [l for l in r[1].split('\n') if l.startswith('fired(')]
    if not rules:
        return {'program': r[1], 'err': 'no fired rule'}
    res = {}
    for h in horizons:
        prog = '#program always.\n{alpha(1)}. {beta(1)}.\n' + '\n'.join(rules) + '\n#show alpha/1. #show beta/1. #show fired/1.\n'
        t = tel.run_telingo(prog, h)
        if t[0] != 'ok':
            return {'err': t[1], 'rules': rules}
        table = {}
        for model in t[1]:
            key = tuple((('alpha(1)' in st), ('beta(1)' in st)) for st in model)
            table[key] = [('fired(1)' in st) for st in model]
        res[h] = table
    return {'ok': res, 'rules': rules}


def copied_clauses(run, rng, tier, horizons):
    """a prefixed occurrence in a sentence whose proposition is COPIED (one rule per listed value / a range): every derived rule
    keeps the prefix — `previously` = in the state before, `initially` = in the first state"""
    jobs, forms = [], []
    for pfx in ('previously', 'initially'):
        for neg in (False, True):
            for wh in ('where X is one of 1, 2', 'where X is one of 2, 1', 'where X ranges from 1 to 2'):
                for e, art in ((0, 'an alpha'), (1, 'a beta')):
                    text = (f'Whenever there is {"not " if neg else ""}{pfx} {art} with id X, then we must have a fired with id X, {wh}.')
                    forms.append((pfx, neg, wh, e))
                    jobs.append((text, [h for h in horizons if h <= 3]))
    results = rt.pmap(_copied_job, jobs, chunksize=1)
    for (pfx, neg, wh, e), (text, _), r in zip(forms, jobs, results):
        key = f'{"not-" if neg else ""}{pfx}/{"range" if "ranges" in wh else "one-of"}'
        run.count(('copied-clause', text))
        replay = {'cnl': DECL + text, 'rules': r.get('rules')}
        if 'rejected' in r:
            run.violation(f'rejected/copied-clause/{key}', f'rejected: {r["rejected"][:150]}', replay)
            continue
        if 'err' in r:
            run.violation(f'telingo-error/copied-clause/{key}', f'telingo failed on {r.get("rules")!r}: {str(r["err"])[:200]}', replay)
            continue
        bad = None
        for h, table in r['ok'].items():
            for tr, fired in table.items():
                run.coverage['evaluations'] += 1
                expect = [(((i > 0 and tr[i - 1][e]) if pfx == 'previously' else tr[0][e]) != neg) for i in range(len(tr))]
                if expect != fired:
                    bad = (tr, fired, expect)
                    break
            if bad:
                break
        if bad:
            tr, fired, expect = bad
            run.violation(f'meaning/copied-clause/{key}', f'on trace {[list(x) for x in tr]} the rules {r["rules"]!r} derive fired(1) at '
                          f'{[i for i, x in enumerate(fired) if x]} but the clause holds at {[i for i, x in enumerate(expect) if x]}',
                          dict(replay, trace=[list(x) for x in tr]))


def main(tier):
    run = common.Run(PROP, tier)
    rng = random.Random(run.seed)
    run.coverage['rule'] = ('conditions: the exhaustive single-level grid (7 leading x 13 hold x 2 negation shapes, every dual operator in operand and '
                            'tail position, constants, entity prefixes) + random conditions nested up to depth 4; each compiled by the real compiler, '
                            'its &tel text read by clingo with telingo\'s operator table, and run through the real telingo on ALL traces of length 1..3 '
                            '(1..4 thorough) over two atoms; non-trivial = distinct condition accepted by the compiler')
    ok, tables, msg = common.run_tgen()
    if not ok:
        run.broke('tgen', 'extract_tables.py', msg)
        return run.finish()
    run.lean(MODULES, THEOREMS, extra_modules=['Cnl2aspModel.Compiler.Temporal'])
    duals = tables['terminals']['TELINGO_DUAL_OPERATOR']
    conds = [(t, False, 'grid') for t in grid(tables)]
    conds += [(t, True, 'grid-prefixed') for t in grid(tables) if t['core'].get('lead') and not t['core'].get('hold')][:12]
    n_rand = 60 if tier == 'quick' else 600
    for _ in range(n_rand):
        conds.append((rand_top(rng, duals, 4), False, 'random'))
    comp = rt.pmap(_compile_job, [(t, p) for t, p, _ in conds], chunksize=4)
    horizons = [1, 2, 3] if tier == 'quick' else [1, 2, 3, 4]
    # the model on every trace
    traces = {h: [list(tr) for tr in itertools.product([(False, False), (True, False), (False, True), (True, True)], repeat=h)] for h in horizons}

    def tr_json(tr):
        return [[i for i, v in enumerate(st) if v] for st in tr]
    reqs = []
    index = []
    for ci, (t, p, kind) in enumerate(conds):
        for h in horizons:
            for tr in traces[h]:
                reqs.append(('c05.run', {'top': strip(t), 'trace': tr_json(tr)}))
                index.append((ci, h, tuple(tr)))
    answers = common.run_model(reqs)
    model = {}
    for (ci, h, tr), a in zip(index, answers):
        model.setdefault(ci, {})[(h, tr)] = a
    # telingo on the accepted ones
    tjobs = []
    for ci, c in enumerate(comp):
        if c.get('shape') in ('tel', 'other') and 'telingo_parse_error' not in c:
            tjobs.append((ci, c['rule']))
    tres = dict(zip([ci for ci, _ in tjobs], rt.pmap(_telingo_job, [(rule, horizons) for _, rule in tjobs], chunksize=2)))
    stats = {'accepted': 0, 'rejected': 0, 'supported': 0, 'unsupported': 0, 'telingo_runs': 0}
    for ci, ((t, p, kind), c) in enumerate(zip(conds, comp)):
        any_ans = next(iter(model[ci].values()))
        mcomp = any_ans['compiled']
        supported = any_ans['holds'] is not None
        stats['supported' if supported else 'unsupported'] += 1
        replay = {'cnl': DECL + c['sentence'], 'condition': strip(t), 'real_rule': c.get('rule'), 'model_tree': mcomp and mcomp['tree']}
        key_shape = shape_key(t)
        if 'err' in c:
            stats['rejected'] += 1
            if mcomp is not None and supported:
                run.violation(f'reject/{key_shape}', f'a supported condition is rejected by the compiler: {str(c["err"])[:200]}', replay)
            elif mcomp is not None:
                run.broke('corr', 'the model compiles a condition the real compiler rejects', replay)
            continue
        stats['accepted'] += 1
        run.count(c['sentence'])
        if c.get('shape') != 'tel':
            if mcomp is not None and supported:
                run.broke('corr', 'real output is not a single &tel literal but the model has a formula', replay)
            elif supported and c.get('shape') == 'other' and tres.get(ci) is not None:
                # a prefixed entity OUTSIDE a formula (primed / underscored body atom): telingo's own reading vs the natural one
                tr_ = tres[ci]
                if 'err' in tr_:
                    run.violation(f'telingo-error/outside/{key_shape}', f'telingo aborts on {c["rule"]!r}: {tr_["err"][:150]}', replay)
                else:
                    stats['telingo_runs'] += 1
                    for h, tr in ((h, tr) for h in horizons for tr in traces[h]):
                        fired = tr_['ok'][h][tuple(tr)]
                        a = model[ci][(h, tuple(tr))]
                        run.coverage['evaluations'] += 1
                        if a['holds'] != fired:
                            run.violation(f'meaning/outside/{key_shape}',
                                          f'on trace {tr_json(tr)} the rule {c["rule"]!r} fires at {[i for i, f in enumerate(fired) if f]} but the '
                                          f'condition holds at {[i for i, f in enumerate(a["holds"]) if f]}', dict(replay, trace=tr_json(tr)))
                            break
            continue
        if 'telingo_parse_error' in c:
            if re.search(r'&tel \{.*\bnot\b', c.get('rule') or ''):
                # a negated clause that is not the first operand: `not` is printed inside &tel{…}, where negation is `~`
                run.violation('telingo-rejects/nested-not-inside-formula',
                              f'telingo cannot read the emitted formula: {c["telingo_parse_error"]}', replay)
            elif supported:
                run.violation(f'telingo-rejects/{key_shape}', f'telingo cannot read the emitted formula: {c["telingo_parse_error"]}', replay)
            else:
                run.violation(f'unsupported/telingo-rejects/{key_shape}', f'telingo cannot read the emitted formula: {c["telingo_parse_error"]}', replay)
            continue
        # tree correspondence
        has_pfx = bool(all_pfx(t))
        if mcomp is None and has_pfx:
            # an entity prefix inside a formula is outside the model: the only claim is that telingo accepts the rule
            tr_ = tres.get(ci)
            if tr_ is not None and 'err' in tr_:
                run.violation(f'telingo-error/{key_shape}', f'telingo aborts on the compiled rule {c["rule"]!r}', replay)
            elif tr_ is not None and supported:
                # telingo accepts the rule: it must fire where the natural reading of the prefix says
                stats['telingo_runs'] += 1
                done = False
                for h in horizons:
                    for tr in traces[h]:
                        fired = tr_['ok'][h][tuple(tr)]
                        a = model[ci][(h, tuple(tr))]
                        run.coverage['evaluations'] += 1
                        if a['holds'] != fired:
                            run.violation(f'meaning/{key_shape}',
                                          f'on trace {tr_json(tr)} the rule {c["rule"]!r} fires at {[i for i, f in enumerate(fired) if f]} but the '
                                          f'condition holds at {[i for i, f in enumerate(a["holds"]) if f]}',
                                          dict(replay, trace=tr_json(tr), telingo_fired=fired, reference_holds=a['holds']))
                            done = True
                            break
                    if done:
                        break
            continue
        if mcomp is None:
            run.broke('corr', 'the real compiler accepts a condition the model rejects', replay)
        elif (mcomp['tree'], mcomp['not']) != (c['tree'], c['not']):
            run.broke('corr', 'compileT tree vs the tree telingo reads from the real output',
                      dict(replay, real_tree=c['tree'], real_not=c['not'], model_not=mcomp['not']))
        # semantics on the real telingo
        tr_ = tres.get(ci)
        if tr_ is None:
            continue
        if 'err' in tr_:
            run.violation(f'telingo-error/{key_shape}', f'telingo failed on the compiled rule: {tr_["err"][:200]}', replay)
            continue
        stats['telingo_runs'] += 1
        for h in horizons:
            for tr in traces[h]:
                fired = tr_['ok'][h][tuple(tr)]
                run.coverage['evaluations'] += 1
                a = model[ci][(h, tuple(tr))]
                # (1) validation of Tel.eval against telingo (trusted base)
                if a['compiled'] is not None and (a['compiled']['tree'], a['compiled']['not']) == (c['tree'], c['not']) \
                        and a['compiled']['fires'] != fired:
                    run.broke('corr', 'Tel.eval vs the real telingo (model of telingo is wrong)',
                              dict(replay, trace=tr_json(tr), telingo=fired, model=a['compiled']['fires']))
                    break
                # (2) the property on the real code
                if a['holds'] is not None and a['holds'] != fired:
                    bad = [i for i, (x, y) in enumerate(zip(a['holds'], fired)) if x != y]
                    run.violation(f'meaning/{key_shape}',
                                  f'on trace {tr_json(tr)} the rule fires at states {[i for i, f in enumerate(fired) if f]} but the condition '
                                  f'holds at {[i for i, f in enumerate(a["holds"]) if f]} (differs at {bad})',
                                  dict(replay, trace=tr_json(tr), telingo_fired=fired, reference_holds=a['holds']))
                    break
            else:
                continue
            break
    multi_clause(run, rng, tier, horizons)
    polarity(run, rng, tier, conds, comp, tres, horizons)
    copied_clauses(run, rng, tier, horizons)
    run.coverage['conditions'] = stats
    run.coverage['exhaustive'] = True
    for (t, p, kind), c in list(zip(conds, comp))[:3] + list(zip(conds, comp))[-2:]:
        run.sample({'cnl': c['sentence'], 'rule': c.get('rule', str(c.get('err'))[:100])})
    run.assumptions += ['Tel.eval is a model of telingo 2.1.3 (finite traces; `not not &tel` and constraints read classically): validated on every '
                        'run against the real telingo on all traces up to the bound',
                        'the reference reading of each phrase is the one listed in Compiler/Temporal.lean; conditions outside it (e.g. '
                        '"that does not always hold", a hold condition without leading operator) are exercised for syntax only']
    return run.finish()


def all_pfx(t):
    out = []

    def op(o):
        if 'leaf' in o:
            if o['leaf'].get('pfx'):
                out.append(o['leaf']['pfx'])
        else:
            if o['l'].get('pfx'):
                out.append(o['l']['pfx'])
            op(o['r'])
    cur = t
    while cur:
        op(cur['core']['operand'])
        cur = cur.get('rest')
    return out


def shape_key(t):
    c = t['core']
    pf = all_pfx(t)
    if pf:
        return 'prefix:' + '+'.join(sorted(set(pf))) + '@' + t.get('pfxpos', 'random')

    def ok(o):
        if 'leaf' in o:
            return ('const' if 'const' in o['leaf'] else ('pfx:' + o['leaf']['pfx'] if o['leaf'].get('pfx') else 'ent'))
        return f'{ok({"leaf": o["l"]})} {o["d"]} …'
    return (f'{"not " if c["neg"] else ""}{c.get("lead") or "-"}/{ok(c["operand"])}/'
            f'{("not " if c["hold"][0] else "") + c["hold"][1] if c.get("hold") else "-"}/{t.get("d") or "-"}')
