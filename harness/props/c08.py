"""C08 — automatic joins connect only positions that denote the same attribute.

Lean: Props/C08.lean (is_same_origin relates only origin chains with the same innermost concept; a link step changes
only null positions with the linked attribute's name and a compatible origin, and gives both the same value; the
rule-level invariant is preserved by every link step, hence by any sequence of relations).
Tie (T-corr unit): the real AttributeOrigin.__eq__ / is_same_origin on generated origin chains and the real
ASPConverter._link_two_atoms on generated atom pairs (shared names across concepts, two-level origins, duplicates, pre-set
values, forbidden links) vs the model.
Search: every rule of every wide-generator / corpus output: argument positions are mapped to (underlying concept, attribute)
through get_symbols(); a variable the author did not write must not occur at two positions with different images.
"""
from __future__ import annotations

import contextlib
import io
import random
import re

from .. import common, rt, aspast, corpus, gen_wide

PROP = 'C08'
MODULES = ['Cnl2aspModel.Props.C08']
THEOREMS = ['C08_sameOrigin_leaf', 'C08_link_compatible', 'C08_link_inv', 'C08_rule_inv']

VAR_RE = re.compile(r'(?<![A-Za-z0-9_"])[A-Z][A-Z0-9_]*(?![A-Za-z0-9_"(])')


def position_map(symbols):
    """predicate -> list of (leaf concept, attribute name) per argument position"""
    out = {}

    def leaf(pred, a):
        if isinstance(a, str):
            return (pred, a)
        # nested symbol: predicate = origin concept, one inner attribute
        inner = a['attributes'][0] if a['attributes'] else None
        return leaf(a['predicate'], inner) if inner is not None else (a['predicate'], '?')
    for s in symbols:
        out[s['predicate']] = [leaf(s['predicate'], a) for a in s['attributes']]
    return out


def sym_json(s):
    if isinstance(s, str):
        return s
    return {'predicate': s.predicate, 'keys': [sym_json(k) for k in s.keys], 'attributes': [sym_json(a) for a in s.attributes]}


def _job(args):
    text, author = args
    from cnl2asp.cnl2asp import Cnl2asp
    rt.enable_lark_cache()
    r = rt.compile_cnl(text)
    if r[0] != 'ok':
        return {'text': text, 'skip': True}
    # the signature table the symbol table is computed from: position -> (innermost origin concept, attribute name)
    from cnl2asp.specification.signaturemanager import SignatureManager
    pm = {}
    try:
        with contextlib.redirect_stdout(io.StringIO()):
            Cnl2asp(text).compile()
        for sig in SignatureManager.signatures:
            cols = []
            for a in sig.get_keys_and_attributes():
                ch = real_chain(a.origin)
                cols.append((ch[-1] if ch else sig.get_name(), a.get_name()))
            pm[sig.get_name()] = cols
    except Exception:  # noqa
        return {'text': text, 'skip': True}
    finally:
        rt.reset_globals()
    problems = []
    nrules = 0
    try:
        stmts = aspast.parse(rt.norm_uuid(r[1]))
    except Exception as e:  # noqa
        return {'text': text, 'skip': True}
    for s in stmts:
        if s['kind'] not in ('rule', 'weak'):
            continue
        nrules += 1
        occ = {}
        for at in aspast.stmt_atoms(s):
            pred = at[2].strip("'").lstrip('_')
            if pred not in pm or len(pm[pred]) != len(at[3]):
                continue
            for i, t in enumerate(at[3]):
                if t[0] == 'var' and not t[1].startswith('_'):
                    occ.setdefault(t[1], set()).add(pm[pred][i])
        for v, images in occ.items():
            if v in author or len(images) < 2:
                continue
            # same attribute of the same underlying concept
            if len(images) > 1:
                problems.append({'rule': s['text'], 'variable': v, 'positions': sorted(images)})
    return {'text': text, 'rules': nrules, 'problems': problems, 'program': r[1]}


def author_vars(text):
    body = '\n'.join(l.partition('//')[0] for l in text.split('\n'))
    body = re.sub(r'"[^"]*"', '""', body)
    return set(VAR_RE.findall(body))


def main(tier):
    run = common.Run(PROP, tier)
    rng = random.Random(run.seed)
    run.coverage['rule'] = ('unit: origin chains (up to 3 levels, shared names) through the real AttributeOrigin.__eq__ / is_same_origin, and atom '
                            'pairs through the real _link_two_atoms, vs the model; search: every rule of corpus and wide-generator outputs, '
                            'positions mapped to (underlying concept, attribute) by get_symbols(); non-trivial = rule with an invented variable '
                            'at two or more positions')
    run.lean(MODULES, THEOREMS, extra_modules=['Cnl2aspModel.Compiler.Link'])
    unit(run, rng, tier)
    texts = []
    for _ in range(150 if tier == 'quick' else 1500):
        sp = gen_wide.gen_spec(rng)
        texts.append((sp.text(), set(sp.author_vars())))
    for _ in range(20 if tier == 'quick' else 200):
        sp = gen_wide.gen_temporal_spec(rng)
        texts.append((sp.text(), set(sp.author_vars())))
    for name, t in corpus.corpus():
        texts.append((t, author_vars(t)))
    # an aggregate over an attribute NAME that two concepts of the sentence share (the variable invented for it must not join them)
    for (a, b, attr) in (('task', 'machine', 'duration'), ('truck', 'dock', 'weight'), ('nurse', 'ward', 'level')):
        for fn in ('total', 'highest'):
            texts.append((f'A {a} is identified by an id, and has a {attr}.\nA {b} is identified by an id, and has a {attr}.\n'
                          f'Every {a} can be assigned to exactly 1 {b}.\n'
                          f'It is prohibited that the {fn} of {attr} that is assigned to a {a}, a {b} is more than 10.\n', set()))
            texts.append((f'A {a} is identified by an id, and has a {attr}.\nA {b} is identified by an id, and has a {attr}.\n'
                          f'Every {a} can be assigned to exactly 1 {b}.\n'
                          f'It is prohibited that the {fn} {attr} of a {a} that is assigned to a {b} is more than 10.\n', set()))
    texts.sort(key=lambda x: -len(x[0]))
    results = rt.pmap(_job, texts, chunksize=1)
    nr = 0
    for r in results:
        if r.get('skip'):
            continue
        nr += r['rules']
        run.coverage['evaluations'] += r['rules']
        for p in r['problems']:
            run._distinct.add((r['text'], p['rule']))
            imgs = p['positions']
            key = 'join/' + '|'.join(f'{c}.{a}' for c, a in imgs)
            in_agg = bool(re.search(r'#(sum|count|max|min)\s*\{[^}]*\b' + re.escape(p['variable']) + r'\b', p['rule']))
            run.violation(('join/different-attributes' if len({a for _, a in imgs}) > 1 else 'join/different-concepts')
                          + ('/aggregated-attribute-name' if in_agg and len({a for _, a in imgs}) == 1 else ''),
                          f'invented variable {p["variable"]} joins positions {imgs} in {p["rule"]}',
                          {'cnl': r['text'], 'rule': p['rule'], 'variable': p['variable'], 'positions': imgs})
        for p in r['problems'][:0]:
            pass
        if r['rules']:
            run._distinct.add(('spec', r['text']))
    run.coverage['rules_checked'] = nr
    for r in results[-2:]:
        if not r.get('skip'):
            run.sample({'cnl': r['text'][:300], 'program': r['program'][:300]})
    run.assumptions += ['the position -> (underlying concept, attribute) map is the one get_symbols() reports (C13 ties it to the emitted atoms)',
                        'variables written by the author are the author\'s responsibility (as the property says)']
    return run.finish()


# ---------------------------------------------------------------------------
# unit correspondences
# ---------------------------------------------------------------------------
NAMES = ['node', 'color', 'room', 'seat', 'paint', 'classroom']


def rand_chain(rng):
    return [rng.choice(NAMES) for _ in range(rng.choice([0, 1, 1, 1, 2, 2, 3]))]


def mk_origin(chain):
    from cnl2asp.specification.attribute_component import AttributeOrigin
    o = None
    for nm in reversed(chain):
        o = AttributeOrigin(nm, o)
    return o


def real_chain(o):
    out = []
    while o is not None:
        out.append(str(o.name))
        o = o.origin
    return out


def unit(run, rng, tier):
    from cnl2asp.specification.attribute_component import is_same_origin
    from cnl2asp.ASP_elements.asp_atom import ASPAtom
    from cnl2asp.ASP_elements.asp_attribute import ASPAttribute, ASPValue
    from cnl2asp.specification.entity_component import EntityComponent
    from cnl2asp.specification.attribute_component import AttributeComponent, ValueComponent
    from cnl2asp.converter.asp_converter import ASPConverter
    reqs, reals = [], []
    n = 600 if tier == 'quick' else 6000
    for _ in range(n):
        c1, c2 = rand_chain(rng), rand_chain(rng)
        if rng.random() < 0.3:
            c2 = c1[1:] if rng.random() < 0.5 else [rng.choice(NAMES)] + c1
        o1, o2 = mk_origin(c1), mk_origin(c2)
        try:
            same = bool(is_same_origin(o1, o2))
        except Exception:  # noqa
            same = None
        eq = (o1 == o2) if (o1 is not None) else (o2 is None)
        reals.append({'same': same, 'eq': bool(eq)})
        reqs.append(('c08.origin', {'a': real_chain(o1), 'b': real_chain(o2), 'a_none': o1 is None, 'b_none': o2 is None}))
    # link steps
    lcases = []
    for _ in range(400 if tier == 'quick' else 4000):
        def rand_atom(name):
            attrs = []
            for _ in range(rng.randrange(1, 5)):
                nm = rng.choice(['id', 'id', 'name', 'weight'])
                ch = rng.choice([[name], [name], [rng.choice(NAMES)], [name, rng.choice(NAMES)], [rng.choice(NAMES), rng.choice(NAMES)]])
                val = rng.choice(['_', '_', '_', 'X', 'Y', '1'])
                attrs.append({'name': nm, 'value': val, 'origin': ch})
            return {'name': name, 'attrs': attrs}
        n1, n2 = rng.sample(NAMES, 2)
        a1, a2 = rand_atom(n1), rand_atom(n2)
        # entity keys: a prefix of the attributes
        k1 = rng.randrange(1, len(a1['attrs']) + 1)
        k2 = rng.randrange(1, len(a2['attrs']) + 1)
        lcases.append((a1, a2, k1, k2))
    for a1, a2, k1, k2 in lcases:
        def build(a, k):
            attrs = [ASPAttribute(x['name'], ASPValue(x['value']), mk_origin(x['origin'])) for x in a['attrs']]
            comps = [AttributeComponent(x['name'], ValueComponent(x['value']), mk_origin(x['origin'])) for x in a['attrs']]
            ent = EntityComponent(a['name'], '', comps[:k], comps[k:])
            return ASPAtom(a['name'], attrs), ent
        at1, e1 = build(a1, k1)
        at2, e2 = build(a2, k2)
        conv = ASPConverter()
        try:
            conv._link_two_atoms(e1, e2, at1, at2, [])
            real = {'a1': [str(x.get_value()) for x in at1.attributes], 'a2': [str(x.get_value()) for x in at2.attributes]}
        except Exception as e:  # noqa
            real = {'error': type(e).__name__}
        reals.append(real)

        def seen(at, k):
            return {'name': at.name, 'attrs': [{'name': str(x.name), 'value': str(v['value']), 'origin': real_chain(x.origin)}
                                               for x, v in zip(at.attributes, (a1 if at is at1 else a2)['attrs'])], 'nkeys': k}
        reqs.append(('c08.link', {'a1': seen(at1, k1), 'a2': seen(at2, k2)}))
    answers = common.run_model(reqs)
    for i, (req, real, ans) in enumerate(zip(reqs, reals, answers)):
        run.count(('unit', repr(req)))
        if req[0] == 'c08.origin':
            if real['same'] is not None and (ans['same'] != real['same'] or ans['eq'] != real['eq']):
                run.broke('corr', 'originEq / isSameOrigin vs AttributeOrigin.__eq__ / is_same_origin', {'input': req[1], 'real': real, 'model': ans})
                break
        else:
            if 'error' in real:
                continue
            # invented names are compared up to renaming: canonicalise fresh variables by first occurrence
            def canon(vals_pair):
                m = {}
                out = []
                for vals in vals_pair:
                    row = []
                    for v in vals:
                        if re.fullmatch(r'[A-Z][A-Z0-9_]*', v) and v not in ('X', 'Y'):
                            m.setdefault(v, f'F{len(m)}')
                            row.append(m[v])
                        else:
                            row.append(v)
                    out.append(row)
                return out
            if canon([real['a1'], real['a2']]) != canon([ans['a1'], ans['a2']]):
                run.broke('corr', 'linkTwoAtoms vs ASPConverter._link_two_atoms', {'input': req[1], 'real': real, 'model': ans})
                break
    run.coverage['unit_cases'] = len(reqs)
