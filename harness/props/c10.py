"""C10 — sentences are compiled independently and in order.

Lean: Props/C10.lean (for any per-sentence behaviour: with scratch state reset at every boundary the implementation is
the fold of a per-sentence function over the environment; prefix law; removal law; order).
Tie (T-corr layer, monitors): the real CNLTransformer / ASPConverter are wrapped in the harness process: after every
sentence-level callback the parser's scratch state equals its initial value, at the start of every proposition the
converter's scratch lists are empty, and every signature in the table is free of per-occurrence marks (all values
null, no negation / temporal prefix) — the hypotheses `ResetsAtBoundary` and "the environment is the table".
Search: every prefix cut and every removable sentence of corpus and wide-generator specifications on the real compiler.
"""
from __future__ import annotations

import random
import re

from .. import common, rt, corpus, gen_wide

PROP = 'C10'
MODULES = ['Cnl2aspModel.Props.C10']
THEOREMS = ['C10_refines', 'C10_prefix', 'C10_env_append', 'C10_removal', 'C10_order']

REMOVABLE_KINDS = {'fact', 'constraint_there_is', 'constraint_clause', 'constraint_cmp', 'constraint_cmp_attr',
                   'aggregate_count', 'aggregate_passive', 'agg_vs_agg', 'clause_params', 'preference'}


def rule_lines(out):
    return [l.strip() for l in rt.norm_uuid(out).split('\n') if l.strip() and not l.startswith('#const')]


def strip_trailing_directives(lines):
    while lines and lines[-1].startswith('#program'):
        lines = lines[:-1]
    return lines


# ---------------------------------------------------------------------------
# monitors
# ---------------------------------------------------------------------------
def monitored_compile(text):
    """compile with wrapped classes; returns (result, list of boundary findings)"""
    rt.enable_lark_cache()
    import cnl2asp.parser.parser as P
    import cnl2asp.converter.asp_converter as C
    from cnl2asp.specification.signaturemanager import SignatureManager
    from cnl2asp.parser.proposition_builder import PropositionBuilder
    findings = []
    T = P.CNLTransformer
    A = C.ASPConverter
    saved = {}

    def parser_state(tr):
        pb = tr._proposition
        bad = []
        if type(pb) is not PropositionBuilder:
            bad.append(f'_proposition is a {type(pb).__name__}')
        else:
            o = pb._original_rule
            if pb._derived_rules or o.new_knowledge or o.requisite.components or o.relations or o.cardinality or o.defined_attributes:
                bad.append('_proposition is not empty')
        if tr._delayed_operations:
            bad.append(f'_delayed_operations = {len(tr._delayed_operations)} items')
        if tr._defined_variables:
            bad.append(f'_defined_variables = {list(map(str, tr._defined_variables))}')
        return bad

    def sig_marks():
        bad = []
        for s in SignatureManager.signatures:
            marks = [f for f in ('negated', 'is_before', 'is_after', 'is_initial', 'is_final') if getattr(s, f, False)]
            vals = [str(a.value) for a in s.get_keys_and_attributes() if str(a.value) != '_' and s.get_name() not in ('set', 'list')]
            if marks or vals:
                bad.append(f'signature {s.get_name()}: marks {marks} values {vals}')
        return bad

    def wrap_boundary(name):
        orig = getattr(T, name)
        saved[(T, name)] = orig

        def w(self, *a, **k):
            r = orig(self, *a, **k)
            for b in parser_state(self):
                findings.append(('parser', name, b))
            for b in sig_marks():
                findings.append(('signature', name, b))
            return r
        # keep lark's decorations (v_args) working: copy attributes
        for attr in ('visit_wrapper', 'base_func', 'whole_tree', 'inline', 'meta'):
            if hasattr(orig, attr):
                try:
                    setattr(w, attr, getattr(orig, attr))
                except Exception:  # noqa
                    pass
        setattr(T, name, w)

    def wrap_conv():
        orig = A.convert_proposition
        saved[(A, 'convert_proposition')] = orig

        def w(self, proposition):
            bad = [n for n in ('_atoms_in_current_rule', '_created_fields', '_forbidden_links', '_aggregates', '_operations')
                   if getattr(self, n)]
            if bad:
                findings.append(('converter', 'convert_proposition', f'scratch lists not empty at the start of a proposition: {bad}'))
            return orig(self, proposition)
        A.convert_proposition = w
    # standard_proposition is decorated with v_args(meta=True): wrap through the class dict to keep the decorator object
    for nm in ('explicit_definition_proposition', 'implicit_definition_proposition'):
        wrap_boundary(nm)
    # the decorated one: wrap its base function
    sp = T.__dict__['standard_proposition']
    saved[(T, 'standard_proposition')] = sp
    base = getattr(sp, 'base_func', None)
    if base is not None:
        def wbase(self, meta, elem, _b=base):
            r = _b(self, meta, elem)
            for b in parser_state(self):
                findings.append(('parser', 'standard_proposition', b))
            for b in sig_marks():
                findings.append(('signature', 'standard_proposition', b))
            return r
        sp.base_func = wbase
    wrap_conv()
    try:
        res = rt.compile_cnl(text)
    finally:
        for (cls, nm), orig in saved.items():
            if nm == 'standard_proposition' and base is not None:
                orig.base_func = base
            else:
                setattr(cls, nm, orig)
    return res, findings


# ---------------------------------------------------------------------------
def _job(args):
    text, sentences, removable, cuts = args
    res, findings = monitored_compile(text)
    out = {'text': text, 'findings': findings[:5], 'full': res, 'prefix': [], 'removal': []}
    if res[0] != 'ok':
        return out
    full = rule_lines(res[1])
    lens = {}
    for k in cuts:
        ptxt = '\n'.join(sentences[:k]) + '\n'
        r = rt.compile_cnl(ptxt)
        out['prefix'].append((k, r if r[0] != 'ok' else ('ok', rule_lines(r[1]))))
    for i in removable:
        before = rt.compile_cnl('\n'.join(sentences[:i]) + '\n')
        incl = rt.compile_cnl('\n'.join(sentences[:i + 1]) + '\n')
        without = rt.compile_cnl('\n'.join(sentences[:i] + sentences[i + 1:]) + '\n')
        out['removal'].append((i, before if before[0] != 'ok' else ('ok', rule_lines(before[1])),
                               incl if incl[0] != 'ok' else ('ok', rule_lines(incl[1])),
                               without if without[0] != 'ok' else ('ok', rule_lines(without[1]))))
    out['full_lines'] = full
    # context differential: the same later sentences after an introducing sentence written with / without a temporal
    # prefix (the reported signatures are the same, so the later rules must be the same)
    out['context'] = []
    for i, st in enumerate(sentences):
        m = re.search(r' can be (previously|subsequently|initially|finally) (\w+)\.$', st)
        if m and i + 1 < len(sentences):
            variant = sentences[:i] + [st.replace(f' can be {m.group(1)} ', ' can be ')] + sentences[i + 1:]
            b = rt.compile_cnl('\n'.join(sentences[:i + 1]) + '\n')
            v = rt.compile_cnl('\n'.join(variant) + '\n')
            if b[0] == 'ok' and v[0] == 'ok':
                nb = len(strip_trailing_directives(rule_lines(b[1])))
                out['context'].append((i, m.group(1), full[nb:], rule_lines(v[1])[nb:]))
            break
    return out


def is_prefix(a, b):
    return len(a) <= len(b) and b[:len(a)] == a


def main(tier):
    run = common.Run(PROP, tier)
    rng = random.Random(run.seed)
    run.coverage['rule'] = ('per specification: monitored full compilation (scratch-state and signature-mark monitors at every sentence boundary), '
                            'up to 6 prefix cuts (all in thorough) and up to 3 removable sentences (all in thorough), each compiled by the real '
                            'compiler and compared line by line; non-trivial = distinct (specification, cut / removed sentence)')
    run.lean(MODULES, THEOREMS, extra_modules=['Cnl2aspModel.Compiler.Pipeline'])
    jobs = []
    n_wide = 110 if tier == 'quick' else 1200
    for _ in range(n_wide):
        sp = gen_wide.gen_spec(rng, size=rng.randrange(3, 8))
        sents = [s.text for s in sp.sentences]
        removable = [i for i, s in enumerate(sp.sentences) if s.kind in REMOVABLE_KINDS]
        jobs.append((sp.text(), sents, removable))
    for _ in range(n_wide // 3):
        sp = gen_wide.gen_temporal_spec(rng)
        jobs.append((sp.text(), [s.text for s in sp.sentences],
                     [i for i, s in enumerate(sp.sentences) if s.kind == 'temporal_constraint' and not s.header]))
    for name, t in corpus.corpus():
        sents = corpus.split_sentences(t)
        if len(sents) < 2:
            continue
        if tier == 'quick' and len(t) > 2500 and rng.random() < 0.6:
            continue
        removable = [i for i, s in enumerate(sents)
                     if re.match(r'\s*It is (prohibited|required|preferred)', corpus.split_headers(s)[1]) and not corpus.split_headers(s)[0]]
        jobs.append((t, sents, removable))
    # a constant declared AFTER a sentence that uses its name as a plain value (constants in force BEFORE a sentence are what counts)
    for sents in (['A color is one of red, green.', 'A node goes from 1 to 2.', 'red is a constant equal to 3.'],
                  ['A node is identified by an id.', 'There is a node with id equal to top.', 'Every node can be chosen.', 'top is a constant equal to 5.'],
                  ['A size is one of small, big.', 'It is prohibited that there is a size with id equal to big.', 'big is a constant equal to 2.']):
        jobs.append(('\n'.join(sents) + '\n', sents, []))
    full_jobs = []
    for text, sents, removable in jobs:
        n = len(sents)
        cuts = list(range(1, n))
        if tier == 'quick' and len(cuts) > 6:
            cuts = sorted(rng.sample(cuts, 6))
        rem = list(removable)
        if tier == 'quick' and len(rem) > 3:
            rem = sorted(rng.sample(rem, 3))
        full_jobs.append(('\n'.join(sents) + '\n', sents, rem, cuts))
    full_jobs.sort(key=lambda j: -len(j[0]))
    results = rt.pmap(_job, full_jobs, chunksize=1)
    nmon = 0
    seen_monitor = set()
    for (text, sents, rem, cuts), r in zip(full_jobs, results):
        nmon += 1
        for (where, cb, what) in r['findings']:
            mk = (where, cb, what.split('=')[0][:40])
            if mk not in seen_monitor and len(seen_monitor) < 6:
                seen_monitor.add(mk)
                run.broke('corr', f'boundary monitor ({where} after {cb})', {'what': what, 'cnl': text[:600]})
        if r['full'][0] != 'ok':
            continue
        full = r['full_lines']
        for k, pr in r['prefix']:
            run.count(('prefix', text, k))
            replay = {'cnl': text, 'cut_after_sentence': k, 'prefix_cnl': '\n'.join(sents[:k]) + '\n'}
            if pr[0] != 'ok':
                run.violation('prefix/rejected', f'the prefix of {k} sentences is rejected although the whole text compiles: {str(pr[1])[:200]}', replay)
                continue
            pl = strip_trailing_directives(pr[1])
            if not is_prefix(pl, full):
                i = next((j for j, (a, b) in enumerate(zip(pl, full)) if a != b), min(len(pl), len(full)))
                # the failing construct, for the known-findings file: a constant declared after the cut whose name an earlier rule prints
                later = [m.group(1) for st in sents[k:] for m in [re.match(r'\s*(\w+) is a constant\b', corpus.split_headers(st)[1])] if m]
                changed = pl[i] if i < len(pl) else ''
                lc = '/later-constant' if any(re.search(r'(?<![A-Za-z0-9_])"?' + re.escape(c) + r'"?(?![A-Za-z0-9_])', changed) for c in later) else ''
                run.violation('prefix/not-a-prefix' + lc, f'rule {i} of the prefix is {pl[i] if i < len(pl) else None!r}, of the whole program {full[i] if i < len(full) else None!r}',
                              dict(replay, prefix_rules=pl[:i + 2], full_rules=full[:i + 2]))
        for i, before, incl, without in r['removal']:
            run.count(('removal', text, i))
            replay = {'cnl': text, 'removed_sentence': sents[i]}
            if before[0] != 'ok' or incl[0] != 'ok':
                continue
            b, inc = strip_trailing_directives(before[1]), strip_trailing_directives(incl[1])
            if without[0] != 'ok':
                # the sentence introduced something later sentences need: not removable after all
                continue
            if not is_prefix(b, inc):
                continue   # reported by the prefix check
            own = inc[len(b):]
            expected = [l for l in full]
            # remove exactly the sentence's rules (at their position)
            if full[len(b):len(b) + len(own)] != own:
                continue   # reported by the prefix check
            expected = full[:len(b)] + full[len(b) + len(own):]
            got = without[1]
            # a directive that only governed the removed sentence may disappear with it
            norm = lambda ls: [l for j, l in enumerate(ls) if not (l.startswith('#program') and (j + 1 == len(ls) or ls[j + 1].startswith('#program')))]
            if norm(got) != norm(expected):
                j = next((x for x, (a, c) in enumerate(zip(norm(got), norm(expected))) if a != c), min(len(got), len(expected)))
                bykey = '/by-preposition' if re.search(r'\b(?:is|be|are) (?:not )?\w+ by\b', sents[i]) else ''
                run.violation('removal/other-rules-change' + bykey, f'removing "{sents[i][:80]}" changes another rule (position {j})',
                              dict(replay, without=norm(got)[max(0, j - 1):j + 2], expected=norm(expected)[max(0, j - 1):j + 2]))
        for i, pre, later_a, later_b in r.get('context', []):
            run.count(('context', text, i))
            if later_a != later_b:
                j = next((x for x, (a, c) in enumerate(zip(later_a, later_b)) if a != c), 0)
                run.violation('context/hidden-signature-state',
                              f'the rules of the sentences after "{sents[i][:70]}" depend on its "{pre}" although the reported signatures do not: '
                              f'{later_a[j] if j < len(later_a) else None!r} vs {later_b[j] if j < len(later_b) else None!r}',
                              {'cnl': text, 'introducing_sentence': sents[i], 'prefix': pre})
    run.coverage['monitored_compilations'] = nmon
    for (text, sents, rem, cuts), r in list(zip(full_jobs, results))[-2:]:
        run.sample({'cnl': text[:400], 'cuts': cuts, 'removed': [sents[i] for i in rem][:2]})
    run.assumptions += ['what persists between sentences is the signature table, the constants and the set of already-emitted temporal concepts; '
                        'everything else is scratch state — checked by the boundary monitors, not proved of the Python code',
                        'auxiliary x_<uuid> names normalised per output']
    return run.finish()
