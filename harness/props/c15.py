"""C15 — model explanations state exactly the model.

Lean: Props/C15.lean (the pure string layer: capitalisation keeps every value; the entity printer mentions every
value it is given; copula normalisation).
Tie (T-corr unit): the real ClingoResultParser._entity_printer / _convert_verb / the sentence capitalisation vs the model.
Search (on the real code): for real answer sets of generated and corpus specifications the explanation must have exactly
one sentence per atom of a concept the specification defines, derives or chooses, in order; every sentence must contain
every argument value of its atom and the concept's words; distinct atoms must give distinct sentences; for declared
concepts and subject-verb-object relations the explanation, read back under the same declarations, must compile to a
program whose single answer set is the explained atoms; telingo traces are split per state with headings in order.
"""
from __future__ import annotations

import contextlib
import io
import random
import re

from .. import common, rt, gen_wide, corpus, tel

PROP = 'C15'
MODULES = ['Cnl2aspModel.Props.C15']
THEOREMS = ['C15_capitalize_keeps_values', 'C15_printer_mentions', 'C15_printer_single', 'C15_verb', 'C15_sentence_mentions_all',
            'C15_sentence_values_are_arguments']


def core_spec(rng):
    """declared single-key concepts with facts, one or two relations (choice / derived): the read-back fragment"""
    names = rng.sample(['node', 'color', 'room', 'seat', 'movie', 'actor', 'city', 'truck'], rng.randrange(2, 4))
    lines = []
    doms = {}
    keyname = {}
    for n in names:
        k = rng.choice(['id', 'id', 'name'])
        keyname[n] = k
        attr = rng.choice([None, None, 'weight', 'label'])
        lines.append(f'{gen_wide.article(n).capitalize()} {n} is identified by {gen_wide.article(k)} {k}'
                     + (f', and has {gen_wide.article(attr)} {attr}' if attr else '') + '.')
        doms[n] = (k, attr)
    facts = []
    for n in names:
        k, attr = doms[n]
        vals = rng.sample(['1', '2', '3', 'red', 'blue', 'Green', 'jurassicPark', 'x1'], rng.randrange(1, 4)) if k == 'name' \
            else rng.sample(['1', '2', '3', '4'], rng.randrange(1, 4))
        for v in vals:
            vv = v if v.isdigit() else f'equal to {v}'
            t = f'There is {gen_wide.article(n)} {n} with {k} {vv}'
            if attr:
                av = rng.choice(['5', '7', 'heavy', 'Big'])
                t += f', with {attr} {av if av.isdigit() else "equal to " + av}'
            facts.append(t + '.')
    rels = []
    a, b = names[0], names[1]
    verb, prep = rng.choice([('assigned', 'to'), ('sent', 'to'), ('placed', 'in'), ('linked', 'to')])
    card = rng.choice(['exactly 1 ', 'at most 1 ', ''])
    rels.append(f'Every {a} can be {verb} {prep} {card}{"" if card else gen_wide.article(b) + " "}{b}.')
    if rng.random() < 0.6:
        v2 = rng.choice(['marked', 'busy', 'used'])
        rels.append(f'{a.capitalize()} X is {v2} when {a} X is {verb} {prep} {b} Y.')
    return '\n'.join(lines + facts + rels) + '\n', lines


def agents_spec(rng):
    """a relation whose subject can be of two or three declared concepts (all keyed by a shared `agent`), with
    individuals whose values are substrings of each other"""
    subs = rng.sample(['monkey', 'box', 'truck', 'plane', 'ship'], rng.choice([2, 3, 3]))
    decls = ['An agent is identified by a name.'] + [f'A {s} is identified by an agent.' for s in subs] + \
            ['A location is identified by an id.']
    locs = rng.sample(['door', 'window', 'depot', 'port'], 2)
    lines = [f'There is a location with id equal to {l}.' for l in locs]
    pool = ['1', '12', '2', '7', '21', '3', '13']
    rng.shuffle(pool)
    rel = []
    for s in subs:
        for _ in range(rng.randrange(1, 3)):
            v = pool.pop()
            lines.append(f'There is {s} with agent name {v}.')
            rel.append(f'{s.capitalize()} {v} is at location {rng.choice(locs)}.')
    return '\n'.join(decls + lines + rel) + '\n', decls


def named_specs(rng):
    """facts of concepts with two or more attributes whose names interact: key-concept names that begin with letters of the
    concept's own name (assignment <- nurse, shift), and keys inherited through a chain of three declarations"""
    out = []
    for c, k1, k2, attr in (('assignment', 'nurse', 'shift', 'hours'), ('transport', 'truck', 'route', 'size'),
                            ('session', 'seat', 'node', 'slot'), ('allocation', 'actor', 'location', 'cost')):
        decls = [f'{gen_wide.article(k1).capitalize()} {k1} is identified by an id.', f'{gen_wide.article(k2).capitalize()} {k2} is identified by an id.',
                 f'{gen_wide.article(c).capitalize()} {c} is identified by {gen_wide.article(k1)} {k1}, and by {gen_wide.article(k2)} {k2}, and has {gen_wide.article(attr)} {attr}.']
        a, b, h = rng.randrange(1, 4), rng.randrange(1, 4), rng.randrange(1, 9)
        facts = [f'There is {gen_wide.article(k1)} {k1} with id {a}.', f'There is {gen_wide.article(k2)} {k2} with id {b}.',
                 f'There is {gen_wide.article(c)} {c} with {k1} id {a}, with {k2} id {b}, with {attr} {h}.']
        out.append(('\n'.join(decls + facts) + '\n', decls))
    # a declared concept used as a verb noun whose key and attribute are both plain ids: atoms such as assignment(2,2) have a key and
    # an attribute equal in name and value (the boundary of C15_sentence_mentions_all's hypothesis)
    for (a, b, c) in (('patient', 'seat', 'assignment'), ('truck', 'dock', 'booking')):
        decls = [f'A {a} is identified by an id.', f'A {b} is identified by an id.',
                 f'{gen_wide.article(c).capitalize()} {c} is identified by a {a}, and has a {b}.']
        body = [f'A {a} goes from 1 to 2.', f'A {b} goes from 1 to 2.',
                f'Whenever there is a {a} P, then P can have {gen_wide.article(c)} {c} to exactly 1 {b} S.']
        out.append(('\n'.join(decls + body) + '\n', decls))
    for chain in (['agent', 'monkey', 'cage', 'zoo'], ['owner', 'car', 'garage', 'street'], ['node', 'link', 'path', 'route']):
        key = rng.choice(['name', 'id'])
        decls = [f'{gen_wide.article(chain[0]).capitalize()} {chain[0]} is identified by {gen_wide.article(key)} {key}.']
        for x, y in zip(chain, chain[1:]):
            decls.append(f'{gen_wide.article(y).capitalize()} {y} is identified by {gen_wide.article(x)} {x}' + (', and has a size.' if y == chain[-1] else '.'))
        v = rng.choice(['bob', 'tom']) if key == 'name' else str(rng.randrange(1, 5))
        vv = f'equal to {v}' if not v.isdigit() else v
        facts = [f'There is {gen_wide.article(chain[0])} {chain[0]} with {key} {vv}.']
        for i in range(1, len(chain)):
            path = ' '.join(reversed(chain[:i]))
            t = f'There is {gen_wide.article(chain[i])} {chain[i]} with {path} {key} {vv}'
            if i == len(chain) - 1:
                t += f', with size {rng.randrange(1, 6)}'
            facts.append(t + '.')
        out.append(('\n'.join(decls + facts) + '\n', decls))
    return out


def explain(text, models):
    from cnl2asp.cnl2asp import Cnl2asp
    from cnl2asp.ASP_elements.solver.clingo_result_parser import ClingoResultParser
    out = []
    for m in models:
        rt.reset_globals()
        with contextlib.redirect_stdout(io.StringIO()):
            spec = Cnl2asp(text).parse_input()
            out.append(ClingoResultParser(spec).parse_model(list(m)))
    rt.reset_globals()
    return out


def _ent_json(e):
    from ..harvest import origin_chain

    def attr(a):
        return {'name': a.get_name(), 'value': str(a.value), 'origin': origin_chain(a.origin), 'label': str(a)}
    return {'name': str(e.get_name()), 'keys': [attr(a) for a in e.keys], 'attrs': [attr(a) for a in e.attributes]}


def _name_pairs(names):
    from cnl2asp.specification.name_component import NameComponent
    names = sorted(n for n in set(names) if n)
    pairs = []
    for x in names:
        for y in names:
            if x == y:
                continue
            e1 = NameComponent(x) == y
            if e1 != (NameComponent(x) == NameComponent(y)):
                return None
            if e1:
                pairs.append([x, y])
    return pairs


def sentence_cases(text, models, limit=40):
    """the sentence-construction layer: for every explained atom, the real signature (entity, subjects, verb, objects), the subject
    the real code picks, and the sentence the real `_clingo_symbol_to_sentence` builds — for the model op `c15.sentence`"""
    import clingo
    from cnl2asp.cnl2asp import Cnl2asp
    from cnl2asp.ASP_elements.solver.clingo_result_parser import ClingoResultParser
    rt.reset_globals()
    out = []
    with contextlib.redirect_stdout(io.StringIO()):
        spec = Cnl2asp(text).parse_input()
        p = ClingoResultParser(spec)
        p._get_new_knowledge()
        for m in models:
            for a in m:
                if len(out) >= limit:
                    break
                sym = clingo.parse_term(a.strip())
                if sym.name not in p.target_predicates:
                    continue
                sig = p._get_signature(sym.name)
                if len(sym.arguments) < len(sig.new_entity.get_keys_and_attributes()):
                    continue
                args = [str(x).removeprefix('"').removesuffix('"') for x in sym.arguments]
                # which subject does the real code pick? (several subjects: decided by the specification's declared entities)
                subject = None
                if len(sig.subject) == 1:
                    subject = sig.subject[0]
                elif len(sig.subject) > 1:
                    probe = p._get_signature(sym.name)
                    p._parse_clingo_symbol(sym, probe.new_entity)
                    picked = False
                    for ent in probe.subject:
                        if p._search_entity(ent.get_name(), p._attributes_intersection(ent, probe.new_entity)):
                            subject = next(x for x in sig.subject if x.get_name() == ent.get_name())
                            picked = True
                            break
                    if not picked:
                        continue        # `_convert_subject` returns None: outside the model
                names = [sig.new_entity.get_name()] + [x for e in [sig.new_entity] + list(sig.subject) + list(sig.objects or [])
                                                       for at in e.get_keys_and_attributes()
                                                       for x in [at.get_name()] + __import__('harness.harvest', fromlist=['x']).origin_chain(at.origin)]
                names += [e.get_name() for e in list(sig.subject) + list(sig.objects or [])]
                pairs = _name_pairs([str(n) for n in names])
                if pairs is None:
                    continue
                req = {'entity': _ent_json(sig.new_entity), 'subject': _ent_json(subject) if subject is not None else None,
                       'verb': str(sig.verb) if sig.verb is not None else '', 'objects': [_ent_json(o) for o in (sig.objects or [])],
                       'args': args, 'eqpairs': pairs}
                try:
                    real = p._clingo_symbol_to_sentence(sym)
                except Exception as e:  # noqa
                    real = f'!{type(e).__name__}'
                out.append((a, req, real))
    rt.reset_globals()
    return out


def head_predicates(program):
    from .. import aspast
    preds = set()
    for s in aspast.parse(program):
        if s['kind'] != 'rule':
            continue
        h = s['head']
        lits = []
        if h[0] == 'atom':
            aspast.lit_atoms(h[1], lits)
        elif h[0] == 'disj':
            for e in h[1]:
                if e[0] == 'cond':
                    aspast.lit_atoms(e[1], lits)
                else:
                    aspast.lit_atoms(e, lits)
        elif h[0] == 'choice':
            for e in h[2]:
                if e[0] == 'cond':
                    aspast.lit_atoms(e[1], lits)
                else:
                    aspast.lit_atoms(e, lits)
        for l in lits:
            preds.add(l[2])
    return preds


def atom_args(a):
    import clingo
    s = clingo.parse_term(a)
    return s.name, [str(x).strip('"') for x in s.arguments]


def _job(args):
    text, decl_lines, readback = args
    rt.enable_lark_cache()
    r = rt.compile_cnl(text)
    if r[0] != 'ok':
        return {'text': text, 'skip': str(r[1])[:200]}
    ms = rt.clingo_models(r[1], limit=3)
    if ms[0] != 'ok' or not ms[1]:
        return {'text': text, 'skip': 'no model'}
    import clingo
    models = []
    # keep clingo's own order of atoms (the explanation is produced in that order)
    ctl = clingo.Control(['--warn=none', '--models=3'])
    ctl.add('base', [], r[1])
    ctl.ground([('base', [])])
    with ctl.solve(yield_=True) as h:
        for m in h:
            models.append([str(s) for s in m.symbols(atoms=True)])
    try:
        exps = explain(text, models)
    except Exception as e:  # noqa
        return {'text': text, 'program': r[1], 'explain_error': f'{type(e).__name__}: {e}'[:300], 'models': models}
    heads = head_predicates(r[1])
    out = {'text': text, 'program': r[1], 'models': models, 'explanations': exps, 'heads': sorted(heads), 'readback': []}
    try:
        out['sentence_cases'] = sentence_cases(text, models[:2])
    except Exception as e:  # noqa
        out['sentence_cases_error'] = f'{type(e).__name__}: {e}'[:300]
    if readback:
        for m, e in zip(models[:1], exps[:1]):
            rb_text = '\n'.join(decl_lines) + '\n' + e
            rr = rt.compile_cnl(rb_text)
            if rr[0] != 'ok':
                out['readback'].append({'error': str(rr[1])[:300], 'text': rb_text})
                continue
            rm = rt.clingo_models(rr[1], limit=3)
            out['readback'].append({'text': rb_text, 'program': rr[1], 'models': [sorted(x) for x in rm[1]] if rm[0] == 'ok' else str(rm[1])})
    return out


def sentence_layer(run, results):
    """ExplainSentence.lean vs the real `_clingo_symbol_to_sentence`, sentence by sentence; the mention theorem's hypothesis and
    conclusion are evaluated by the model on every case (the values mentioned are a permutation of the atom's arguments)"""
    cases = []
    for r in results:
        if r.get('sentence_cases_error'):
            run.note('sentence layer: signature could not be serialised: ' + r['sentence_cases_error'])
        for a, req, real in r.get('sentence_cases', []):
            cases.append((r['text'], a, req, real))
    try:
        answers = common.run_model([('c15.sentence', c[2]) for c in cases])
    except RuntimeError as e:
        run.broke('corr', 'model driver (c15.sentence)', e)
        return
    stats = {'sentences': len(cases), 'with_subject': 0, 'with_objects': 0, 'hypothesis_holds': 0, 'mismatches': 0}
    for (text, atom, req, real), a in zip(cases, answers):
        run.count(('sentence', atom, real))
        stats['with_subject'] += req['subject'] is not None
        stats['with_objects'] += bool(req['objects'])
        if a.get('sentence') != real:
            stats['mismatches'] += 1
            if stats['mismatches'] <= 3:
                run.broke('corr', 'ExplainS.sentence vs ClingoResultParser._clingo_symbol_to_sentence',
                          {'cnl': text[:600], 'atom': atom, 'real': real, 'model': a.get('sentence'), 'signature': req})
                # failing-input search on the real sentence: does it still name every argument of its atom?
                missing = [v for v in req['args'] if v.lower() not in real.lower()]
                if missing:
                    run.violation('mention/value-missing/sentence-layer', f'value {missing[0]!r} of {atom} does not occur in {real!r}',
                                  {'cnl': text, 'atom': atom, 'sentence': real})
            continue
        if a.get('nocross'):
            stats['hypothesis_holds'] += 1
            if sorted(a['mentioned']) != sorted(req['args']):
                run.broke('proof', 'C15_sentence_mentions_all evaluated on a real signature: the mentioned values are not the arguments',
                          {'atom': atom, 'mentioned': a['mentioned'], 'args': req['args']})
    run.coverage['sentence_layer'] = stats


def trace_spec(rng):
    c = rng.choice(['node', 'disk', 'robot'])
    v1, v2 = rng.sample(['chosen', 'kept', 'moved', 'armed'], 2)
    hi = rng.randrange(1, 3)
    return (f'A {c} is identified by an id.\nThe following propositions always apply:\nA {c} goes from 1 to {hi}.\n'
            f'The following propositions apply in the initial state:\nEvery {c} can be {v1}.\n'
            f'The following propositions always apply except in the initial state:\n'
            f'{c.capitalize()} X is {v2} when {c} X is previously {v1}.\n{c.capitalize()} X is {v2} when {c} X is previously {v2}.\n')


def _tel_job(text):
    """a telingo trace of a temporal specification explained state by state; `text` may be (text, horizons)"""
    horizons = (2, 3)
    if isinstance(text, tuple):
        text, horizons = text
    from cnl2asp.cnl2asp import Cnl2asp
    from cnl2asp.ASP_elements.solver.telingo_result_parser import TelingoResultParser
    rt.enable_lark_cache()
    r = rt.compile_cnl(text)
    if r[0] != 'ok':
        return {'skip': True}
    heads = head_predicates(r[1].replace("'", '').replace('#program', '%'))
    for horizon in horizons:
        tr = tel.run_telingo(r[1], horizon, models=1)
        if tr[0] == 'ok' and tr[1]:
            break
    else:
        return {'skip': True}
    model = tr[1][0]
    raw = ''.join(f' State {k}:\n  ' + ' '.join(sorted(st)) + '\n' for k, st in enumerate(model))
    rt.reset_globals()
    try:
        with contextlib.redirect_stdout(io.StringIO()):
            exp = TelingoResultParser(Cnl2asp(text).parse_input()).parse_model(raw)
    except Exception as e:  # noqa
        return {'text': text, 'raw': raw, 'error': f'{type(e).__name__}: {e}'[:300]}
    finally:
        rt.reset_globals()
    return {'text': text, 'raw': raw, 'explanation': exp, 'states': [sorted(st) for st in model], 'heads': sorted(heads)}


def main(tier):
    run = common.Run(PROP, tier)
    rng = random.Random(run.seed)
    run.coverage['rule'] = ('unit: the real _entity_printer / _convert_verb on generated (symbol, attributes) vs the model; search: up to 3 answer sets '
                            'of core-fragment specifications (declared concepts, facts with mixed-case values, a choice and a derived relation) and of '
                            'the corpus problems, explained by the real ClingoResultParser: selection, order, mention of every value, distinctness, '
                            'read-back round trip; non-trivial = explained answer set with at least 3 atoms')
    run.lean(MODULES, THEOREMS, extra_modules=['Cnl2aspModel.Compiler.Explain', 'Cnl2aspModel.Compiler.ExplainSentenceLemmas'])
    # ---- unit -----------------------------------------------------------------
    from cnl2asp.ASP_elements.solver.clingo_result_parser import ClingoResultParser
    from cnl2asp.specification.attribute_component import AttributeComponent, ValueComponent, AttributeOrigin
    from cnl2asp.specification.specification import SpecificationComponent
    p = ClingoResultParser(SpecificationComponent())
    ucases = []
    for _ in range(300 if tier == 'quick' else 3000):
        sym = rng.choice(['node', 'assigned_to', 'work_in', 'color', 'x'])
        n = rng.choice([0, 1, 1, 2, 2, 3])
        attrs = []
        for _ in range(n):
            origin = rng.choice([sym, 'node', 'color', sym])
            nm = rng.choice(['id', 'name', 'first node', 'weight'])
            val = rng.choice(['1', 'Red', 'green', 'jurassicPark', 'a b', '07:30 AM', '_'])
            attrs.append((origin, nm, val))
        ucases.append((sym, attrs))
    reqs = []
    reals = []
    for sym, attrs in ucases:
        objs = [AttributeComponent(nm, ValueComponent(v), AttributeOrigin(o)) for o, nm, v in attrs]
        real = p._entity_printer(sym, objs)
        verb = rng.choice(['be ', 'is a ', 'have an ', 'has ', '', 'work '])
        sent = real + ' is here.'
        reals.append((real, p._convert_verb(verb), (sent[:1].upper() + sent[1:])))
        reqs.append(('c15.printer', {'symbol': sym, 'attrs': [[str(o), v] for o, (_, _, v) in zip(objs, attrs)], 'sentence': sent, 'verb': verb}))
    answers = common.run_model(reqs)
    for (sym, attrs), real, a in zip(ucases, reals, answers):
        run.count(('unit', sym, tuple(attrs)))
        if (a['printed'], a['verb'], a['cap']) != real:
            run.broke('corr', 'entityPrinter / convertVerb / capFirst vs the real result parser',
                      {'symbol': sym, 'attrs': attrs, 'real': real, 'model': a})
            break
    # ---- search -----------------------------------------------------------------
    jobs = []
    for _ in range(60 if tier == 'quick' else 600):
        t, decls = core_spec(rng)
        jobs.append((t, decls, True))
    for _ in range(25 if tier == 'quick' else 250):
        t, decls = agents_spec(rng)
        jobs.append((t, decls, True))
    for t, decls in named_specs(rng):
        jobs.append((t, decls, True))
    for name, t in corpus.corpus():
        if 'The following propositions' in t or len(t) > 2500:
            continue
        if rng.random() < (0.5 if tier == 'quick' else 1.0):
            jobs.append((t, [], False))
    results = rt.pmap(_job, jobs, chunksize=2)
    stats = {'explained_models': 0, 'sentences': 0, 'readbacks': 0, 'skipped': 0}
    for r in results:
        if 'skip' in r:
            stats['skipped'] += 1
            continue
        replay = {'cnl': r['text'], 'program': r.get('program')}
        if 'explain_error' in r:
            run.violation('explain/raises', f'parse_model raises {r["explain_error"]}', dict(replay, model=r['models'][0]))
            continue
        heads = set(r['heads'])
        for model, exp in zip(r['models'], r['explanations']):
            stats['explained_models'] += 1
            sentences = [l for l in exp.split('\n') if l.strip()]
            target = [a for a in model if atom_args(a)[0] in heads and not atom_args(a)[0].startswith('x_')]
            run.count(('model', r['text'], tuple(model)), nontrivial=len(target) >= 3)
            stats['sentences'] += len(sentences)
            rp = dict(replay, model=model, explanation=exp)
            if len(sentences) != len(target):
                run.violation('selection/count', f'{len(target)} atoms of defined / derived / chosen concepts but {len(sentences)} sentences', rp)
                continue
            seen = {}
            for a, s in zip(target, sentences):
                name, args = atom_args(a)
                if not s.endswith('.'):
                    run.violation('sentence/form', f'sentence without full stop: {s!r}', rp)
                for v in args:
                    if v.lower() not in s.lower():
                        run.violation('mention/value-missing', f'value {v!r} of {a} does not occur in {s!r}', rp)
                        break
                    if v not in s and not s.lower().startswith(v.lower()):
                        run.violation('mention/value-altered', f'value {v!r} of {a} is altered in {s!r}', rp)
                        break
                words = name.split('_')
                if not all(w.lower() in s.lower() for w in words):
                    run.violation('mention/concept-missing', f'concept {name} of {a} is not named in {s!r}', rp)
                if s in seen and seen[s] != a:
                    run.violation('distinct/collision', f'{seen[s]} and {a} are explained by the same sentence {s!r}', rp)
                seen[s] = a
        for rb, model in zip(r.get('readback', []), r['models']):
            stats['readbacks'] += 1
            rp = dict(replay, model=model, readback=rb)
            target = sorted(a for a in model if atom_args(a)[0] in heads)
            if 'error' in rb:
                run.violation('readback/rejected', f'the explanation does not compile as CNL: {rb["error"][:200]}', rp)
            elif not isinstance(rb['models'], list) or len(rb['models']) != 1:
                same = any(len(set(atom_args(a)[1])) < len(atom_args(a)[1]) for a in target)
                run.violation('readback/models' + ('/equal-valued-arguments' if same and 'unsafe' in str(rb['models']) else ''), f'the read-back program has {len(rb["models"]) if isinstance(rb["models"], list) else rb["models"]} answer sets', rp)
            elif sorted(rb['models'][0]) != target:
                missing = sorted(set(target) - set(rb['models'][0]))[:3]
                extra = sorted(set(rb['models'][0]) - set(target))[:3]
                run.violation('readback/different', f'read-back answer set differs: missing {missing} extra {extra}', rp)
    sentence_layer(run, results)
    # ---- telingo traces: one heading per state, in order, with the sentences of that state --------------
    tjobs = [gen_wide.gen_temporal_spec(rng).text() for _ in range(8 if tier == 'quick' else 80)]
    tjobs += [trace_spec(rng) for _ in range(10 if tier == 'quick' else 60)]
    # quoted values with blanks, and a value that contains the word of the state headings
    tjobs += ['A place is identified by a name.\nThe following propositions always apply:\n'
              f'There is a place with name equal to "{v}".\nThere is a place with name equal to "{w}".\n'
              for v, w in (('State Street', 'new york'), ('a b c', 'State'), ('north State 1', 'x'))]
    tjobs += [(trace_spec(rng), (h,)) for h in ((12,) if tier == 'quick' else (10, 11, 12, 13, 21))]     # long traces: two-digit state numbers
    ntr = 0
    for r in rt.pmap(_tel_job, tjobs, chunksize=1):
        if r.get('skip'):
            continue
        ntr += 1
        rp = {'cnl': r['text'], 'telingo_states': r.get('raw'), 'explanation': r.get('explanation', r.get('error'))}
        run.count(('trace', r['text']))
        if 'error' in r:
            run.violation('trace/raises', f'TelingoResultParser.parse_model raises {r["error"]}', rp)
            continue
        blocks = re.split(r'^-- In the (\S+) state:\n', r['explanation'], flags=re.M)
        heads_found = blocks[1::2]
        if heads_found != [str(k) for k in range(len(r['states']))]:
            run.violation('trace/headings', f'state headings {heads_found} for a trace of {len(r["states"])} states', rp)
            continue
        for k, (st, body) in enumerate(zip(r['states'], blocks[2::2])):
            target = [a for a in st if atom_args(a)[0] in set(r['heads'])]
            sentences = [l for l in body.split('\n') if l.strip()]
            if len(sentences) != len(target):
                run.violation('trace/state-count', f'state {k}: {len(target)} atoms to explain, {len(sentences)} sentences', rp)
                break
            for a in target:
                args = atom_args(a)[1]
                if not any(all(v.lower() in snt.lower() for v in args) for snt in sentences):
                    run.violation('trace/state-content', f'state {k}: no sentence mentions the values of {a}', rp)
                    break
    stats['traces'] = ntr
    run.coverage['search'] = stats
    for r in results[:2]:
        if 'explanations' in r:
            run.sample({'cnl': r['text'][:300], 'model': r['models'][0][:6], 'explanation': r['explanations'][0][:300]})
    run.assumptions += ['which of several possible subjects an atom is explained with (_convert_subject, decided by the declared entities) is a parameter of the model',
                        'read-back is claimed for declared concepts, facts, and subject-verb-object relations']
    return run.finish()
