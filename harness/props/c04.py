"""C04 — preferences optimise the stated quantity, direction and priority.

Lean: Asp/Opt.lean (weak constraints: cost per level = sum of the weights of the distinct tuples; Better; Optimal),
Cnl/Pref.lean (preference sentences -> weak constraints over the regenerated direction / priority / sign tables),
Props/C04.lean (C04_main; direction, sign and priority tables; cost = aggregate value / number of parameter tuples;
highest level first), Findings/C04.lean (F3: "as much as possible" has the direction of "as little as possible").
Tie: T-gen (direction phrases through the live callbacks, priority words, sign printed by the live converter) + T-corr: the weak
constraints of the real output vs Pref.weak, statement by statement.
Search: clingo --opt-mode=optN on the real output vs the optimal models of the direct reading.
"""
from __future__ import annotations

import random

from .. import common, rt, gen_core, aspast
from . import c01, c02

PROP = 'C04'
MODULES = ['Cnl2aspModel.Props.C04']
THEOREMS = ['C04_main', 'C04_direction_partial', 'C04_sign', 'C04_priority', 'C04_cost_unique', 'C04_aggregate_cost', 'C04_situation_cost',
            'C04_variable_cost', 'C04_highest_level_first']
EXTRA = c01.EXTRA + ['Cnl2aspModel.Asp.Opt', 'Cnl2aspModel.Cnl.Pref', 'Cnl2aspModel.Asp.AggLemmas']
FINDING_MODULES = ['Cnl2aspModel.Findings.C04']


def weak_as_rule(weight, level, terms, body):
    return ('atom', ('atom', 0, '__weak__', [weight, level] + list(terms))), body


def real_statements(program):
    out = []
    for st in aspast.parse(program):
        if st['kind'] == 'rule':
            for h, b in c01.expand_fact(st):
                out.append(c01.canon_rule(c01.norm_guards(h), c02.split_aggs(b)))
        elif st['kind'] == 'weak':
            h, b = weak_as_rule(st['weight'], st['priority'], st['terms'], st['body'])
            out.append(c01.canon_rule(h, c02.split_aggs(b)))
        elif st['kind'] not in ('program',):
            out.append(st['kind'] + ':' + st['text'])
    return out


def model_weak(w):
    wt = c01.m_term(w['weight'])
    if w['neg']:
        wt = ('un', '-', wt) if wt[0] != 'num' else ('num', -wt[1])
    body = [c01.m_lit(l) for l in w['body']] + [c01.m_agg(a) for a in w['aggs']]
    h, b = weak_as_rule(wt, ('num', w['level']), [c01.m_term(t) for t in w['terms']], body)
    return c01.canon_rule(h, c02.split_aggs(b))


def clingo_optimal(program, limit=20001):
    import clingo
    ctl = clingo.Control(['0', '--warn=none', '--opt-mode=optN'], logger=lambda c, m: None)
    ctl.add('base', [], program)
    ctl.ground([('base', [])])
    out, plain = [], []
    with ctl.solve(yield_=True) as h:
        for m in h:
            atoms = c01.atoms_of_model(m.symbols(atoms=True))
            if m.optimality_proven:
                out.append(atoms)
            elif not m.cost:
                plain.append(atoms)     # no weak constraint has an instance: every answer set is optimal
            if len(out) + len(plain) >= limit:
                return None
    return out if out else plain


def _job(args):
    text, ast, prefs, order = args
    rt.enable_lark_cache()
    r = rt.compile_cnl(text)
    if r[0] != 'ok':
        return {'rejected': str(r[1])[:300]}
    prog = r[1]
    res = {'program': prog}
    try:
        res['rules'] = real_statements(prog)
    except Exception as e:
        res['rules_error'] = repr(e)[:300]
    try:
        ans = clingo_optimal(prog)
    except RuntimeError as e:
        res['solver_error'] = str(e)[:300]
        return res
    try:
        ref = gen_core.ref_optimal(ast, prefs, order)
    except ValueError:
        res['undecided'] = True
        return res
    if ans is None or ref is None:
        res['undecided'] = True
        return res
    A = set(ans)
    R = set(frozenset(m) for m in ref)
    res['n_models'] = len(A)
    if A != R:
        only_a = sorted(A - R, key=lambda m: sorted(map(repr, m)))[:2]
        only_r = sorted(R - A, key=lambda m: sorted(map(repr, m)))[:2]
        res['diff'] = {'optimal_answer_sets': len(A), 'optimal_reference_models': len(R),
                       'optimal_answer_set_not_optimal_in_the_reading': [sorted(map(list, m), key=repr) for m in only_a],
                       'optimal_in_the_reading_not_an_optimal_answer_set': [sorted(map(list, m), key=repr) for m in only_r]}
    return res


def gen(rng):
    for _ in range(60):
        sp = gen_core.gen_spec(rng, n_constraints=rng.choice([0, 0, 1]))
        k = rng.randrange(1, 4)
        levels = rng.sample([0, 1, 2, 3, 4, 5], k)
        prefs = []
        for l in levels:
            s = gen_core.pref_sentence(rng, sp, l)
            if s is not None:
                prefs.append(s)
        if prefs:
            sp.pref_sentences = prefs
            return sp
    raise RuntimeError('generator cannot produce a preference sentence')


def full_text(sp):
    return '\n'.join(sp.decls + [s.text for s in sp.sentences] + [s.text for s in sp.pref_sentences]) + '\n'


def classify(sp, r):
    much = [p for p in sp.pref_sentences if p.ast['phrase'] == 'as much as possible']
    if much:
        return 'optimum/as-much-as-possible'
    kinds = '+'.join(sorted({p.kind for p in sp.pref_sentences}))
    return f'optimum/{kinds}/{len(sp.pref_sentences)}-levels'


def main(tier):
    run = common.Run(PROP, tier)
    rng = random.Random(run.seed)
    run.coverage['rule'] = ('generated core specifications with 1-3 preferences at distinct priorities: aggregate / situation (parameters written with '
                            '"with id") / variable forms x {is minimized, is maximized, as little as possible, as much as possible} x {low, medium, '
                            'high, priority 0..5}; T-corr on the weak constraints; search: clingo optN vs the optimal models of the direct reading')
    run.lean(MODULES, THEOREMS, extra_modules=EXTRA)
    run.findings_witness(FINDING_MODULES)
    # priority numbers are themselves (samples of the live callback)
    ok, tables, msg = common.run_tgen()
    if ok:
        for k, v in tables.get('priority_number_samples', {}).items():
            run.count(('priority-number', k))
            if int(k) != v:
                run.broke('corr', 'priority_level_number is not the identity on its samples', {'input': k, 'level': v})
    n = 200 if tier == 'quick' else 3000
    specs = [gen(rng) for _ in range(n)]
    reqs = [('c04.compile', {'spec': sp.ast(), 'prefs': [a for p in sp.pref_sentences for a in p.asts], 'order': sp.order}) for sp in specs]
    answers = common.run_model(reqs)
    results = rt.pmap(_job, [(full_text(sp), sp.ast(), [a for p in sp.pref_sentences for a in p.asts], sp.order) for sp in specs], chunksize=2)
    stats = {'accepted': 0, 'rejected': 0, 'undecided': 0, 'optimal_models': 0}
    kinds = {}
    for sp, a, r in zip(specs, answers, results):
        text = full_text(sp)
        if a is None or 'err' in a:
            run.broke('corr', 'the driver cannot read a generated specification (generator / codec error)', {'cnl': text, 'answer': a})
            continue
        if 'rejected' in r:
            stats['rejected'] += 1
            # the generator writes specifications of the fragment only: a rejection leaves the specification without a program
            run.violation('rejected/' + sp.pref_sentences[-1].kind, f'a specification of the fragment is rejected by the compiler: {r["rejected"][:200]}',
                          {'cnl': full_text(sp), 'error': r['rejected']})
            continue
        stats['accepted'] += 1
        run.count(text)
        for p in sp.pref_sentences:
            k = f'{p.kind}/{p.ast["phrase"]}'
            kinds[k] = kinds.get(k, 0) + 1
        if 'rules' in r:
            model = set(c02.model_rule(x) for rules in a['rules'] for x in rules) | set(model_weak(w) for w in a['weak'])
            real = set(r['rules'])
            if model != real:
                bad = None
                for p, w in zip(sp.pref_sentences, a['weak']):
                    if model_weak(w) not in real:
                        bad = p
                        break
                run.broke('corr', 'Pref.weak / Core.compile vs the real compiler (statement sets differ)',
                          {'cnl': text, 'sentence': bad.text if bad else None, 'program': r['program'],
                           'model_only': sorted(model - real)[:3], 'real_only': sorted(real - model)[:3]})
        else:
            run.broke('corr', 'the real output cannot be read back', {'cnl': text, 'program': r['program'], 'error': r.get('rules_error')})
        if r.get('solver_error'):
            run.violation('solver-error', f'clingo rejects the compiled program: {r["solver_error"][:200]}', {'cnl': text, 'program': r['program']})
        elif r.get('undecided'):
            stats['undecided'] += 1
        else:
            stats['optimal_models'] += r['n_models']
            if 'diff' in r:
                run.violation(classify(sp, r), f'optimal answer sets differ from the optimal models of the direct reading '
                              f'({r["diff"]["optimal_answer_sets"]} vs {r["diff"]["optimal_reference_models"]})',
                              {'cnl': text, 'program': r['program'], **r['diff']})
    run.coverage['specifications'] = stats
    run.coverage['preference_forms'] = kinds
    for sp in specs[:3]:
        run.sample({'cnl': full_text(sp)[-400:]})
    run.assumptions += ["clingo's optimisation (sum of the weights of the distinct (weight, level, terms) tuples per level, higher level first) is "
                        'that of Asp/Opt.lean — validated per run by the search',
                        'preferences of one specification are given distinct priorities (the property says nothing about ties)']
    return run.finish()
