"""C17 — faulty specifications are rejected with the fault's name and line.

Lean: Props/C17.lean (the one-pass declared-before-use checker never accepts a specification with a faulty use and
reports the first faulty sentence and its fault; per-class lemmas; padding rota the cited line by the number of
lines prepended).
Tie (T-corr end-to-end, fault injection): valid generated specifications x fault class x position x 0..3 padding lines
(blank, // comments, /* */ comments) and a line break inside the faulty sentence: the real exception's kind, offending
name and line vs the model's verdict on the sentence skeletons.
Search: the same runs judge the property directly (accepted = silent; wrong / missing line or name = violation).
"""
from __future__ import annotations

import random
import re

from .. import common, rt, gen_wide

PROP = 'C17'
MODULES = ['Cnl2aspModel.Props.C17']
THEOREMS = ['C17_never_silent', 'C17_reports_first', 'C17_undeclared', 'C17_attribute', 'C17_label', 'C17_cardinality',
            'C17_line_shift']

EXTRA_DEFS = [
    ('A timeslot is a temporal concept expressed in minutes ranging from 07:30 AM to 08:00 AM with a length of 10 minutes.',
     ('timeslot', ['timeslot', 'value'])),
    ('A booking is identified by an id, and by a timeslot.', ('booking', ['id', 'timeslot'])),
    ('basket is a set.', None), ('basket contains 10, 20, 30.', None),
    ('rota is a list.', None), ('rota contains morning, afternoon, night.', None),
]
RANGES = [['timeslot', ['07:30 AM', '07:40 AM', '07:50 AM', '08:00 AM']]]
COLLECTIONS = [['basket', ['10', '20', '30']], ['rota', ['morning', 'afternoon', 'night']]]
CLASSES = ['undeclared_concept', 'missing_attribute', 'unknown_label', 'double_cardinality', 'temporal_range', 'set_value',
           'list_value', 'undeclared_in_relation', 'undeclared_set']


def build(rng):
    """a valid specification with the extra definitions, one injected fault; returns dict"""
    sp = gen_wide.gen_spec(rng, size=rng.randrange(1, 5))
    decls = [s for s in sp.sentences if s.kind in ('declaration',)]
    rest = [s for s in sp.sentences if s.kind not in ('declaration',)]
    cls = rng.choice(CLASSES)
    c = rng.choice(sp.concepts)
    art = gen_wide.article
    expect = None
    uses = []
    labels = []
    if cls == 'undeclared_concept':
        name = rng.choice(['zorg', 'blip', 'quux', 'gadget'])
        text = f'It is prohibited that there is {art(name)} {name} with id 1.'
        uses = [['concept', name]]
        expect = ('entity', name)
    elif cls == 'undeclared_in_relation':
        name = rng.choice(['zorg', 'blip', 'quux'])
        text = f'It is prohibited that there is {art(c.name)} {c.name} X, whenever there is {art(name)} {name} Y.'
        uses = [['concept', c.name], ['concept', name]]
        expect = ('entity', name)
    elif cls == 'missing_attribute':
        name = rng.choice(['altitude', 'colour', 'vintage'])
        text = f'It is prohibited that there is {art(c.name)} {c.name} with {name} 3.'
        uses = [['attribute', c.name, name]]
        expect = ('attribute', name)
    elif cls == 'unknown_label':
        name = rng.choice(['QQ', 'ZK', 'LBL', 'IT', 'WE', 'THEY', 'HE', 'I', 'YOU'])
        d = rng.choice(sp.concepts)
        pre = []
        if 'chosen' not in sp.verbs:
            rest.append(gen_wide.Sentence(f'Every {d.name} can be chosen.', 'choice', uses=[d.name], defines=['chosen']))
        text = f'It is prohibited that {name} is chosen, whenever there is {art(d.name)} {d.name} X.'
        uses = [['label', name]]
        labels = []
        expect = ('label', name)
    elif cls == 'double_cardinality':
        others = [x for x in sp.concepts if x is not c] or [c]
        # two DIFFERENT cardinalities: differing in both bounds, or sharing one bound (exactly 1 / at most 1; exactly 2 / at least 2; …)
        first, second = rng.choice([('exactly 1', 'at most 2'), ('exactly 1', 'at most 1'), ('exactly 2', 'at least 2'),
                                    ('between 1 and 3', 'at most 3'), ('at least 1', 'exactly 1'), ('at most 2', 'between 1 and 2'),
                                    ('between 1 and 3', 'at least 1'), ('exactly 3', 'between 2 and 3')])
        text = f'Every {c.name} can be {first} wired to {second} {others[0].name}.'
        uses = [['concept', c.name], ['cardinality', False]]
        expect = ('cardinality', 'multiple cardinality')
    elif cls == 'temporal_range':
        v = rng.choice(['07:45 AM', '08:10 AM', '07:20 AM', '09:00 PM'])
        text = f'It is prohibited that the booking B is {rng.choice(["after", "before"])} {v}.'
        uses = [['concept', 'booking'], ['temporal', 'timeslot', v]]
        expect = ('range', v)
    elif cls == 'set_value':
        v = rng.choice(['4', '1', '0', '2', '40', '100', '3'])
        text = f'It is prohibited that there is an element {v} in basket.'
        uses = [['member', 'basket', v]]
        expect = ('member', v)
    elif cls == 'list_value':
        v = rng.choice(['evening', 'dawn'])
        text = f'It is prohibited that there is the rota element after {v}.'
        uses = [['member', 'rota', v]]
        expect = ('member', v)
    else:  # undeclared_set
        text = 'crate contains 1, 2.'
        uses = [['member-decl', 'crate']]
        expect = ('entity', 'crate')
    fault = gen_wide.Sentence(text, 'fault')
    sentences = list(decls) + [gen_wide.Sentence(t, 'extra') for t, _ in EXTRA_DEFS]
    if cls == 'undeclared_set':
        sentences.append(fault)     # explicit definitions come first
        sentences += rest
        pos = len(decls) + len(EXTRA_DEFS)
    else:
        pos = rng.randrange(0, len(rest) + 1)
        rest.insert(pos, fault)
        pos += len(decls) + len(EXTRA_DEFS)
        sentences += rest
    # skeletons for the model
    skel = []
    env_concepts = []
    for i, s in enumerate(sentences):
        if i == pos:
            if cls == 'undeclared_set':
                skel.append({'declares': [], 'labels': [], 'uses': [['concept', 'crate']]})
            else:
                skel.append({'declares': [], 'labels': labels, 'uses': uses})
            continue
        declares = []
        if s.kind == 'declaration':
            cc = next(x for x in sp.concepts if x.name == s.defines[0])
            declares = [[cc.name, [col[1] for col in cc.flat_keys()] + list(cc.attrs)]]
        elif s.kind == 'extra':
            d = dict(EXTRA_DEFS)[s.text]
            if d:
                declares = [[d[0], d[1]]]
        skel.append({'declares': declares, 'labels': [], 'uses': []})
    return {'class': cls, 'sentences': [s.text for s in sentences], 'pos': pos, 'expect': expect, 'skel': skel}


def render(case, pad_lines, breakline):
    lines = list(case['sentences'])
    first = case['pos']
    span = 1
    if breakline and ', ' in lines[case['pos']]:
        a, b = lines[case['pos']].split(', ', 1)
        lines[case['pos']] = a + ',\n    ' + b
        span = 2
    text = ''.join(p + '\n' for p in pad_lines) + '\n'.join(lines) + '\n'
    # 1-based line range of the faulty sentence
    before = sum(l.count('\n') + 1 for l in lines[:case['pos']])
    start = len(pad_lines) + before + 1
    return text, (start, start + span - 1)


KIND_RE = [
    ('entity', re.compile(r'Entity "([^"]+)" not declared before its usage')),
    ('attribute', re.compile(r'do not contain attribute "([^"]+)"')),
    ('label', re.compile(r'Label "([^"]+)" not declared')),
    ('range', re.compile(r'Value "([^"]+)" out of "')),
    ('member', re.compile(r'Value "([^"]+)" not declared in (?:set|list)')),
    ('cardinality', re.compile(r'(multiple cardinality)')),
]


def classify(err):
    msg = err.get('msg') or ''
    for kind, rx in KIND_RE:
        m = rx.search(msg)
        if m:
            return kind, m.group(1)
    return 'other', msg[:80]


def _job(args):
    text = args
    return rt.compile_cnl(text)


def main(tier):
    run = common.Run(PROP, tier)
    rng = random.Random(run.seed)
    run.coverage['rule'] = ('valid generated specifications (plus a temporal concept, a set and a list) with ONE injected fault of 9 classes at a '
                            'random position, rendered with 0..3 padding lines (blank / // / block comments) and optionally a line break inside the '
                            'faulty sentence; non-trivial = distinct (specification, class, position, padding)')
    run.lean(MODULES, THEOREMS, extra_modules=['Cnl2aspModel.Compiler.Scope'])
    n = 160 if tier == 'quick' else 2000
    cases = []
    for _ in range(n):
        case = build(rng)
        k = rng.randrange(0, 4)
        pads = [rng.choice(['', '// a comment about nodes.', '   ', '/* block comment */', '// It is prohibited that X.']) for _ in range(k)]
        brk = rng.random() < 0.3
        text, span = render(case, pads, brk)
        base_text, base_span = render(case, [], False)
        cases.append((case, pads, brk, text, span, base_text, base_span))
    texts = []
    for c in cases:
        texts += [c[3], c[5]]
    res = rt.pmap(_job, texts, chunksize=4)
    reqs = [('c17.check', {'concepts': [], 'ranges': RANGES, 'collections': COLLECTIONS, 'sentences': c[0]['skel']}) for c in cases]
    answers = common.run_model(reqs)
    dist = {}
    for i, (case, pads, brk, text, span, base_text, base_span) in enumerate(cases):
        r, rb = res[2 * i], res[2 * i + 1]
        cls = case['class']
        dist[cls] = dist.get(cls, 0) + 1
        run.count((cls, text))
        replay = {'cnl': text, 'fault_class': cls, 'faulty_sentence': case['sentences'][case['pos']], 'expected_lines': span,
                  'expected': case['expect'], 'observed': r[1] if r[0] == 'err' else 'accepted'}
        if r[0] == 'ok':
            run.violation(f'silent/{cls}', f'the faulty sentence "{case["sentences"][case["pos"]]}" is silently accepted', replay)
            continue
        err = r[1]
        kind, name = classify(err)
        ekind, ename = case['expect']
        if err.get('line') is None:
            run.violation(f'no-line/{cls}', f'the error cites no line: {err.get("msg")}', replay)
        elif not (span[0] <= err['line'] <= span[1]):
            run.violation(f'wrong-line/{cls}', f'the error cites line {err["line"]}, the faulty sentence spans lines {span}', replay)
        if ename not in (err.get('msg') or ''):
            run.violation(f'no-name/{cls}', f'the error does not name {ename!r}: {err.get("msg")}', replay)
        # padding rota the cited line by exactly the padding (C17_line_shift on the real code)
        if rb[0] == 'err' and rb[1].get('line') is not None and err.get('line') is not None and not brk:
            if err['line'] - rb[1]['line'] != len(pads):
                run.violation(f'shift/{cls}', f'{len(pads)} padding lines shift the cited line by {err["line"] - rb[1]["line"]}', replay)
        # model correspondence: same sentence, same kind of fault
        a = answers[i]
        if a is None:
            run.broke('corr', 'the model accepts a specification the compiler rejects', replay)
        else:
            mk = a['fault'][0]
            if a['index'] != case['pos']:
                run.broke('corr', 'the model reports another sentence than the injected one (generator / skeleton error)', dict(replay, model=a))
            elif kind != 'other' and mk != kind and not (cls == 'undeclared_set'):
                run.broke('corr', 'fault kind: Scope.check vs the real exception', dict(replay, model=a, real_kind=kind))
    run.coverage['fault_classes'] = dist
    for c in cases[:3]:
        run.sample({'class': c[0]['class'], 'cnl': c[3][-300:]})
    run.assumptions += ["Lark's position propagation (meta.line = line of the first token of the sentence-level rule) is trusted; cited lines are "
                        'checked to lie inside the faulty sentence',
                        'the skeleton of each generated sentence (what it declares / uses) is known by construction of the generator']
    return run.finish()
