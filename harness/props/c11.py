"""C11 — temporal block headers route rules to the right program part only.

Lean: Props/C11.lean (header table; routing theorem for every document and every way of splitting blocks;
header-free rule sequence).
Tie: T-gen (PROBLEM_IDENTIFIER table, regenerated) + T-corr end-to-end: documents with 0..6 headers in any
order and repetition, sentences before the first header, constants and implicit definitions inside blocks
that later blocks depend on; the real output, cut into lines, vs the model's `emit (run events)`.
Search: every rule line carries a marker of its sentence; its directive must be the last header before the
sentence; the header-free compilation must give the same rule sequence.
"""
from __future__ import annotations

import random
import re

from .. import common, rt

PROP = 'C11'
MODULES = ['Cnl2aspModel.Props.C11']
THEOREMS = ['C11_names', 'C11_headers_total', 'C11_route', 'C11_splits_invisible', 'C11_strip']

EXPECTED = {
    'The following propositions apply in the initial state:': 'initial',
    'The following propositions always apply except in the initial state:': 'dynamic',
    'The following propositions always apply:': 'always',
    'The following propositions apply in the final state:': 'final',
}


def make_doc(rng, headers, tier):
    """Returns (list of items, declared text). item: ('h', phrase) | ('s', text, marker-or-None, nrules)"""
    items = []
    verbs = []
    concepts = ['node']
    k = [0]

    def fresh(prefix):
        k[0] += 1
        return f'{prefix}{k[0]}'

    def sentence(pre_header):
        r = rng.random()
        if r < 0.18:
            c = fresh('kind')
            concepts.append(c)
            return ('s', f'A {c} goes from 1 to {rng.randrange(2, 4)}.', c + '(', 1)
        if r < 0.28:
            c = fresh('limit')
            return ('s', f'{c} is a constant equal to {rng.randrange(1, 9)}.', None, 0)
        if r < 0.55 or not verbs:
            v = fresh('pick')
            verbs.append(v)
            subj = rng.choice(concepts)
            return ('s', f'Every {subj} can be {v}.', v + '(', 1)
        if r < 0.7:
            v = rng.choice(verbs)
            n = rng.randrange(100, 999) * 10 + k[0] % 10
            k[0] += 1
            return ('s', f'It is prohibited that there is a node with id {n}{k[0]}.', f'node({n}{k[0]})', 1)
        if r < 0.85:
            v = rng.choice(verbs)
            w = fresh('mark')
            return ('s', f'Whenever there is a node X, then X can be {w}.', w + '(', 1)
        v = fresh('keep')
        verbs.append(v)
        vals = rng.sample([1, 2, 3], 2)
        return ('s', f'Node {vals[0]} is {v} to node X, where X is one of {vals[0]}, {vals[1]}.', v + '_to(', 2)

    n_pre = rng.choice([0, 0, 1, 2, 3])
    for _ in range(n_pre):
        items.append(sentence(True))
    for h in headers:
        items.append(('h', h))
        for _ in range(rng.choice([1, 1, 2, 3, 4])):
            items.append(sentence(False))
    if not headers and not items:
        items.append(sentence(True))
    return items


def render(items, with_headers=True):
    out = ['A node is identified by an id.', 'A node goes from 1 to 3.']
    for it in items:
        if it[0] == 'h':
            if with_headers:
                out.append(it[1])
        else:
            out.append(it[1])
    return '\n'.join(out) + '\n'


def output_lines(out):
    """real output -> list of ('d', name) | ('r', text)"""
    lines = []
    for ln in out.split('\n'):
        ln = ln.strip()
        if not ln or ln.startswith('#const'):
            continue
        m = re.fullmatch(r'#program (\w+)\.', ln)
        if m:
            lines.append(('d', m.group(1)))
        else:
            lines.append(('r', ln))
    return lines


def _job(doc):
    items = doc
    full = rt.compile_cnl(render(items, True))
    bare = rt.compile_cnl(render(items, False))
    return (items, full, bare)


# ---------------------------------------------------------------------------
# header insertion into richer documents: a header between two sentences must not change either sentence's rules
# ---------------------------------------------------------------------------
PAIR_DECL = 'A disk is identified by an id.\nA peg is identified by an id.\nA disk goes from 0 to 2.\nA peg goes from 1 to 2.\n'
PAIR_POOL = [
    'Whenever there is a disk D, then D can be moved to a peg.',
    'Whenever there is a disk D, then D can be kept, where D is less than 3.',
    'It is required that the number of disks that are moved to a peg is equal to 1.',
    'It is prohibited that the number of disk D that are moved to peg P is more than 2, whenever there is a peg P.',
    'It is prohibited that the number of pegs where a disk D is moved to is more than 1, whenever there is a disk D.',
    'It is required that the number of disks D that are moved to peg 1 is at least 1, where D is greater than 0.',
    'Every disk D must be on peg 1, where D is greater than 0.',
    'It is prohibited that disk D is moved to peg P, where D is greater than P.',
    'It is prohibited that X is more than 1, whenever there is a disk with id X, whenever there is a peg with id X.',
    'It is required that the sum between D, and P is less than 9, whenever there is a disk with id D, whenever there is a peg with id P.',
    'It is prohibited that there is a disk with id D, whenever there is not a peg with id D.',
]


def pair_docs(rng, tier, phrases):
    """(sentences, header positions): every ordered pair of the pool with a header between them (the first sentence of a block
    right after the last of another), plus wide-generator specifications with 1..3 headers at random sentence boundaries"""
    docs = []
    for a in PAIR_POOL:
        for b in PAIR_POOL:
            if a != b:
                h0 = rng.choice(phrases)
                docs.append((PAIR_DECL, [PAIR_POOL[0], a, b] if PAIR_POOL[0] not in (a, b) else [a, b], None, rng.choice(phrases), h0))
    return docs


def _pair_job(doc):
    decl, sents, _, h, h0 = doc
    k = len(sents) - 1          # the header goes between the last two sentences
    with_h = decl + h0 + '\n' + '\n'.join(sents[:k]) + '\n' + h + '\n' + '\n'.join(sents[k:]) + '\n'
    bare = decl + '\n'.join(sents) + '\n'
    return (doc, with_h, rt.compile_cnl(with_h), rt.compile_cnl(bare))


def _wide_job(args):
    text_h, text_bare = args
    return (text_h, rt.compile_cnl(text_h), rt.compile_cnl(text_bare))


def main(tier):
    run = common.Run(PROP, tier)
    rng = random.Random(run.seed)
    run.coverage['rule'] = ('documents = declarations + 0..3 sentences before any header + 0..6 headers (any order, repetitions) each followed '
                            'by 1..4 sentences (ranges, constants, choices, constraints, enumerative definitions) that carry unique markers; '
                            'non-trivial = distinct header layout with at least one header')
    ok, tables, msg = common.run_tgen()
    if not ok:
        run.broke('tgen', 'extract_tables.py', msg)
        return run.finish()
    run.lean(MODULES, THEOREMS, extra_modules=['Cnl2aspModel.Compiler.Route'])
    phrases = tables['terminals']['PROBLEM_IDENTIFIER']
    if sorted(phrases) != sorted(EXPECTED):
        run.note(f'header phrases of the grammar changed: {phrases}')
    n_docs = 120 if tier == 'quick' else 1500
    docs = []
    # every ordered pair and some longer layouts exhaustively, then random layouts up to 6 headers
    layouts = [[]] + [[a] for a in phrases] + [[a, b] for a in phrases for b in phrases]
    while len(layouts) < n_docs:
        layouts.append([rng.choice(phrases) for _ in range(rng.randrange(1, 7))])
    for lay in layouts[:n_docs]:
        docs.append(make_doc(rng, lay, tier))
    results = rt.pmap(_job, docs, chunksize=2)
    reqs = []
    checked = []
    for items, full, bare in results:
        lay = tuple(it[1] for it in items if it[0] == 'h')
        run.count(('layout', lay, len(items)), nontrivial=bool(lay))
        replay = {'cnl': render(items, True), 'output': full[1] if full[0] == 'ok' else str(full[1])}
        if full[0] != 'ok' or bare[0] != 'ok':
            if (full[0] == 'ok') != (bare[0] == 'ok'):
                run.violation('accept/headers-change-acceptance', f'with headers: {full[0]}, without: {bare[0]}', replay)
            else:
                run.broke('corr', 'generated document rejected by the compiler', str(full[1])[:300])
            continue
        lines = output_lines(full[1])
        bare_lines = output_lines(bare[1])
        # (1) header-free compilation has the same rule sequence
        if [l for l in lines if l[0] == 'r'] != bare_lines:
            run.violation('strip/rules-differ', 'removing the headers changes the rules', dict(replay, header_free=bare[1]))
        if any(l[0] == 'd' for l in bare_lines):
            run.violation('strip/directive-without-header', 'a directive without any header', dict(replay, header_free=bare[1]))
        # (2) every rule under the part of the last header before its sentence; sentence order kept
        expected = []
        cur = None
        for it in items:
            if it[0] == 'h':
                cur = EXPECTED.get(it[1], tables['problem_identifier'].get(it[1]))
            elif it[2] is not None:
                expected += [(cur, it[2])] * it[3]
        got = []
        cur = None
        for l in lines:
            if l[0] == 'd':
                cur = l[1]
            elif not (l[1].startswith('node(1..3)')):
                got.append((cur, l[1]))
        bad = None
        if len(got) != len(expected):
            bad = f'{len(got)} rules emitted, {len(expected)} expected'
        else:
            for (gt, gl), (et, em) in zip(got, expected):
                if em not in gl:
                    bad = f'rule {gl!r} where the rule of marker {em!r} was expected (order)'
                    break
                if gt != et:
                    bad = f'rule {gl!r} stands under part {gt!r}, its sentence is under {et!r}'
                    break
        if bad:
            firsth = next((i for i, it in enumerate(items) if it[0] == 'h'), None)
            key = 'route/' + ('pre-header' if 'None' in bad else 'block')
            run.violation(key, bad, replay)
        # model correspondence: events with the real per-sentence rule lines
        evs = []
        rule_lines = [l[1] for l in lines if l[0] == 'r']
        pos = 1 if rule_lines and rule_lines[0].startswith('node(1..3)') else 0
        evs.append(['s', rule_lines[:pos]])
        okc = True
        for it in items:
            if it[0] == 'h':
                evs.append(['h', it[1]])
            else:
                n = it[3]
                evs.append(['s', rule_lines[pos:pos + n]])
                pos += n
        reqs.append(('c11.route', {'events': evs}))
        checked.append((items, lines, replay))
    answers = common.run_model(reqs)
    for (items, lines, replay), ans in zip(checked, answers):
        model_lines = [tuple(x) for x in ans['lines']]

        def canon(ls):
            # where Lark ends a `specification` node is ambiguous, and a part without rules may or may not be
            # pushed: compare modulo parts that contain no rule (they have no effect on any rule's part)
            out = []
            for i, l in enumerate(ls):
                if l[0] == 'd' and (i + 1 == len(ls) or ls[i + 1][0] == 'd'):
                    continue
                out.append(l)
            return out
        if canon(model_lines) != canon(lines):
            run.broke('corr', 'emit (run events) vs real output lines', {'model': model_lines[:12], 'real': lines[:12], 'cnl': replay['cnl']})
            break
    # ---- header insertion into richer documents ----------------------------------------------
    from .. import gen_wide
    n_pairs = 0
    for doc, with_h, full, bare in rt.pmap(_pair_job, pair_docs(rng, tier, phrases), chunksize=2):
        run.count(('pair', tuple(doc[1]), doc[3], doc[4]))
        if full[0] != 'ok' or bare[0] != 'ok':
            if (full[0] == 'ok') != (bare[0] == 'ok'):
                run.violation('accept/headers-change-acceptance/pair', f'with headers: {full[0]}, without: {bare[0]}', {'cnl': with_h})
            continue
        n_pairs += 1
        if [l for l in output_lines(full[1]) if l[0] == 'r'] != output_lines(bare[1]):
            run.violation('strip/rules-differ/pair', 'a header between two sentences changes the rules of one of them',
                          {'cnl': with_h, 'output': full[1], 'header_free': bare[1]})
    wide = []
    for _ in range(40 if tier == 'quick' else 400):
        sp = gen_wide.gen_spec(rng)
        head = [x.text for x in sp.sentences if x.kind in ('declaration', 'constant')]
        rest = [x.text for x in sp.sentences if x.kind not in ('declaration', 'constant')]
        if len(rest) < 2:
            continue
        cuts = sorted(rng.sample(range(0, len(rest)), min(len(rest), rng.randrange(1, 4))))
        out = list(head)
        for i, t in enumerate(rest):
            if i in cuts:
                out.append(rng.choice(phrases))
            out.append(t)
        wide.append(('\n'.join(out) + '\n', '\n'.join(head + rest) + '\n'))
    n_wide = 0
    for text_h, full, bare in rt.pmap(_wide_job, wide, chunksize=2):
        run.count(('wide', text_h))
        if full[0] != 'ok' or bare[0] != 'ok':
            if (full[0] == 'ok') != (bare[0] == 'ok'):
                run.violation('accept/headers-change-acceptance/wide', f'with headers: {full[0]} {str(full[1])[:150]}, without: {bare[0]} {str(bare[1])[:150]}', {'cnl': text_h})
            continue
        n_wide += 1
        if [rt.norm_uuid(l[1]) for l in output_lines(full[1]) if l[0] == 'r'] != [rt.norm_uuid(l[1]) for l in output_lines(bare[1])]:
            run.violation('strip/rules-differ/wide', 'headers inserted at sentence boundaries change the rules',
                          {'cnl': text_h, 'output': full[1], 'header_free': bare[1]})
    run.coverage['header_insertion'] = {'sentence_pairs': n_pairs, 'wide_specifications': n_wide}
    for items, full, bare in results[20:23]:
        run.sample({'cnl': render(items, True), 'output': full[1] if full[0] == 'ok' else str(full[1])})
    run.assumptions += ['per-sentence rule counts of the generator templates (1 rule per choice/constraint/range, 2 for a two-valued '
                        '"where X is one of"); checked against the real output length on every document']
    return run.finish()
