"""C13 — the reported symbol table matches the predicates actually emitted.

Lean: Props/C13.lean (atom arity = reported flat arity for every signature shape; the table is append-only in
names; first declaration wins; unmentioned concepts keep their shape).
Tie (T-corr unit): sequences of real SignatureManager.add_signature calls on generated entities (forward
references, shared names, foreign keys) and the real get_symbols conversion vs the model table and arities.
Search: compile() in both printing modes + get_symbols() (after an unrelated earlier compilation in the same
process); every atom occurrence parsed with clingo.ast: one arity per predicate, equal to the reported one,
every predicate other than x_… reported.
"""
from __future__ import annotations

import random
import re

from .. import common, rt, aspast, corpus, gen_wide, harvest

PROP = 'C13'
MODULES = ['Cnl2aspModel.Props.C13']
THEOREMS = ['C13_emit_arity', 'C13_names_append', 'C13_first_declaration_wins', 'C13_stable_arity_unmentioned', 'C13_fn_arity']

POOL = ['node', 'room', 'seat', 'color', 'movie', 'waiter', 'edge', 'floor']
ANAMES = ['id', 'name', 'first', 'weight', 'floor', 'room', 'color']


def rand_entities(rng):
    n = rng.randrange(1, 6)
    ents = []
    for _ in range(n):
        name = rng.choice(POOL)

        def attr():
            nm = rng.choice(ANAMES + POOL)
            depth = rng.choice([1, 1, 1, 2, 0])
            origin = [name] if depth == 1 else ([rng.choice(POOL), rng.choice(POOL)] if depth == 2 else [])
            if depth == 1 and rng.random() < 0.3:
                origin = [rng.choice(POOL)]
            return {'name': nm, 'origin': origin}
        keys = [attr() for _ in range(rng.choice([0, 1, 1, 2]))]
        attrs = [attr() for _ in range(rng.choice([0, 0, 1, 2, 3]))]
        ents.append({'name': name, 'keys': keys, 'attrs': attrs})
    return ents


def real_table(ents, only_seen=False):
    from cnl2asp.specification.signaturemanager import SignatureManager
    from cnl2asp.specification.entity_component import EntityComponent
    from cnl2asp.specification.attribute_component import AttributeComponent, ValueComponent, AttributeOrigin
    from cnl2asp.cnl2asp import Cnl2asp

    def mk_origin(chain):
        o = None
        for nm in reversed(chain):
            o = AttributeOrigin(nm, o)
        return o

    def mk_attr(a):
        return AttributeComponent(a['name'], ValueComponent('_'), mk_origin(a['origin']))
    SignatureManager.signatures = []
    try:
        seen = []
        for e in ents:
            ent = EntityComponent(e['name'], '', [mk_attr(a) for a in e['keys']], [mk_attr(a) for a in e['attrs']])
            # what the real object holds (the constructor gives origin-less attributes the entity as origin)
            seen.append({'name': ent.get_name(),
                         'keys': [{'name': a.get_name(), 'origin': harvest.origin_chain(a.origin)} for a in ent.keys],
                         'attrs': [{'name': a.get_name(), 'origin': harvest.origin_chain(a.origin)} for a in ent.attributes]})
            SignatureManager.add_signature(ent)
        if only_seen:
            return seen
        out = []
        c = Cnl2asp('')
        for s in SignatureManager.signatures:
            sym = c._Cnl2asp__convert_signature(s)
            out.append({'name': s.get_name(),
                        'keys': [{'name': a.get_name(), 'origin': harvest.origin_chain(a.origin)} for a in s.keys],
                        'attrs': [{'name': a.get_name(), 'origin': harvest.origin_chain(a.origin)} for a in s.attributes],
                        'flat': sym.get_arity(False), 'fn': sym.get_arity(True), 'atom': len(s.keys + s.attributes)})
        return out
    finally:
        SignatureManager.signatures = []


def _unit_job(ents):
    names = sorted({e['name'] for e in ents} | {a['name'] for e in ents for a in e['keys'] + e['attrs']}
                   | {o for e in ents for a in e['keys'] + e['attrs'] for o in a['origin']})
    pairs = name_pairs(names)
    if pairs is None:
        return (None, None, None)
    return (pairs, real_table(ents, only_seen=True), real_table(ents))


def name_pairs(names):
    from cnl2asp.specification.name_component import NameComponent
    pairs = []
    for x in names:
        for y in names:
            if x != y:
                e1 = NameComponent(x) == y
                e2 = NameComponent(x) == NameComponent(y)
                if e1 != e2:
                    return None
                if e1:
                    pairs.append([x, y])
    return pairs


_ATOM_IN_TEXT = re.compile(r"(?<![A-Za-z0-9_#&])('?_{0,2}[a-z][A-Za-z0-9_]*'?)\(")


def theory_atoms(text):
    """(name, arity) of atoms inside the text of a theory atom (balanced parentheses, top-level commas)"""
    out = []
    for m in _ATOM_IN_TEXT.finditer(text):
        name = m.group(1).strip("'").lstrip('_')
        i = m.end()
        depth = 1
        commas = 0
        inq = False
        empty = True
        while i < len(text) and depth > 0:
            c = text[i]
            if c == '"':
                inq = not inq
            elif not inq:
                if c == '(':
                    depth += 1
                elif c == ')':
                    depth -= 1
                elif c == ',' and depth == 1:
                    commas += 1
            if depth > 0 and not c.isspace():
                empty = False
            i += 1
        out.append((name, 0 if empty else commas + 1))
    return out


def pred_name(n):
    """strip telingo's primes and the initially/finally underscores"""
    n = n.strip("'")
    if n.startswith('__'):
        return n[2:]
    if n.startswith('_'):
        return n[1:]
    return n


def occurrences(program):
    """{predicate: set(arity)} over every atom occurrence, incl. theory atoms; top-level atoms only
    (function terms inside arguments are not predicates)"""
    occ = {}
    for s in aspast.parse(program):
        for at in aspast.stmt_atoms(s):
            occ.setdefault(pred_name(at[2]), set()).add(len(at[3]))
        for b in s.get('body', []):
            if b[0] == 'theory':
                # only the outermost atoms of the formula are predicates
                txt = b[3]
                spans = []
                for m in _ATOM_IN_TEXT.finditer(txt):
                    if any(a <= m.start() < z for a, z in spans):
                        continue
                    i = m.end()
                    depth = 1
                    while i < len(txt) and depth > 0:
                        depth += {'(': 1, ')': -1}.get(txt[i], 0)
                        i += 1
                    spans.append((m.start(), i))
                    for (nm, ar) in theory_atoms(txt[m.start():i])[:1]:
                        occ.setdefault(nm, set()).add(ar)
    return occ


def shape_specs(rng):
    """declarations with unusual key layouts: the same key concept twice (adjacent and not), a concept both as key and as plain
    attribute, a concept used before its key concept is defined, a one-value definition of a concept with several attributes"""
    out = []
    nouns = ['team', 'round', 'node', 'nurse', 'shift', 'match', 'link', 'stage', 'player', 'court']
    for _ in range(6):
        a, b, m = rng.sample(nouns, 3)
        base = f'A {a} is identified by an id.\nA {b} is identified by an id.\n'
        dom = f'A {a} goes from 1 to 3.\nA {b} goes from 1 to 2.\n'
        for decl, fact, cons in (
                (f'A {m} is identified by a {a}, by a {b}, and by a {a}.', f'There is a {m} with {a} 1, with {b} 1, with {a} 3.',
                 f'It is prohibited that there is a {m} with {a} X, with {b} R, with {a} X.'),
                (f'A {m} is identified by a {a}, by a {a}, and by a {b}.', f'There is a {m} with {a} 1, with {a} 2, with {b} 1.',
                 f'It is prohibited that there is a {m} with {a} X, with {a} X, with {b} R.'),
                (f'A {m} is identified by a {a}, and has a {a}.', f'There is a {m} with {a} 1, with {a} 2.',
                 f'It is prohibited that there is a {m} with {a} X, with {a} X.'),
                (f'A {m} is identified by a {a}, and by a {b}, and has a {a}, and a size.', f'There is a {m} with {a} 1, with {b} 2, with {a} 3, with size 4.',
                 f'It is prohibited that there is a {m} with {b} R, with size R.')):
            out.append(base + decl + '\n' + dom + fact + '\n' + cons + '\n')
        # used in a fact before the key concept gets its (implicit) definition
        out.append(f'A {m} is identified by a {a}, and by an id.\nThere is a {m} with {a} 1, with id 2.\nA {a} goes from 1 to 3.\n'
                   f'It is prohibited that there is a {m} with id 5.\n')
        out.append(f'A {m} is identified by an id, and has a {a}.\nThere is a {m} with id 2, with {a} 1.\nA {a} goes from 1 to 3.\n'
                   f'It is prohibited that there is a {m} with id 5.\n')
    # a single value given for a concept with two attributes
    for c, k, at in (('person', 'name', 'age'), ('city', 'name', 'size')):
        out.append(f'A {c} is identified by a {k}, and has a {at}.\njohn is a {c}.\n'
                   f'It is prohibited that there is a {c} with {k} X, with {at} Y, where Y is less than 3.\n')
    return out


def _spec_job(args):
    text, dirty = args
    from cnl2asp.cnl2asp import Cnl2asp
    rt.enable_lark_cache()
    res = {'text': text}
    # an unrelated earlier compilation in the same process (the table it leaves must not leak)
    if dirty:
        rt.compile_cnl(dirty)
        from cnl2asp.specification.signaturemanager import SignatureManager
        # compile_cnl resets globals before compiling; re-create the leftover table explicitly
        try:
            Cnl2asp(dirty).compile()
        except Exception:  # noqa
            pass
    try:
        import contextlib, io
        with contextlib.redirect_stdout(io.StringIO()):
            syms = Cnl2asp(text).get_symbols()
        res['symbols'] = [(s.predicate, s.get_arity(False), s.get_arity(True)) for s in syms]
    except Exception as e:  # noqa
        res['symbols_error'] = rt.err_class(e)
    res['flat'] = rt.compile_cnl(text, fn=False)
    res['fn'] = rt.compile_cnl(text, fn=True)
    rt.reset_globals()
    return res


def main(tier):
    run = common.Run(PROP, tier)
    rng = random.Random(run.seed)
    run.coverage['rule'] = ('unit: random sequences of entity declarations (forward references, shared names, 0..2 keys, 0..3 attributes, '
                            'origins up to 2 levels) through the real add_signature + symbol conversion vs the model; search: corpus + '
                            'wide-generator specifications compiled in both modes after an unrelated compilation, every atom occurrence vs '
                            'get_symbols(); non-trivial = table with a rewrite / program with >= 3 predicates')
    run.lean(MODULES, THEOREMS, extra_modules=['Cnl2aspModel.Compiler.Signatures', 'Cnl2aspModel.Compiler.SignaturesFn'])
    # ---- unit -----------------------------------------------------------------
    n_unit = 500 if tier == 'quick' else 6000
    raw = [rand_entities(rng) for _ in range(n_unit)]
    prepared = rt.pmap(_unit_job, raw, chunksize=16)
    reqs, cases = [], []
    skipped = 0
    for ents, (pairs, seen, real) in zip(raw, prepared):
        if pairs is None:
            skipped += 1
            continue
        cases.append((ents, real))
        reqs.append(('c13.table', {'entities': seen, 'eqpairs': pairs}))
    answers = common.run_model(reqs)
    nrew = 0
    n_fn_rows = n_fn_hyp = 0
    pairs_of = {id(e): p for e, (p, _, _) in zip(raw, prepared)}
    for (ents, real), ans in zip(cases, answers):
        mt = ans['table']
        rewritten = any(r['atom'] != len(e['keys']) + len(e['attrs']) for r in real for e in ents if e['name'] == r['name'])
        nrew += rewritten
        run.count(repr(ents), nontrivial=len(ents) > 1)
        model_cmp = [{k: m[k] for k in ('name', 'keys', 'attrs', 'flat', 'fn', 'atom')} for m in mt]
        if model_cmp != real:
            run.broke('corr', 'addSignature/arity model vs SignatureManager + get_symbols conversion',
                      {'entities': ents, 'real': real, 'model': model_cmp})
            break
        # C13_fn_arity on the real table: where its hypothesis holds (and names are compared by string equality) the printer's
        # top-level argument count is the reported nested arity
        for m in mt:
            n_fn_rows += 1
            if m.get('ownOk'):
                n_fn_hyp += 1
                if not pairs_of.get(id(ents)) and m['printedFn'] != m['fn']:
                    run.broke('proof', 'C13_fn_arity evaluated on a real table', {'entities': ents, 'row': m})
    run.coverage['unit_tables'] = len(cases)
    run.coverage['unit_tables_with_rewrite'] = nrew
    run.coverage['signatures_under_C13_fn_arity_hypothesis'] = f'{n_fn_hyp}/{n_fn_rows}'
    run.coverage['skipped_inexpressible_name_relation'] = skipped
    # ---- search ------------------------------------------------------------------
    texts = [t for _, t in corpus.corpus()]
    n_wide = 150 if tier == 'quick' else 1500
    texts += [gen_wide.gen_spec(rng).text() for _ in range(n_wide)]
    # the rejected stream: if a faulty specification is (wrongly) accepted its atoms are checked like any other
    texts += [gen_wide.gen_faulty(rng)[0].text() for _ in range(n_wide // 3)]
    shapes = shape_specs(rng)
    texts += shapes
    dirty = ['A node is identified by an id, and by a name, and has a weight.\nA movie is identified by a node.\n'
             'There is a node with id 1, with name 2, with weight 3.\n',
             'A color is identified by an id, and has a level, and a rank.\nA room is identified by a color, and by a floor.\n', None]
    jobs = [(t, dirty[i % len(dirty)]) for i, t in enumerate(texts)]
    results = rt.pmap(_spec_job, jobs, chunksize=2)
    for r in results:
        if r['flat'][0] != 'ok' or 'symbols' not in r:
            if r['flat'][0] == 'ok' and 'symbols' not in r:
                run.violation('symbols/raises', f'compile succeeds but get_symbols raises {r.get("symbols_error")}', {'cnl': r['text']})
            continue
        run.coverage['evaluations'] += 1
        reported = {}
        for (p, fa, na) in r['symbols']:
            reported.setdefault(p, []).append((fa, na))
        for mode, idx in (('flat', 0), ('fn', 1)):
            if r[mode][0] != 'ok':
                continue
            try:
                occ = occurrences(r[mode][1])
            except Exception as e:  # noqa
                run.violation(f'parse/{mode}', f'output not parsable: {e}', {'cnl': r['text'], 'output': r[mode][1][:500]})
                continue
            if len(occ) >= 3:
                run._distinct.add(('prog', r['text'], mode))
            for pred, arities in occ.items():
                if pred.startswith('x_'):
                    continue
                replay = {'cnl': r['text'], 'mode': mode, 'output': r[mode][1], 'symbols': r['symbols']}
                # the failing construct, for the known-findings file: a one-value definition ('john is a person.') of a concept
                # that has several attributes prints a fact of arity 1
                one_value = bool(re.search(r'(?m)^\S+ is an? ' + re.escape(pred.replace('_', ' ')) + r'\.$', r['text'])) and 1 in arities \
                    and re.search(r'(?m)^' + re.escape(pred) + r'\([^,()]*\)\.$', r[mode][1]) is not None
                if one_value and len(arities) > 1:
                    run.violation(f'{mode}/one-value-definition', f'predicate {pred} occurs with arities {sorted(arities)}: the one-value '
                                  f'definition prints a fact of arity 1', replay)
                    continue
                if len(arities) > 1:
                    run.violation(f'{mode}/mixed-arity', f'predicate {pred} occurs with arities {sorted(arities)}', replay)
                if pred not in reported:
                    run.violation(f'{mode}/unreported', f'predicate {pred} is emitted but not reported by get_symbols', replay)
                    continue
                want = {x[idx] for x in reported[pred]}
                if not arities <= want:
                    run.violation(f'{mode}/arity-mismatch',
                                  f'predicate {pred} emitted with arity {sorted(arities)}, reported {sorted(want)}', replay)
    for r in results[:2]:
        if 'symbols' in r:
            run.sample({'cnl': r['text'][:300], 'symbols': r['symbols'][:6]})
    run.sample({'unit_entities': cases[0][0], 'real_table': cases[0][1]})
    run.assumptions += ['NameComponent.__eq__ (inflect) is a parameter of the model',
                        'function-mode arity of an emitted atom = number of its top-level arguments']
    return run.finish()
