"""C12 — compilation is a pure function of the text and the options.

Lean: Props/C12.lean (history independence of every API call for ANY front end, from the reset structure of the
entry points; repetition; the table a call leaves behind is a function of the call alone).
Tie (T-corr layer, monitors): every real API call of every history runs in a fresh interpreter with snapshots of the
process-wide components before and after it: module-level objects and shared default arguments never change;
check_syntax / cnl_to_json are blind to the auto-link flag (the model's frame condition); the table a call leaves
behind equals the one the same call leaves in a fresh process.
Search: histories (0..6 earlier calls: compile with/without auto-linking and function printing, get_symbols,
check_syntax, cnl_to_json, on accepted and rejected texts, several objects constructed before any is used, calls
repeated on one object) followed by a probe; the probe's result vs the same call alone in a fresh process; different
PYTHONHASHSEED values.
"""
from __future__ import annotations

import json
import os
import random
import subprocess

from .. import common, rt, corpus, gen_wide

PROP = 'C12'
MODULES = ['Cnl2aspModel.Props.C12']
THEOREMS = ['C12_history', 'C12_repeat', 'C12_state_after', 'step_flag', 'run_flag']
RUNNER = os.path.join(common.VERIF, 'harness', 'history_runner.py')


def run_history(args):
    calls, hashseed, monitor = args
    env = dict(os.environ, PYTHONHASHSEED=str(hashseed), VERIF_REPO=common.REPO, PYTHONPATH=os.path.join(common.REPO, 'src'))
    p = subprocess.run([common.PY, RUNNER], input=json.dumps({'calls': calls, 'monitor': monitor}), capture_output=True,
                       text=True, env=env, timeout=600)
    if p.returncode != 0:
        return {'crash': p.stderr[-500:]}
    return {'results': json.loads(p.stdout)}


def text_pool(rng, tier):
    acc, rej = [], []
    for _ in range(14 if tier == 'quick' else 60):
        acc.append(gen_wide.gen_spec(rng, size=rng.randrange(1, 4)).text())
    # concepts re-declared with another shape across texts (leaks show up as wrong arities)
    acc += ['A node is identified by an id.\nA node goes from 1 to 3.\nEvery node can be chosen.\n',
            'A node is identified by an id, and by a name, and has a weight.\nIt is prohibited that there is a node with id 1.\n',
            'A movie is identified by an id.\nThere is a movie with id 1.\nWhenever there is a movie M, then M can be rated.\n',
            'A movie is identified by an id, and has a title.\nThere is a movie with id 1, with title 5.\n'
            'Whenever there is a movie M, then M can be rated.\n',
            'A timeslot is a temporal concept expressed in minutes ranging from 07:30 AM to 08:00 AM with a length of 10 minutes.\n'
            'A visit is identified by an id, and by a timeslot.\nIt is prohibited that the visit V is after 07:40 AM.\n',
            'A timeslot is a temporal concept expressed in minutes ranging from 01:00 PM to 03:00 PM with a length of 30 minutes.\n'
            'A visit is identified by an id, and by a timeslot.\nIt is prohibited that the visit V is after 02:00 PM.\n',
            'A num is identified by an id.\nIt is required that V is at least 4, whenever there is a num with id V.\n'
            'Every num can be picked.\n',
            'A node goes from 1 to 3.\nA color is one of red, green.\nEvery node can be assigned to exactly 1 color.\n',
            # lexically ambiguous sentences (a label spelled like an article / a keyword): the parser's tie-breaking must be deterministic
            'A variable is identified by an id.\nAn instruction is identified by an id.\nAn instruction goes from 0 to 2.\n'
            'Variable a holds instruction 0.\nVariable b holds instruction 0.\n',
            'A person is identified by a name.\nA movie is identified by an id.\nThere is a person with name equal to an.\n'
            'Person a likes movie 1.\n']
    small = [t for _, t in corpus.corpus() if len(t) < 900]
    rng.shuffle(small)
    acc += small[: (8 if tier == 'quick' else 40)]
    ex = [t for n, t in corpus.corpus() if n.startswith('examples')]
    rng.shuffle(ex)
    acc += ex[: (3 if tier == 'quick' else len(ex))]
    for _ in range(6 if tier == 'quick' else 30):
        rej.append(gen_wide.gen_faulty(rng)[0].text())
    rej += ['There is a node with id 1.\n', 'A node is identified by an id%.\n', 'Every node can be chosen.\n']
    return acc, rej


def gen_history(rng, acc, rej):
    """a list of calls ending with the probe; returns (calls, probe_call_index, probe_alone_calls)"""
    calls = []
    nid = [0]

    def new(text):
        nid[0] += 1
        calls.append({'op': 'new', 'id': nid[0], 'text': text})
        return nid[0]

    def rand_call(i):
        op = rng.choice(['compile', 'compile', 'compile', 'get_symbols', 'check_syntax', 'cnl_to_json'])
        c = {'op': op, 'id': i}
        if op == 'compile':
            c['auto_link'] = rng.random() < 0.7
            c['fn'] = rng.random() < 0.25
        return c
    shape = rng.choice(['plain', 'plain', 'construct_first', 'same_object', 'rejected_nolink'])
    n = rng.randrange(0, 7)
    # probes: accepted texts, texts with a compilation fault and texts with a syntax error (the failure, too, must not depend on
    # the history or the hash seed)
    ptext = rng.choice(acc + rej[:2] + rej[-3:]) if rng.random() < 0.85 else rng.choice(rej[-3:])
    if shape == 'construct_first':
        # several objects are constructed before any is used
        ids = [new(rng.choice(acc + rej)) for _ in range(rng.randrange(1, 4))]
        pid = new(ptext)
        if rng.random() < 0.5:
            ids.append(new(rng.choice(acc)))
        for i in ids:
            if rng.random() < 0.8:
                calls.append(rand_call(i))
    elif shape == 'same_object':
        pid = new(ptext)
        for _ in range(rng.randrange(1, 4)):
            calls.append(rand_call(pid))
    elif shape == 'rejected_nolink':
        i = new(rng.choice(rej))
        calls.append({'op': 'compile', 'id': i, 'auto_link': False, 'fn': False})
        pid = new(ptext)
    else:
        for _ in range(n):
            calls.append(rand_call(new(rng.choice(acc + rej))))
        pid = new(ptext)
    probe = rand_call(pid)
    if probe['op'] == 'compile' and rng.random() < 0.7:
        probe['auto_link'] = True
    calls.append(probe)
    alone = [{'op': 'new', 'id': pid, 'text': ptext}, probe]
    return calls, alone, shape


def main(tier):
    run = common.Run(PROP, tier)
    rng = random.Random(run.seed)
    run.coverage['rule'] = ('a history = 0..6 earlier API calls (compile with/without auto-link and function printing, get_symbols, check_syntax, '
                            'cnl_to_json; accepted and rejected texts; objects constructed ahead; repeated calls on one object) + a probe, run '
                            'in a fresh interpreter under a random PYTHONHASHSEED with state snapshots around every call; reference = the probe '
                            'alone in a fresh interpreter (seed 0); non-trivial = history with at least one earlier call on a different text')
    run.lean(MODULES, THEOREMS, extra_modules=['Cnl2aspModel.Compiler.Api'])
    acc, rej = text_pool(rng, tier)
    n_hist = 110 if tier == 'quick' else 1200
    hist = [gen_history(rng, acc, rej) for _ in range(n_hist)]
    # references, one per distinct probe
    refs = {}
    for calls, alone, shape in hist:
        refs.setdefault(json.dumps(alone, sort_keys=True), alone)
    jobs = [(calls, rng.randrange(0, 5000), True) for calls, _, _ in hist]
    ref_keys = list(refs)
    jobs += [(refs[k], 0, True) for k in ref_keys]
    # hash-seed variation of the references themselves (a quarter of them, under two more seeds)
    seed_jobs = [(refs[k], s, False) for k in ref_keys[::4] for s in (1, 4242)]
    # check_syntax / cnl_to_json under both values of the auto-link flag (information: how sensitive the sampled texts are)
    fb_jobs = []
    for t in (acc[:10] + rej[:4]):
        for op in ('check_syntax', 'cnl_to_json'):
            for flag in (True, False):
                fb_jobs.append(([{'op': 'new', 'id': 1, 'text': t}, {'op': op, 'id': 1, 'force_flag': flag}], 0, False))
    all_jobs = jobs + seed_jobs + fb_jobs
    order = sorted(range(len(all_jobs)), key=lambda i: -sum(len(c.get('text', '')) for c in all_jobs[i][0]))
    res_sorted = rt.pmap(run_history, [all_jobs[i] for i in order], chunksize=1)
    res = [None] * len(all_jobs)
    for i, r in zip(order, res_sorted):
        res[i] = r
    hres = res[:len(hist)]
    rres = dict(zip(ref_keys, res[len(hist):len(hist) + len(ref_keys)]))
    sres = res[len(hist) + len(ref_keys):len(hist) + len(ref_keys) + len(seed_jobs)]
    fres = res[len(hist) + len(ref_keys) + len(seed_jobs):]
    immut0 = None
    flag_reported = False
    shapes = {}
    for (calls, alone, shape), r in zip(hist, hres):
        key = json.dumps(alone, sort_keys=True)
        ref = rres[key]
        shapes[shape] = shapes.get(shape, 0) + 1
        run.count(json.dumps(calls, sort_keys=True), nontrivial=len(calls) > 2)
        replay = {'history': calls, 'probe_alone': alone}
        if 'crash' in r or 'crash' in ref:
            run.violation('crash/runner', f'the interpreter crashed: {r.get("crash") or ref.get("crash")}', replay)
            continue
        got, want = r['results'][-1], ref['results'][-1]
        if got['result'] != want['result']:
            op = calls[-1]['op']
            run.violation(f'history/{op}/{shape}', f'{op} after the history gives {str(got["result"])[:300]} but alone {str(want["result"])[:300]}',
                          dict(replay, after_history=got['result'], alone=want['result']))
        # monitors
        for c, rec in zip(calls, r['results']):
            im_pre, im_post = dict(rec['pre']['immutable']), dict(rec['post']['immutable'])
            g_pre, g_post = im_pre.pop('generic', {}), im_post.pop('generic', {})
            if immut0 is None:
                immut0 = (im_pre, g_pre)
            if im_pre != immut0[0] or im_post != immut0[0]:
                run.violation('frame/immutable', f'a module-level object / shared default changed around {c["op"]}: {im_post} vs {immut0[0]}', replay)
                break
            # generic frame: every module-level / class-level container and mutable default of the package (modules are imported
            # lazily, so only the entries present in both snapshots are compared)
            changed = [k for g in (g_pre, g_post) for k in g if k in immut0[1] and g[k] != immut0[1][k]]
            changed += [k for k in g_post if k in g_pre and g_post[k] != g_pre[k]]
            if changed:
                k = changed[0]
                run.violation(f'frame/container/{k.split(".")[-2] if "__defaults__" in k else k.split(".")[-1]}',
                              f'process-wide container {k} changed around {c["op"]}: {g_post.get(k)} (before: {g_pre.get(k, immut0[1].get(k))})', replay)
                break
            for k in g_post:
                immut0[1].setdefault(k, g_post[k]) if k not in g_pre else None
            # step_flag: the auto-link option is in force during the call only
            if c['op'] != 'new' and rec['pre']['auto_link'] != rec['post']['auto_link'] and not flag_reported:
                flag_reported = True
                run.broke('corr', 'a call leaves Utility.AUTO_ENTITY_LINK changed (Api.step_flag)',
                          {'history': calls, 'call': c, 'before': rec['pre']['auto_link'], 'after': rec['post']['auto_link']})
        # the table left behind is a function of the call alone (C12_state_after)
        same_flag = calls[-1]['op'] in ('compile', 'get_symbols') or got['pre']['auto_link'] == want['pre']['auto_link']
        if same_flag and got['post']['signatures'] != want['post']['signatures'] and calls[-1]['op'] != 'new':
            run.broke('corr', 'state left behind by a call depends on the history (C12_state_after)',
                      {'history': calls, 'after_history': str(got['post']['signatures'])[:300], 'alone': str(want['post']['signatures'])[:300]})
    # hash seeds
    for (calls, s, _), r in zip(seed_jobs, sres):
        ref = rres[json.dumps(calls, sort_keys=True)]
        run.count(('seed', s, json.dumps(calls, sort_keys=True)))
        if 'results' in r and 'results' in ref and r['results'][-1]['result'] != ref['results'][-1]['result']:
            run.violation(f'hashseed/{calls[-1]["op"]}', f'PYTHONHASHSEED={s} changes the result of {calls[-1]["op"]}',
                          {'calls': calls, 'seed': s, 'seed0': ref['results'][-1]['result'], 'this_seed': r['results'][-1]['result']})
    # how many sampled texts give another check_syntax / cnl_to_json result under the other flag value (information)
    flag_sensitive = 0
    for i in range(0, len(fb_jobs), 2):
        a, b = fres[i], fres[i + 1]
        run.count(('flagblind', json.dumps(fb_jobs[i][0], sort_keys=True)))
        if 'results' in a and 'results' in b and a['results'][-1]['result'] != b['results'][-1]['result']:
            # information only: the flag may influence these calls; what matters is that no call leaves it changed (step_flag)
            flag_sensitive += 1
    run.coverage['history_shapes'] = shapes
    run.coverage['texts_sensitive_to_the_auto_link_flag'] = flag_sensitive
    run.coverage['distinct_probes'] = len(refs)
    run.coverage['interpreters_started'] = len(all_jobs)
    run.sample({'history': hist[0][0], 'probe_alone': hist[0][1]})
    run.assumptions += ['the front end (Lark, CNLTransformer), converters and printers are abstract parameters of the model; that they are '
                        'functions of their arguments (no other hidden state) is what the monitors and the fresh-process differential check',
                        'auxiliary x_<uuid> names are normalised before comparison']
    return run.finish()
