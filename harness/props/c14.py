"""C14 — function-term mode prints the same program with foreign keys wrapped.

Lean: Props/C14.lean (no argument dropped or duplicated for every atom; flattening = default atom when groups
are contiguous; shape depends on origins only).
Tie (T-corr unit): the real str(ASPAtom) in both modes on generated atoms and on every atom harvested from
real compilations (corpus + wide generator) vs printFlat / printFn.
Search: compile() in both modes, flatten the function terms, compare with the default output; one shape per predicate.
"""
from __future__ import annotations

import random
import re

from .. import common, rt, aspast, corpus, gen_wide, harvest

PROP = 'C14'
MODULES = ['Cnl2aspModel.Props.C14']
THEOREMS = ['C14_no_drop_no_dup', 'C14_flatten_partial', 'C14_shape']

NAMES = ['node', 'color', 'room', 'seat', 'waiter', 'serve', 'movie', 'edge', 'p', 'q1']
ANAMES = ['id', 'name', 'first', 'second', 'tip', 'weight']
VALUES = ['_', '_', 'X', 'Y', 'X', '1', '2', '"a b"', 'X+1', '1..3', 'K', 'N_1', '"x"']


def real_print(atom_json, fn):
    from cnl2asp.ASP_elements.asp_atom import ASPAtom
    from cnl2asp.ASP_elements.asp_attribute import ASPAttribute, ASPValue
    from cnl2asp.specification.attribute_component import AttributeOrigin
    from cnl2asp.utility.utility import Utility

    def mk_origin(chain):
        o = None
        for nm in reversed(chain):
            o = AttributeOrigin(nm, o)
        return o
    attrs = [ASPAttribute(a['name'], ASPValue(a['value']), mk_origin(a['origin'])) for a in atom_json['attrs']]
    atom = ASPAtom(atom_json['name'], attrs, atom_json.get('negated', False), atom_json.get('before', False),
                   atom_json.get('after', False), atom_json.get('initial', False), atom_json.get('final', False))
    # what the real objects hold (AttributeOrigin collapses a directly repeated name)
    seen = harvest.atom_to_json(atom)
    Utility.PRINT_WITH_FUNCTIONS = fn
    try:
        return str(atom), seen
    finally:
        Utility.PRINT_WITH_FUNCTIONS = False


def name_pairs(atom_json):
    """ordered pairs of distinct names that NameComponent.__eq__ identifies (None if its two variants disagree)"""
    from cnl2asp.specification.name_component import NameComponent
    names = {atom_json['name']}
    for a in atom_json['attrs']:
        names.update(a['origin'])
    names = sorted(n for n in names if n)
    pairs = []
    for x in names:
        for y in names:
            if x == y:
                continue
            e1 = NameComponent(x) == y
            e2 = NameComponent(x) == NameComponent(y)
            if e1 != e2:
                return None
            if e1:
                pairs.append([x, y])
    return pairs


def random_atom(rng):
    n = rng.choice([0, 1, 2, 2, 3, 3, 4, 5, 6])
    name = rng.choice(NAMES)
    attrs = []
    for _ in range(n):
        depth = rng.choice([0, 1, 1, 1, 2, 2, 3])
        origin = [rng.choice(NAMES + [name, name]) for _ in range(depth)]
        attrs.append({'name': rng.choice(ANAMES), 'value': rng.choice(VALUES), 'origin': origin})
    return {'name': name if rng.random() > 0.02 else '', 'attrs': attrs, 'negated': rng.random() < 0.15,
            'before': rng.random() < 0.05, 'after': rng.random() < 0.05, 'initial': rng.random() < 0.05,
            'final': rng.random() < 0.05}


def flatten_theory_text(text, concept_names):
    """remove wrappers `concept( … )` that occur as *arguments* (inside a call) in the text of a theory atom"""
    out = []
    stack = []   # frames: ('call' | 'group' | 'drop')
    i, n = 0, len(text)
    ident = re.compile(r"[A-Za-z_'][A-Za-z0-9_']*")
    while i < n:
        m = ident.match(text, i)
        if m and m.end() < n and text[m.end()] == '(':
            name = m.group(0)
            inside_call = any(f in ('call', 'drop') for f in stack)
            if inside_call and name in concept_names:
                stack.append('drop')
            else:
                stack.append('call')
                out.append(name + '(')
            i = m.end() + 1
            continue
        if m:
            out.append(m.group(0))
            i = m.end()
            continue
        c = text[i]
        if c == '(':
            stack.append('group')
            out.append(c)
        elif c == ')':
            f = stack.pop() if stack else 'group'
            if f != 'drop':
                out.append(c)
        else:
            out.append(c)
        i += 1
    return ''.join(out)


def flatten_text(program, concept_names):
    """splice the arguments of every function term named after a concept into its parent (textually, via clingo.ast)"""
    def fl_term(t):
        if t[0] == 'fun' and t[2] and t[1] in concept_names:
            out = []
            for a in t[2]:
                out += fl_term(a)
            return out
        if t[0] == 'fun':
            return [('fun', t[1], [x for a in t[2] for x in fl_term(a)])]
        return [t]

    def fl_lit(l):
        k = l[0]
        if k == 'atom':
            return ('atom', l[1], l[2], [x for a in l[3] for x in fl_term(a)])
        if k == 'cond':
            return ('cond', fl_lit(l[1]), [fl_lit(c) for c in l[2]])
        if k == 'agg':
            return ('agg', l[1], l[2], l[3], [([x for t in ts for x in fl_term(t)], [fl_lit(c) for c in cond]) for ts, cond in l[4]], l[5])
        if k == 'theory':
            return ('theory', l[1], l[2], flatten_theory_text(l[3], concept_names))
        return l
    out = []
    for s in aspast.parse(program):
        if s['kind'] in ('rule', 'weak'):
            h = s.get('head')
            if h:
                if h[0] == 'atom':
                    h = ('atom', fl_lit(h[1]))
                elif h[0] == 'disj':
                    h = ('disj', [fl_lit(e) for e in h[1]])
                elif h[0] == 'choice':
                    h = ('choice', h[1], [fl_lit(e) for e in h[2]], h[3])
            out.append((s['kind'], s['part'], h, [fl_lit(b) for b in s['body']], s.get('weight'), s.get('priority'),
                        [x for t in s.get('terms', []) for x in fl_term(t)]))
        else:
            out.append((s['kind'], s['part'], s['text']))
    return out


def _spec_job(text):
    """compile in both modes, harvest atoms, return everything needed (in a worker)"""
    res = {'text': text}
    res['flat'] = rt.compile_cnl(text, fn=False)
    res['fn'] = rt.compile_cnl(text, fn=True)
    atoms = []
    try:
        spec, enc, _ = harvest.parse_and_convert(text)
        for a in harvest.walk_atoms(enc):
            j = harvest.atom_to_json(a)
            from cnl2asp.utility.utility import Utility
            Utility.PRINT_WITH_FUNCTIONS = False
            f = str(a)
            Utility.PRINT_WITH_FUNCTIONS = True
            g = str(a)
            Utility.PRINT_WITH_FUNCTIONS = False
            atoms.append((j, f, g, name_pairs(j)))
        from cnl2asp.specification.signaturemanager import SignatureManager
        res['concepts'] = sorted({str(s.get_name()) for s in SignatureManager.signatures})
    except Exception as e:  # noqa
        res['harvest_error'] = f'{type(e).__name__}: {e}'
    res['atoms'] = atoms
    rt.reset_globals()
    return res


def definition_specs(rng):
    """every way of giving a concept whose key is inherited its individuals — one-value definitions, ranges, enumerations, facts —
    followed by a rule over the same concept: in function mode all of them must print the concept with one shape"""
    out = []
    for (k, c) in (('patient', 'registration'), ('node', 'marker'), ('city', 'depot')):
        decl = f'A {k} is identified by an id.\nA {c} is identified by a {k}.\n'
        use = f'It is prohibited that there is a {c} with {k} id X, where X is equal to 2.\n'
        for d in (f'john is a {c}.\n', f'3 is a {c}.\n', f'A {c} goes from 1 to 3.\n', f'There is a {c} with {k} id 1.\n',
                  f'A {c} is one of 1, 2.\n'):
            out.append(decl + d + use)
    return out


def main(tier):
    run = common.Run(PROP, tier)
    rng = random.Random(run.seed)
    run.coverage['rule'] = ('unit: random ASPAtom objects (several "_", repeated variables, origins nested up to 3 levels, prefixes) and every '
                            'atom harvested from real compilations of the corpus and of wide-generator specifications, printed by the real '
                            'code in both modes vs the model; search: both-mode compilation, function terms flattened, statement-by-statement '
                            'comparison, one shape per predicate; non-trivial = atom with at least one inherited attribute / program with a function term')
    run.lean(MODULES, THEOREMS, extra_modules=['Cnl2aspModel.Asp.PrintAtom'])
    run.findings_witness(['Cnl2aspModel.Findings.C14'])
    # ---- unit: random atoms -------------------------------------------------------
    n_rand = 1500 if tier == 'quick' else 15000
    cases = []
    for _ in range(n_rand):
        a = random_atom(rng)
        flat, seen = real_print(a, False)
        fn, _ = real_print(a, True)
        cases.append((seen, flat, fn, name_pairs(seen)))
    # ---- harvested atoms + e2e -----------------------------------------------------
    texts = [t for _, t in corpus.corpus()]
    n_wide = 120 if tier == 'quick' else 1200
    texts += [gen_wide.gen_spec(rng).text() for _ in range(n_wide)]
    texts += definition_specs(rng)
    results = rt.pmap(_spec_job, texts, chunksize=2)
    n_harv = 0
    for r in results:
        for (j, f, g, pairs) in r['atoms']:
            cases.append((j, f, g, pairs))
            n_harv += 1
    run.coverage['random_atoms'] = n_rand
    run.coverage['harvested_atoms'] = n_harv
    reqs = []
    keep = []
    skipped = 0
    seen_keys = set()
    for (j, f, g, pairs) in cases:
        if pairs is None:
            skipped += 1
            continue
        key = repr((j, pairs))
        if key in seen_keys:
            continue
        seen_keys.add(key)
        reqs.append(('c14.print', dict(j, eqpairs=pairs)))
        keep.append((j, f, g))
    run.coverage['skipped_inexpressible_name_relation'] = skipped
    try:
        answers = common.run_model(reqs)
    except RuntimeError as e:
        run.broke('corr', 'model driver', e)
        return run.finish()
    nonc = 0
    for (j, f, g), ans in zip(keep, answers):
        inherited = any(a['origin'] and a['origin'][0] != j['name'] for a in j['attrs'])
        run.count(repr(j), nontrivial=inherited)
        if ans['flat'] != f:
            run.broke('corr', 'printFlat vs str(ASPAtom) [default mode]', {'atom': j, 'real': f, 'model': ans['flat']})
            break
        if ans['fn'] != g:
            run.broke('corr', 'printFn vs str(ASPAtom) [function mode]', {'atom': j, 'real': g, 'model': ans['fn']})
            break
        if not ans['contiguous']:
            nonc += 1
    run.coverage['non_contiguous_atoms'] = nonc
    # ---- search on whole programs ----------------------------------------------------
    progs = 0
    for r in results:
        if r['flat'][0] != 'ok' or r['fn'][0] != 'ok':
            if (r['flat'][0] == 'ok') != (r['fn'][0] == 'ok'):
                run.violation('e2e/mode-changes-acceptance', 'one mode compiles, the other fails',
                              {'cnl': r['text'], 'flat': str(r['flat'])[:300], 'fn': str(r['fn'])[:300]})
            continue
        progs += 1
        concepts = set(r.get('concepts', []))
        try:
            a = flatten_text(rt.norm_uuid(r['flat'][1]), concepts)
            b = flatten_text(rt.norm_uuid(r['fn'][1]), concepts)
        except Exception as e:  # noqa
            run.violation('e2e/unparsable', f'output not parsable: {e}', {'cnl': r['text'], 'fn': r['fn'][1][:400]})
            continue
        run.coverage['evaluations'] += 1
        has_fn = r['fn'][1] != r['flat'][1]
        run._distinct.add(('prog', r['text'])) if has_fn else None
        if a != b:
            # which statement differs, and is it the (known) non-contiguous grouping?
            for i, (x, y) in enumerate(zip(a, b)):
                if x != y:
                    # same multiset of arguments per atom => pure reordering
                    kind = 'reorder' if _same_up_to_order(x, y) else 'different'
                    run.violation(f'e2e/flatten/{kind}', f'statement {i}: default {x} vs flattened {y}',
                                  {'cnl': r['text'], 'default': r['flat'][1], 'function_mode': r['fn'][1], 'statement': i})
                    break
            else:
                run.violation('e2e/flatten/length', 'different number of statements', {'cnl': r['text']})
        # one shape per predicate in function mode
        shapes = {}
        for s in aspast.parse(r['fn'][1]):
            for at in aspast.stmt_atoms(s):
                sh = tuple(_shape(t) for t in at[3])
                shapes.setdefault(at[2], set()).add(sh)
        for pred, shs in shapes.items():
            if len(shs) > 1:
                run.violation('e2e/shape', f'predicate {pred} printed with {len(shs)} shapes: {sorted(map(repr, shs))[:3]}',
                              {'cnl': r['text'], 'function_mode': r['fn'][1]})
    run.coverage['programs_compared'] = progs
    for r in results[:2]:
        if r['fn'][0] == 'ok':
            run.sample({'cnl': r['text'][:300], 'function_mode': r['fn'][1][:300]})
    run.sample({'atom': keep[0][0], 'default': keep[0][1], 'function_mode': keep[0][2]})
    run.assumptions += ['NameComponent.__eq__ (inflect) is a parameter of the model; the harness passes the pairs it identifies',
                        'non-contiguous groups of inherited attributes are reordered by design (known finding F20)']
    return run.finish()


def _shape(t):
    if t[0] == 'fun' and t[2]:
        return (t[1], tuple(_shape(a) for a in t[2]))
    return '*'


def _same_up_to_order(x, y):
    def atoms_of(st):
        acc = []
        h = st[2]
        if h:
            if h[0] == 'atom':
                aspast.lit_atoms(h[1], acc)
            elif h[0] == 'disj':
                for e in h[1]:
                    aspast.lit_atoms(e, acc)
            elif h[0] == 'choice':
                for e in h[2]:
                    aspast.lit_atoms(e, acc)
        for b in st[3]:
            aspast.lit_atoms(b, acc)
        return acc
    if x[0] not in ('rule', 'weak') or y[0] not in ('rule', 'weak'):
        return False
    ax, ay = atoms_of(x), atoms_of(y)
    if len(ax) != len(ay):
        return False
    return all(p[2] == q[2] and sorted(map(repr, p[3])) == sorted(map(repr, q[3])) for p, q in zip(ax, ay))
