"""C06 — every compiled program is accepted by the solver it targets.

Lean: Props/C06.lean (term layer: for every value the grammar can deliver, convert_value prints a number, a variable, `_`,
a declared constant or a string literal without an inner quote; choice bounds are printed exactly when present).
Tie (T-corr unit): the real ASPConverter.convert_value on generated values and constant sets vs the model.
Search: every output of the wide / temporal generators, of dedicated stress forms (arithmetic operands with 2..4 operands,
several temporal conditions in one rule, aggregates of every kind, quoted strings, constants) and of the corpus is parsed by
clingo.ast, grounded by clingo, and — when it has temporal parts — read and grounded by telingo. An unsafe variable that the
author did not write, or any syntax error, is a violation.
"""
from __future__ import annotations

import random
import re

from .. import common, rt, corpus, gen_wide, tel, harvest

PROP = 'C06'
MODULES = ['Cnl2aspModel.Props.C06']
THEOREMS = ['C06_value', 'C06_bounds', 'C06_core_safe', 'C06_rule_syntax', 'C06_program_syntax', 'C06_symbols_in_grammar', 'C06_atoms_are_C14_atoms']

VAR_RE = re.compile(r'(?<![A-Za-z0-9_"])[A-Z][A-Z0-9_]*(?![A-Za-z0-9_"(])')


def stress_specs(rng):
    """sentence forms that stress the printers: n-ary arithmetic, several temporal conditions, strings, constants"""
    out = []
    D = 'A num is identified by an id.\nA lim is identified by an id.\nAn aux is identified by an id.\nA num goes from 1 to 3.\n'
    W = ', whenever there is a num with id X, whenever there is a lim with id Y, whenever there is an aux with id Z'
    for op in ('sum', 'difference', 'product', 'division'):
        for operands in ('X, and Y', 'X, Y, and Z', 'X, and 2', 'X, Y, Z, and 4'):
            for ph in ('equal to', 'more than', 'at most'):
                if rng.random() < 0.5:
                    out.append((D + f'It is prohibited that the {op} between {operands} is {ph} {rng.randrange(1, 5)}{W}.\n', ['X', 'Y', 'Z'], f'arith/{op}'))
        out.append((D + f'It is prohibited that the {op} in absolute value between X, and Y is more than 1{W}.\n', ['X', 'Y', 'Z'], f'arith-abs/{op}'))
    T = ('An alpha is identified by an id.\nA beta is identified by an id.\nA fired is identified by an id.\n'
         'The following propositions always apply:\n')
    conds = ['there is before an alpha with id 1', 'there is after a beta with id 1 that eventually holds',
             'there is an alpha with id 1 since a beta with id 1', 'there is eventually an alpha with id 1 that holds since before']
    for a in conds:
        for b in conds:
            if a != b and rng.random() < 0.6:
                out.append((T + f'Whenever {a}, whenever {b}, then we must have a fired with id 1.\n', [], 'two-tel-head'))
                out.append((T + f'It is prohibited that {a}, whenever {b}.\n', [], 'two-tel-constraint'))
    for a in conds[:3]:
        out.append((T + f'Whenever {a}, whenever {a}, then we must have a fired with id 1.\n', [], 'two-tel-head/repeated'))
    # a comparison on a parameter of an entity INSIDE an aggregate (`… a shift with capacity greater than 3 …`): the variable invented for the
    # parameter must be bound where the comparison is printed
    AP = ('A nurse is identified by an id.\nA shift is identified by an id, and has a capacity.\nA nurse goes from 1 to 3.\n'
          'There is a shift with id 1, with capacity 5.\nEvery nurse can work in exactly 1 shift.\n')
    for ph in ('greater than 3', 'less than 9'):
        out.append((AP + f'It is prohibited that the number of nurses that work in a shift with capacity {ph} is more than 2.\n', [], 'aggregate-parameter-comparison'))
    # an aggregate as a bound of `between` (an aggregate compared with an aggregate and a number in one chain)
    for bounds in ('the number of shift and 10', '1 and the number of shift'):
        out.append(('A nurse is identified by an id.\nA shift is identified by an id.\nA nurse goes from 1 to 3.\nA shift goes from 1 to 2.\n'
                    'Every nurse can work in exactly 1 shift.\n'
                    f'It is prohibited that the number of nurses that work in shift S is between {bounds}, whenever there is a shift S.\n', ['S'], 'aggregate-between-aggregate'))
    # letter-initial concept names with digits or few consonants: the names invented from them must still be variables
    for nm in ('a1', 'e2e', 'io', 'b2', 'u9x'):
        out.append((f'A box is identified by an id.\nA{"n" if nm[0] in "aeiou" else ""} {nm} is identified by an id.\nA box goes from 1 to 2.\n'
                    f'A{"n" if nm[0] in "aeiou" else ""} {nm} goes from 1 to 2.\nEvery box can hold exactly 1 {nm}.\n'
                    f'It is prohibited that there is a box with id X, whenever there is a{"n" if nm[0] in "aeiou" else ""} {nm} with id greater than X.\n', ['X'], 'names-with-digits'))
    S = 'A person is identified by a name, and has a city.\n'
    for v in ('"new york"', '"a b c"', 'rome', 'Rome', 'r2d2', '"x_y 1"'):
        out.append((S + f'There is a person with name equal to anna, with city equal to {v}.\n'
                    f'It is prohibited that there is a person with city equal to {v}.\n', [], 'strings'))
    K = 'kk is a constant equal to 3.\nlimit is a constant.\nname is a constant equal to rome.\nA num is identified by an id.\n'
    out.append((K + 'A num goes from 1 to kk.\nIt is prohibited that X is more than kk, whenever there is a num with id X.\n'
                    'It is prohibited that X is more than limit, whenever there is a num with id X.\n', ['X'], 'constants'))
    # order-sensitive pair: a choice with a head condition, then a sentence relating equal head / body entities
    P = ('A patient is identified by an id.\nA slot is identified by an id.\nA booking is identified by a patient, and by a slot.\n'
         'Every patient can have a booking to exactly 1 slot.\n'
         'Whenever there is a booking with patient P, with slot S, then we must have a waiting with patient P, with slot S.\n')
    # a choice whose head attribute is bound by a 'to <cardinality> <concept>' condition, and a copy sentence over the same concepts whose
    # head / body link needs an invented variable: every order, and each alone, must ground
    for (a, b, k1, k2) in [('booking', 'waiting', 'person', 'slot'), ('seat', 'hold', 'guest', 'room'), ('visit', 'queue', 'patient', 'day')]:
        Dd = (f'A {k2} is identified by an id.\nA {a} is identified by a {k1}, and by a {k2}.\nA {b} is identified by a {k1}, and by a {k2}.\n'
              f'There is a {k2} with id 1.\nThere is a {k2} with id 2.\nThere is a {a} with {k1} 1, with {k2} 1.\n')
        for card in ('exactly 1', 'at most 1', 'between 1 and 2'):
            ch = f'Whenever there is a {a} with {k1} P, then we can have a {b} with {k1} P to {card} {k2}.\n'
            cp = f'Whenever there is a {a} with {k1} P, then we must have a {b} with {k1} P.\n'
            cn = f'It is prohibited that there is a {b} with {k1} P, whenever there is not a {a} with {k1} P, whenever there is a {k2} with id P.\n'
            for name, body in (('choice+copy', ch + cp), ('copy+choice', cp + ch), ('copy', cp), ('choice', ch), ('choice+constraint+copy', ch + cn + cp)):
                out.append((Dd + body, ['P'], 'head-condition/' + name))
    out.append((P, ['P', 'S'], 'head-condition-then-equal-entities'))
    # the same concept once with a temporal prefix and once plain / negated in one body: both occurrences must stay
    for pre in ('previously', 'initially'):
        for second in ('not a', 'a'):
            G = ('A gun is identified by a status.\nA shooter is identified by an id.\nThe following propositions apply in the initial state:\n'
                 'There is a gun with status equal to loaded.\nThe following propositions always apply except in the initial state:\n'
                 f'Whenever there is {pre} a gun with status X, whenever there is {second} gun with status X, then we can have a shooter with id X.\n'
                 f'It is prohibited that there is {pre} a gun with status X, whenever there is {second} gun with status X.\n')
            out.append((G, ['X'], f'prefixed-and-plain-occurrence/{pre}'))
    # comparisons on the variables of an aggregate ('for each' discriminant, aggregated variable) belong inside the braces
    SA = 'A scoreassignment is identified by an id, and by a value.\nThere is a scoreassignment with id 1, with value 1.\nThere is a scoreassignment with id 3, with value 2.\n'
    for body in ('the total value, for each id, that have a scoreassignment with id X is between 1 and 2, where X is greater than 2',
                 'the total value, for each id X, that have a scoreassignment is greater than 2, where X is greater than 2',
                 'the total value V, for each id, that have a scoreassignment with id X is greater than 2, where V is greater than 2',
                 'the highest value, for each id X, that have a scoreassignment is less than 5, where X is different from 1'):
        out.append((SA + f'It is prohibited that {body}.\n', ['X', 'V'], 'aggregate-where-on-discriminant'))
    # a verb whose FIRST mention carries a prefix: the prefix must stay local to that mention
    H = ('A robot is identified by an id.\nA location is identified by an id.\nThe following propositions always apply:\nThere is a robot with id 1.\n'
         'There is a location with id 1.\nThere is a location with id 2.\nThe following propositions always apply except in the initial state:\n')
    for pre in ('subsequently', 'previously'):
        cons = f'It is prohibited that robot R is {pre} at location L, when robot R is at location L.\n'
        choice = 'Whenever there is a robot R, then R can be at exactly 1 location L.\n'
        rule = 'Robot R is busy when robot R is at location L.\n'
        out.append((H + cons + choice + rule, ['R', 'L'], f'prefix-on-first-mention/{pre}'))
        out.append((H + choice + rule + cons, ['R', 'L'], f'prefix-on-later-mention/{pre}'))
    out.append((P.replace('Every patient can have a booking to exactly 1 slot.\n', ''), ['P', 'S'], 'equal-entities-alone'))
    return out


def author_vars(text):
    body = '\n'.join(l.partition('//')[0] for l in text.split('\n'))
    body = re.sub(r'"[^"]*"', '""', body)
    return set(VAR_RE.findall(body))


UNSAFE_RE = re.compile(r"note: '([^']+)' is unsafe")


def ground_external(program, timeout=45):
    """clingo's grounder in a child process (so that a huge instantiation can be abandoned); messages with <block> positions"""
    import subprocess, sys
    code = ('import sys, clingo\n'
            'msgs = []\n'
            'ctl = clingo.Control([], logger=lambda c, m: msgs.append(m))\n'
            'try:\n'
            '    ctl.add("base", [], sys.stdin.read()); ctl.ground([("base", [])]); ok = 0\n'
            'except RuntimeError as e:\n'
            '    msgs.append(str(e)); ok = 3\n'
            'sys.stdout.write("\\n".join(msgs)); sys.exit(ok)\n')
    try:
        p = subprocess.run([sys.executable, '-c', code], input=program, capture_output=True, text=True, timeout=timeout)
    except subprocess.TimeoutExpired:
        return None, []
    return p.returncode == 0, [('msg', p.stdout)]


STRESS = ('arith', 'two-tel', 'strings', 'constants', 'head-', 'equal-', 'prefixed-and', 'aggregate-where', 'prefix-on', 'names-with', 'aggregate-parameter', 'aggregate-between')


def _job(args):
    text, author, kind = args
    if kind.startswith(STRESS):
        author = set()       # in the stress forms every label has a positive occurrence in its sentence: an unsafe label is the compiler's doing
    rt.enable_lark_cache()
    r = rt.compile_cnl(text)
    if r[0] != 'ok':
        return {'text': text, 'kind': kind, 'rejected': str(r[1])[:200]}
    out = r[1]
    res = {'text': text, 'kind': kind, 'program': out, 'problems': []}
    temporal = ('#program' in out) or ('&tel' in out) or bool(re.search(r"\w'\(|'\w+\(|(?<![A-Za-z0-9])_[a-z]\w*\(", out))
    res['temporal'] = temporal
    ok, msg = rt.clingo_parse(out)
    if not ok:
        res['problems'].append(('syntax', msg[:300]))
        return res
    if not temporal:
        g_ok, msgs = ground_external(out)
        if g_ok is None:
            res['undecided'] = 'grounding timeout'
        elif not g_ok:
            txt = '\n'.join(m for _, m in msgs)
            blocks = re.split(r'(?=<block>:\d+:\d+-\d+: error: )', txt)
            lines = out.split('\n')
            seen_any = False
            for blk in blocks:
                m = re.match(r'<block>:(\d+):\d+-\d+: error: (.*)', blk)
                if not m:
                    continue
                seen_any = True
                if not m.group(2).startswith('unsafe variables'):
                    res['problems'].append(('ground', blk[:400]))
                    continue
                ln = int(m.group(1))
                rule = lines[ln - 1] if 0 < ln <= len(lines) else ''
                foreign = sorted({u for u in UNSAFE_RE.findall(blk) if u not in author})
                if not foreign:
                    continue        # the author's own variable
                # placeholders in FACTS come from domain sentences that do not give every attribute (outside the property)
                if all(u.startswith('#Anon') for u in foreign) and ':-' not in rule and '{' not in rule:
                    continue
                res['problems'].append(('unsafe', f'{foreign}: {blk[:500]}'))
            if not seen_any:
                res['problems'].append(('ground', txt[:400]))
    else:
        try:
            tr = tel.run_telingo(out, 2, errlen=6000, timeout=60, models=1)
        except Exception as e:      # subprocess.TimeoutExpired
            tr = ('ok', [])
            res['undecided'] = 'telingo timeout'
        if tr[0] != 'ok':
            msg = tr[1]
            unsafe = UNSAFE_RE.findall(msg)
            foreign = sorted({u for u in unsafe if u not in author and not u.startswith('#Inc')})
            if unsafe and not foreign:
                pass
            elif foreign:
                res['problems'].append(('unsafe', f'{foreign}: ' + msg[:900]))
            else:
                res['problems'].append(('telingo', msg[-1200:]))
    return res


def main(tier):
    run = common.Run(PROP, tier)
    rng = random.Random(run.seed)
    run.coverage['rule'] = ('unit: generated values x constant sets through the real convert_value vs the model; search: outputs of the wide and '
                            'temporal generators, the stress forms and the corpus, parsed by clingo.ast and grounded by clingo (telingo for programs '
                            'with temporal parts); non-trivial = distinct accepted specification')
    ok, _tables, msg = common.run_tgen()       # the symbol tables of C06_symbols_in_grammar are regenerated from the current source
    if not ok:
        run.broke('tgen', 'extract_tables.py', msg)
    run.lean(MODULES, THEOREMS, extra_modules=['Cnl2aspModel.Compiler.Value', 'Cnl2aspModel.Cnl.Safety', 'Cnl2aspModel.Cnl.RefExecSound'])
    # ---- unit --------------------------------------------------------------
    from cnl2asp.converter.asp_converter import ASPConverter
    from cnl2asp.specification.attribute_component import ValueComponent
    vals = ['1', '12', '007', 'X', 'X1', 'ND_D', 'red', 'Red', 'r2d2', 'jurassicPark', '_', 'kk', 'limit', 'a b', 'new york', 'A', 'x_y',
            'TRUE', 'x', '0', 'abcDEF', 'Z_9', 'HELLO w']
    for _ in range(200 if tier == 'quick' else 2000):
        vals.append(''.join(rng.choice('abcXYZ019_ ') for _ in range(rng.randrange(1, 6))).strip() or 'a')
    reqs, reals = [], []
    for v in vals:
        consts = rng.choice([[], ['kk'], ['kk', 'limit'], ['red']])
        c = ASPConverter()
        for k in consts:
            c._asp_encoding.add_constant((k, '1'))
        reals.append(str(c.convert_value(ValueComponent(v))))
        reqs.append(('c06.value', {'consts': consts, 'v': v}))
    answers = common.run_model(reqs)
    for req, real, a in zip(reqs, reals, answers):
        run.count(('value', repr(req[1])))
        if a['ok'] != real:
            run.broke('corr', 'convertValue vs ASPConverter.convert_value', {'input': req[1], 'real': real, 'model': a['ok']})
            break
    # ---- search ---------------------------------------------------------------
    jobs = []
    for _ in range(120 if tier == 'quick' else 1500):
        sp = gen_wide.gen_spec(rng)
        jobs.append((sp.text(), set(sp.author_vars()), 'wide'))
    for _ in range(30 if tier == 'quick' else 300):
        sp = gen_wide.gen_temporal_spec(rng)
        jobs.append((sp.text(), set(sp.author_vars()), 'temporal'))
    jobs += [(t, set(a), k) for t, a, k in stress_specs(rng)]
    for name, t in corpus.corpus():
        if tier == 'quick' and len(t) > 2500 and rng.random() < 0.5:
            continue
        jobs.append((t, author_vars(t), 'corpus:' + name))
    jobs.sort(key=lambda j: -len(j[0]))
    results = rt.pmap(_job, jobs, chunksize=1)
    stats = {'accepted': 0, 'rejected': 0, 'temporal': 0}
    for r in results:
        if 'rejected' in r:
            stats['rejected'] += 1
            if r['kind'].startswith(STRESS):
                run.note(f'stress form rejected by the compiler ({r["kind"]}): {r["rejected"][:120]}')
            continue
        stats['accepted'] += 1
        if r.get('undecided'):
            stats['undecided'] = stats.get('undecided', 0) + 1
            run.note(f'{r["undecided"]} on {r["kind"]}: acceptance by the grounder not decided (the parser accepted the program)')
        stats['temporal'] += bool(r['temporal'])
        run.count(r['text'])
        for kind, msg in r['problems']:
            cls = r['kind'].split(':')[0]
            run.violation(f'{kind}/{classify(r, msg)}', f'{kind}: {msg[:250]}', {'cnl': r['text'], 'program': r['program'], 'message': msg})
    run.coverage['program_stats'] = stats
    core_safety(run, rng, tier)
    printer_layer(run, rng, tier, [j[0] for j in jobs])
    for r in results[-3:]:
        if 'program' in r:
            run.sample({'cnl': r['text'][:300], 'program': r['program'][:300]})
    run.assumptions += ["clingo's parser / grounder and telingo are the oracles for acceptance (trusted, external)",
                        'unsafe variables the author wrote (e.g. a label used only in a negated clause) and placeholders in facts of domain '
                        'sentences that do not give every attribute are outside the property']
    return run.finish()


LOC_RE = re.compile(r'(?:<string>|\.lp):(\d+):(\d+)-(\d+)')
F15_RE = re.compile(r'[Ww]henever there is an? (\w+) ([A-Z]\w*)\b[^.]*\bthen [^.]*\bcan [^.]*\b\1 \2\.')


def core_safety(run, rng, tier):
    """C06_core_safe on the real code: for generated core specifications the real output is rule by rule the model's `compile`
    (correspondence of C01), the driver evaluates the theorem's hypothesis (range restriction), and clingo must ground the program"""
    from . import c01
    from .. import gen_core
    specs = [gen_core.gen_spec(rng) for _ in range(80 if tier == 'quick' else 800)]
    comp = common.run_model([('c01.compile', {'spec': sp.ast(), 'order': sp.order}) for sp in specs])
    safe = common.run_model([('c01.safe', {'spec': sp.ast()}) for sp in specs])
    results = rt.pmap(c01._job, [(sp.text(), sp.ast(), sp.order) for sp in specs], chunksize=2)
    n = 0
    for sp, a, sf, r in zip(specs, comp, safe, results):
        if 'rejected' in r or a is None or 'err' in a or 'rules' not in r:
            continue
        model = set(c01.canon_rule(*c01.m_rule(x)) for rules in a['rules'] for x in rules)
        if model != set(r['rules']) or not (sf and sf.get('safe')):
            continue          # reported by C01; the theorem is not claimed for this program
        n += 1
        run.count(('core-safe', sp.text()))
        if r.get('solver_error'):
            run.broke('corr', 'clingo rejects a program that C06_core_safe proves safe (the safety condition of the model is not the solver\'s)',
                      {'cnl': sp.text(), 'program': r['program'], 'error': r['solver_error']})
            break
    run.coverage['core_programs_proved_safe_and_grounded'] = n


# ---------------------------------------------------------------------------
# printing layer (Asp/PrintProg.lean): random element trees built from the real classes
# ---------------------------------------------------------------------------
def random_encoding(rng):
    """an ASPEncoding built directly from the real element classes: shapes the converter produces and neighbours of them"""
    from cnl2asp.ASP_elements.asp_atom import ASPAtom
    from cnl2asp.ASP_elements.asp_attribute import ASPAttribute, ASPValue
    from cnl2asp.ASP_elements.asp_aggregate import ASPAggregate
    from cnl2asp.ASP_elements.asp_conjunction import ASPConjunction
    from cnl2asp.ASP_elements.asp_encoding import ASPEncoding
    from cnl2asp.ASP_elements.asp_program import ASPProgram
    from cnl2asp.ASP_elements.asp_operation import ASPOperation, ASPAngleOperation, ASPTemporalOperation
    from cnl2asp.ASP_elements.asp_rule import ASPRule, ASPRuleHead, ASPWeakConstraint
    from cnl2asp.ASP_elements.asp_temporal_formula import ASPTemporalFormula
    from cnl2asp.specification.aggregate_component import AggregateOperation
    from cnl2asp.specification.operation_component import Operators
    vals = ['X', 'Y', 'Z1', '_', '1', '20', '"red"', '"new york"', 'kk', 'X+1', 'T..T+2', '1..5', 'CNT', 'ND_D']
    names = ['node', 'edge', 'assigned_to', 'colour', 'gun', 'at']
    ar = [Operators.SUM, Operators.DIFFERENCE, Operators.MULTIPLICATION, Operators.DIVISION]
    cmp_ = [Operators.EQUALITY, Operators.INEQUALITY, Operators.GREATER_THAN, Operators.LESS_THAN, Operators.GREATER_THAN_OR_EQUAL_TO,
            Operators.LESS_THAN_OR_EQUAL_TO]
    tel1 = [Operators.PREVIOUS, Operators.WEAK_PREVIOUS, Operators.ALWAYS_BEFORE, Operators.EVENTUALLY_BEFORE, Operators.NEXT, Operators.WEAK_NEXT,
            Operators.ALWAYS_AFTER, Operators.EVENTUALLY_AFTER, Operators.NEGATION]
    tel2 = [Operators.CONJUNCTION, Operators.DISJUNCTION, Operators.LEFT_IMPLICATION, Operators.RIGHT_IMPLICATION, Operators.EQUIVALENCE,
            Operators.TRIGGER, Operators.SINCE, Operators.PRECEDE, Operators.WEAK_PRECEDE, Operators.RELEASE, Operators.UNTIL, Operators.FOLLOW,
            Operators.WEAK_FOLLOW]

    def atom(marks=True, neg=True):
        n = rng.choice([1, 1, 2, 2, 3])
        kw = {}
        if marks and rng.random() < 0.3:
            kw[rng.choice(['is_before', 'is_after', 'is_initial', 'is_final'])] = True
        if neg and rng.random() < 0.2:
            kw['negated'] = True
        return ASPAtom(rng.choice(names), [ASPAttribute(rng.choice(['id', 'name', 'value']), ASPValue(rng.choice(vals))) for _ in range(n)], **kw)

    def arith(depth=0):
        r = rng.random()
        if depth > 1 or r < 0.5:
            return ASPValue(rng.choice(vals[:5] + ['CNT']))
        cls = ASPAngleOperation if rng.random() < 0.15 else ASPOperation
        return cls(rng.choice(ar), *[arith(depth + 1) for _ in range(rng.choice([2, 2, 3]))])

    def agg():
        disc = [ASPAttribute('v', ASPValue(rng.choice(['X', 'V', 'D']))) for _ in range(rng.choice([1, 1, 2]))]
        if rng.random() < 0.2:
            disc.append(atom(False, False))
        return ASPAggregate(rng.choice(list(AggregateOperation)), disc, ASPConjunction([atom(False) for _ in range(rng.choice([1, 2]))] +
                                                                                       ([comparison(False)] if rng.random() < 0.3 else [])))

    def comparison(with_agg=True):
        r = rng.random()
        if with_agg and r < 0.25:
            ops = [agg(), arith(1)]
            if rng.random() < 0.3:
                ops.reverse()
            return ASPOperation(rng.choice(cmp_), *ops)
        if r < 0.35:
            return ASPOperation(rng.choice(cmp_), arith(), arith(), arith())
        cls = ASPAngleOperation if rng.random() < 0.1 else ASPOperation
        return cls(rng.choice(cmp_), arith(), arith())

    def tform(depth=0):
        r = rng.random()
        if depth > 1 or r < 0.4:
            return atom(True, False)
        if r < 0.7:
            return ASPTemporalOperation(rng.choice(tel1), tform(depth + 1))
        return ASPTemporalOperation(rng.choice(tel2), tform(depth + 1), tform(depth + 1))

    def tel():
        op = tform(0)
        if not isinstance(op, ASPTemporalOperation):
            op = ASPTemporalOperation(rng.choice(tel1), op)
        return ASPTemporalFormula([op], rng.random() < 0.3)

    def body():
        out = []
        for _ in range(rng.choice([0, 1, 2, 2, 3, 4])):
            r = rng.random()
            out.append(atom() if r < 0.55 else comparison() if r < 0.8 else tel())
        if out and rng.random() < 0.12:
            # the same condition written twice (a second, equal object)
            import copy
            k = rng.randrange(len(out))
            out.insert(rng.randrange(len(out) + 1), copy.deepcopy(out[k]))
        return ASPConjunction(out)

    enc = ASPEncoding()
    for _ in range(rng.choice([0, 0, 1, 2])):
        enc.add_constant((rng.choice(['kk', 'limit', 'maxN']), rng.choice(['', '3', '"rome"'])))
    for pname in rng.sample(['', 'initial', 'dynamic', 'always', 'final'], rng.choice([1, 1, 2, 3])):
        prog = ASPProgram(pname)
        for _ in range(rng.choice([1, 2, 3, 4])):
            r = rng.random()
            if r < 0.15:
                w = rng.choice(['1', 'X', '-CNT', 'V'])
                disc = [ASPAttribute('v', ASPValue(rng.choice(['X', 'Y', 'X']))) for _ in range(rng.choice([0, 1, 2, 3]))]
                prog.add_rule(ASPWeakConstraint(body(), w, rng.choice([1, 2, 3]), disc))
            elif r < 0.35:
                prog.add_rule(ASPRule(body=body(), head=[]))
            elif r < 0.65:
                heads = [ASPRuleHead(atom(True, False), ASPConjunction([atom(False) for _ in range(rng.choice([0, 0, 1, 2]))])) for _ in range(rng.choice([1, 1, 2]))]
                lo = rng.choice([None, '0', '1', 'kk', ''])
                hi = rng.choice([None, '1', '2', ''])
                prog.add_rule(ASPRule(body=body(), head=heads, cardinality=(lo, hi)))
            else:
                heads = [ASPRuleHead(atom(True, False)) for _ in range(rng.choice([1, 1, 1, 2]))]
                prog.add_rule(ASPRule(body=body(), head=heads))
        enc.add_program(prog)
    return enc


def _print_job(text):
    """real element tree of a specification, serialised, with the real printed text in both modes (in a worker)"""
    from cnl2asp.utility.utility import Utility
    try:
        spec, enc, _ = harvest.parse_and_convert(text)
    except BaseException as e:  # noqa
        if isinstance(e, (KeyboardInterrupt, SystemExit)):
            raise
        return None
    out = []
    try:
        j = harvest.encoding_to_json(enc)
        for fn in (False, True):
            pairs = harvest.encoding_name_pairs(enc) if fn else []
            if pairs is None:
                continue
            Utility.PRINT_WITH_FUNCTIONS = fn
            try:
                real, rules = str(enc), [str(r) for _, r in harvest.rules_of(enc)]
            finally:
                Utility.PRINT_WITH_FUNCTIONS = False
            out.append((dict(j, fn=fn, eqpairs=pairs), real, rules))
    except BaseException as e:  # noqa
        if isinstance(e, (KeyboardInterrupt, SystemExit)):
            raise
        return {'text': text, 'error': f'{type(e).__name__}: {e}'}
    finally:
        rt.reset_globals()
    return {'text': text, 'cases': out}


def printer_layer(run, rng, tier, texts):
    """Asp/PrintProg.lean vs the real `__str__` methods: byte for byte, whole encodings and rule by rule, both printing modes, on
    (a) the element trees of real compilations and (b) random trees built from the real element classes.  A mismatch is a broken
    correspondence; the concrete failing input is then looked for with the solvers' parsers on the real text of the same tree."""
    cases = []      # (origin, request, real text, real rules)
    n_rand = 600 if tier == 'quick' else 6000
    for i in range(n_rand):
        enc = random_encoding(rng)
        cases.append((f'random tree #{i}', dict(harvest.encoding_to_json(enc), fn=False, eqpairs=[]), str(enc),
                      [str(r) for _, r in harvest.rules_of(enc)]))
    n_real = 0
    for r in rt.pmap(_print_job, texts, chunksize=2):
        if not r:
            continue
        if 'error' in r:
            run.note('element tree could not be serialised: ' + r['error'])
            continue
        for req, real, rules in r['cases']:
            cases.append((r['text'], req, real, rules))
            n_real += 1
    try:
        answers = common.run_model([('c06.print', c[1]) for c in cases])
    except RuntimeError as e:
        run.broke('corr', 'model driver (c06.print)', e)
        return
    n_rules = 0
    broken = 0
    wf = {'compiled': [0, 0], 'random': [0, 0]}
    outside = {}
    for (origin, req, real, rules), a in zip(cases, answers):
        run.count(('print', real), nontrivial=not origin.startswith('random'))
        n_rules += len(rules)
        if not req['fn']:
            # hypothesis of C06_rule_syntax, evaluated by the model on the real rule object (default mode)
            k = 'random' if origin.startswith('random') else 'compiled'
            for rule_text, ok in zip(rules, a.get('wf', [])):
                wf[k][0] += 1
                wf[k][1] += bool(ok)
                if not ok and k == 'compiled':
                    shape = re.sub(r'"[^"]*"', 'S', rule_text)
                    shape = re.sub(r'[A-Za-z_][A-Za-z0-9_]*', 'n', re.sub(r'\d+', '0', shape)).strip()
                    outside[shape] = outside.get(shape, 0) + 1
        if a.get('text') == real and a.get('rules') == rules:
            continue
        broken += 1
        if broken > 3:
            continue
        diff = next(((x, y) for x, y in zip(rules, a.get('rules', [])) if x != y), (real[:400], str(a.get('text'))[:400]))
        run.broke('corr', 'PrintProg.printEncoding vs the real __str__ of the element tree',
                  {'origin': origin[:400], 'mode': 'function' if req['fn'] else 'default', 'real': diff[0], 'model': diff[1]})
        # failing-input search: is the real text of this tree still a program the solver's parser accepts?
        ok, msg = rt.clingo_parse(real)
        if not ok:
            run.violation(f'syntax/printer/{"random-tree" if origin.startswith("random") else "compiled"}',
                          f'the real printer emits text the clingo parser rejects: {msg[:200]}',
                          {'origin': origin, 'tree': req, 'program': real, 'message': msg})
    run.coverage['printer_layer'] = {'random_trees': n_rand, 'compiled_trees_both_modes': n_real, 'rules_compared': n_rules,
                                     'mismatches': broken,
                                     'rules_satisfying_wfRule': {k: f'{v[1]}/{v[0]}' for k, v in wf.items()},
                                     'compiled_rule_shapes_outside_wfRule': dict(sorted(outside.items(), key=lambda kv: -kv[1])[:12])}


def classify(r, msg):
    """a stable key for the failing construct (what is wrong, where), independent of names and numbers"""
    prog = r['program']
    stress = r['kind'].startswith(STRESS)
    if 'not supported' in msg or 'leading primes' in msg:
        # telingo names the offending atom by position
        m = LOC_RE.search(msg)
        where = '?'
        mark = '?'
        if m:
            ln, c0, c1 = int(m.group(1)), int(m.group(2)), int(m.group(3))
            lines = prog.split('\n')
            if 0 < ln <= len(lines):
                line = lines[ln - 1]
                atom = line[c0 - 1:c1 - 1]
                pre = line[:c0 - 1]
                where = 'formula' if pre.count('{') > pre.count('}') and '&tel' in pre else ('body' if ':-' in pre else 'head')
                mark = ('final-mark' if atom.startswith('__') else 'initial-mark' if atom.startswith('_') else 'past-prime' if atom.startswith("'")
                        else 'future-prime' if re.match(r"\w+'", atom) else 'atom')
        leak = ''
        if m and mark != 'atom' and mark != '?':
            pm = re.match(r"[_']*([a-z]\w*?)'?\(", atom + '(')
            if pm:
                pred = pm.group(1)
                words = pred.replace('_', ' ')
                marked = len(re.findall(r"(?<![A-Za-z0-9])(?:__|_|')" + re.escape(pred) + r"\(|(?<![A-Za-z0-9_'])" + re.escape(pred) + r"'\(", prog))
                said = len(re.findall(r'\b(?:previously|subsequently|initially|finally)\s+(?:an?\s+)?' + re.escape(words.split(' ')[0]), r['text']))
                if marked > said:
                    leak = '/mark-without-prefix-in-the-text'
        return f'{mark}-in-{where}' + leak + ('/' + r['kind'] if stress else '')
    if stress:
        return r['kind']
    m = re.match(r"\['([A-Z]\w*)'", msg)
    if m:
        v = m.group(1)
        outside = re.sub(r'&tel \{[^}]*\}', '', prog)
        if not re.search(r':-[^.]*\b' + v + r'\b', outside) and re.search(r'&tel \{[^}]*\b' + v + r'\b', prog):
            return 'invented-variable-bound-only-in-temporal-formula'
    if '#Anon' in msg:
        if F15_RE.search(r['text']) and re.search(r'^\{\w+\([^)]*\b_\b[^)]*\)\} :- ', prog, re.M):
            return 'then-object-reuses-whenever-label'
        if by_object(r['text'], prog, msg):
            return 'by-object-read-as-parameter'
        if object_is_subject_key(r['text'], prog, msg):
            return 'subject-and-object-concepts-share-a-key'
        return 'placeholder-in-rule'
    return r['kind'].split(':')[0]


def object_is_subject_key(text, prog, msg):
    """the offending rule is a choice 'Whenever there is a S …, then … can be VERB a O …' where concept O is (transitively) a key of S"""
    keys = {}
    for m in re.finditer(r'(?m)^An? (\w+) is identified by ([^.]*)\.', text):
        ident = m.group(2).split(', and has')[0]
        keys[m.group(1)] = re.findall(r'by an? (\w+)', 'by ' + ident if not ident.startswith('by') else ident) + re.findall(r'^an? (\w+)', ident)
    def closure(c, seen=()):
        out = set()
        for k in keys.get(c, []):
            if k in keys and k not in seen:
                out |= {k} | closure(k, seen + (c,))
        return out
    lines = prog.split('\n')
    for m in re.finditer(r'<block>:(\d+):', msg):
        ln = int(m.group(1))
        if not (0 < ln <= len(lines)):
            continue
        hm = re.match(r'(?:\d+ <= )?\{?(\w+)\(', lines[ln - 1])
        if not hm:
            return False
        verb = hm.group(1).replace('_', ' ')
        for sent in re.findall(r'[^.\n]*\b(?:be|is) (?:[a-z]+ )?' + verb + r'\b[^.]*\.', text):
            cs = [w for w in re.findall(r'[A-Za-z]+', sent.lower()) if w in keys]
            for a in range(len(cs)):
                for b in range(a + 1, len(cs)):
                    if ({cs[a]} | closure(cs[a])) & ({cs[b]} | closure(cs[b])):
                        return True
        return False
    return False


def by_object(text, prog, msg):
    """the offending rule is '{verb(_,…)} :- …' without a head condition and comes from '… then X can be VERB by a CONCEPT'"""
    m = re.search(r'<block>:(\d+):', msg)
    lines = prog.split('\n')
    if not m or not (0 < int(m.group(1)) <= len(lines)):
        return False
    hm = re.match(r'\{(\w+)\([^:{}]*\)\} :- ', lines[int(m.group(1)) - 1])
    return bool(hm and re.search(r'\bcan be ' + hm.group(1) + r' by an? \w+', text))
