"""C09 — documented paraphrases compile to the same program.

Lean: Props/C09.lean (synonym phrases map to one operator in the regenerated callback tables; non-synonyms stay distinct;
keyword alternatives present; verb -s and letter case are invisible to the string normalisers, for every word).
Tie: T-gen (tables) + T-corr: verb / concept words through the real compiler vs verbKey / conceptKey.
Search: single and multiple paraphrase substitutions (synonyms, every/any, goes/ranges, articles, plural nouns, verb -s,
negation auxiliaries, optional commas, letter case, white space / line breaks / comments between terminals) on corpus and
generated specifications; the real outputs must be byte-identical (x_<uuid> normalised).
"""
from __future__ import annotations

import random
import re

from .. import common, rt, corpus, gen_wide

PROP = 'C09'
MODULES = ['Cnl2aspModel.Props.C09']
THEOREMS = ['C09_synonyms', 'C09_distinct', 'C09_keywords_present', 'C09_verb_s', 'C09_case']

# (name, regex, replacement choices) — each is a substitution the language treats as equivalent
SYN = [
    ('cmp:equal', r'(?<= is )equal to(?! respectively)', ['the same as']),
    ('cmp:same', r'(?<= is )the same as', ['equal to']),
    ('cmp:more', r'(?<= is )more than', ['greater than']),
    ('cmp:greater', r'(?<= is )greater than(?! or)', ['more than']),
    ('cmp:atleast', r'(?<= is )at least', ['greater than or equal to']),
    ('cmp:ge', r'(?<= is )greater than or equal to', ['at least']),
    ('cmp:atmost', r'(?<= is )at most', ['less than or equal to', 'not after']),
    ('cmp:le', r'(?<= is )less than or equal to', ['at most', 'not after']),
    ('agg:highest', r'\bthe highest\b', ['the biggest']),
    ('agg:biggest', r'\bthe biggest\b', ['the highest']),
    ('agg:lowest', r'\bthe lowest\b', ['the smallest']),
    ('agg:smallest', r'\bthe smallest\b', ['the lowest']),
    ('quant:every', r'\bEvery\b', ['Any', 'every', 'any', 'EVERY']),
    ('quant:every-lc', r'(?<=that )every\b', ['any']),
    ('range:goes', r'\bgoes from\b', ['ranges from']),
    ('range:ranges', r'\branges from\b', ['goes from']),
    ('case:whenever', r'\bWhenever\b', ['whenever', 'WHENEVER']),
    ('case:whenever-lc', r'(?<=, )whenever\b', ['Whenever']),
    ('case:there', r'\bThere is\b', ['there is', 'THERE is']),
    ('case:it', r'\bIt is (?=prohibited|required|preferred)', ['it is ', 'IT is ']),
    ('comma:whenever', r'(?<![AP]M)(?<!\d), whenever there is', [' whenever there is']),
    # the optional comma is the one before a where-COMPARISON (', where X is …'), not the 'where' of an aggregate clause
    ('comma:where', r', where (?=[A-Z][A-Za-z0-9_]* is )', [' where ']),
    # verb negations after a subject; 'there is not a …' is another construct, and the next word must be a participle, not 'an'
    ('neg:isnot', r'(?<!there )\bis not (?=[a-z]{2,}ed\b|[a-z]{3,}n\b)', ['are not ', "aren't "]),
    ('tel:holds', r'\bholds\b', ['hold']),
    ('tel:triggers', r'\btriggers\b', ['trigger']),
    ('tel:implies', r'\bimplies\b', ['imply']),
]


def apply_one(text, rule, rng):
    name, rx, reps = rule
    ms = list(re.finditer(rx, text))
    ms = [m for m in ms if not in_comment_or_string(text, m.start())]
    if not ms:
        return None
    m = rng.choice(ms)
    return text[:m.start()] + rng.choice(reps) + text[m.end():]


def in_comment_or_string(text, pos):
    line_start = text.rfind('\n', 0, pos) + 1
    seg = text[line_start:pos]
    return '//' in seg or seg.count('"') % 2 == 1


def article_variants(text, rng):
    """a <-> an, and dropping the article, in front of a concept noun"""
    ms = [m for m in re.finditer(r'(?<![A-Za-z])(a|an) (?=[a-z]+\b)', text) if not in_comment_or_string(text, m.start())]
    # not the article of `is a constant`, `a set`, `a list`, `a temporal concept`, `with a length`, `be a`/`have a` copulas
    ms = [m for m in ms if not re.match(r'(constant|set|list|temporal|length)\b', text[m.end():])
          and not re.search(r'\b(be|is|are|have|has|is one of) $', text[:m.start()])]
    if not ms:
        return None
    m = rng.choice(ms)
    # dropping the article is only tried where the documentation shows it: directly after `there is [not]`
    can_drop = bool(re.search(r'[Tt]here is (not )?$', text[:m.start()]))
    rep = rng.choice(['an ', 'a ']) if (rng.random() < 0.7 or not can_drop) else ''
    if rep == m.group(0):
        rep = 'an ' if m.group(1) == 'a' else 'a '
    return text[:m.start()] + rep + text[m.end():]


def plural_variant(text, rng, concepts):
    """singular <-> plural of a declared concept noun in a non-declaring position"""
    cands = []
    for c in concepts:
        for m in re.finditer(r'(?<![A-Za-z_])' + re.escape(c) + r'(s?)(?![A-Za-z_])', text):
            if in_comment_or_string(text, m.start()):
                continue
            line_start = text.rfind('\n', 0, m.start()) + 1
            line = text[line_start:text.find('\n', m.start()) if text.find('\n', m.start()) >= 0 else len(text)]
            if re.search(r'is identified|is a temporal concept|is one of|goes from|ranges from', line):
                continue
            before = text[line_start:m.start()]
            if re.search(r'\b(with|by|has) (a |an |the )?([a-z_]+ )*$', before) or re.search(r'\b(have|in|each) (a |an )?$', before):
                continue      # part of an attribute name, not a concept noun
            cands.append(m)
    if not cands:
        return None
    m = rng.choice(cands)
    word = m.group(0)
    import inflect
    eng = inflect.engine()
    if m.group(1):
        new = eng.singular_noun(word) or word
    else:
        new = eng.plural(word)
    if new == word or not re.fullmatch(r'[A-Za-z_]+', new):
        return None
    return text[:m.start()] + new + text[m.end():]


def verb_s_variant(text, rng, verbs):
    cands = []
    for v in verbs:
        for m in re.finditer(r'(?<![A-Za-z_])' + re.escape(v) + r'(s?)(?= (to|in|from|by|a|an|exactly|at)\b)', text):
            if not in_comment_or_string(text, m.start()):
                cands.append(m)
    if not cands:
        return None
    m = rng.choice(cands)
    word = m.group(0)
    new = word[:-1] if m.group(1) else word + 's'
    return text[:m.start()] + new + text[m.end():]


def case_variant(text, rng, concepts):
    cands = []
    for c in concepts:
        # concept-noun positions only: after an article / quantifier / `the`, or at the start of a sentence
        for m in re.finditer(r'(?:(?<=\ba )|(?<=\ban )|(?<=[Ee]very )|(?<=[Aa]ny )|(?<=\.\n)|(?<=\n\n)|^)' + re.escape(c) + r'(?![A-Za-z_])',
                             text, flags=re.I | re.M):
            if in_comment_or_string(text, m.start()):
                continue
            line_start = text.rfind('\n', 0, m.start()) + 1
            before = text[line_start:m.start()]
            if re.search(r'\b(with|by|of|has|and|in|each|have|having) (a |an |the )?$', before) or 'is identified' in text[line_start:text.find('\n', m.start()) if text.find('\n', m.start()) >= 0 else len(text)]:
                continue
            cands.append(m)
    if not cands:
        return None
    m = rng.choice(cands)
    w = m.group(0)
    new = w.capitalize() if w.islower() else w.lower()
    if new.isupper():
        return None     # an all-upper-case word would be read as a variable
    return text[:m.start()] + new + text[m.end():]


def whitespace_variant(text, rng):
    """white space, line breaks and comments at sentence boundaries and around commas (never inside a keyword)"""
    kind = rng.choice(['blank', 'comment', 'block_comment', 'two_block_comments', 'indent', 'comma', 'crlf', 'join'])
    sents = [m for m in re.finditer(r'\.\s*\n', text) if not in_comment_or_string(text, m.start())]
    if kind == 'two_block_comments' and len(sents) >= 2:
        a, b = sorted(rng.sample(range(len(sents)), 2))
        ma, mb = sents[a], sents[b]
        return (text[:ma.start()] + '. /* first */\n' + text[ma.end():mb.start()] + '. /* second\n block */\n' + text[mb.end():])
    if kind in ('blank', 'comment', 'block_comment') and sents:
        m = rng.choice(sents)
        ins = {'blank': '.\n\n\n', 'comment': '.\n// a comment with words: is a the 12 X.\n', 'block_comment': '. /* block\n comment */\n'}[kind]
        return text[:m.start()] + ins + text[m.end():]
    if kind == 'indent':
        return '\n'.join(('   \t' + l if l.strip() and rng.random() < 0.5 else l) for l in text.split('\n'))
    if kind == 'comma':
        ms = [m for m in re.finditer(r', ', text) if not in_comment_or_string(text, m.start())]
        if ms:
            m = rng.choice(ms)
            return text[:m.start()] + rng.choice([' , ', ',\n    ', ',  ', ' ,']) + text[m.end():]
    if kind == 'crlf':
        return text.replace('\n', '\r\n')
    if kind == 'join' and sents:
        m = rng.choice(sents)
        return text[:m.start()] + '. ' + text[m.end():]
    return None


def paraphrases(text, rng, concepts, verbs, n):
    out = []
    kinds = ['syn'] * 5 + ['article', 'article', 'plural', 'plural', 'verb_s', 'case', 'case', 'ws', 'ws', 'multi', 'multi']
    tries = 0
    while len(out) < n and tries < n * 6:
        tries += 1
        k = rng.choice(kinds)
        cur = text
        label = k
        if k == 'multi':
            steps = []
            for _ in range(rng.randrange(2, 5)):
                kk = rng.choice(['syn', 'article', 'plural', 'verb_s', 'case', 'ws'])
                nxt, lab = one(cur, rng, kk, concepts, verbs)
                if nxt is not None:
                    cur = nxt
                    steps.append(lab)
            label = 'multi:' + '+'.join(steps)
            if not steps:
                continue
        else:
            cur, label = one(cur, rng, k, concepts, verbs)
            if cur is None:
                continue
        if cur != text:
            out.append((label, cur))
    return out


def one(text, rng, k, concepts, verbs):
    if k == 'syn':
        rules = list(SYN)
        rng.shuffle(rules)
        for r in rules:
            t = apply_one(text, r, rng)
            if t is not None:
                return t, r[0]
        return None, None
    if k == 'article':
        return article_variants(text, rng), 'article'
    if k == 'plural':
        return plural_variant(text, rng, concepts), 'plural'
    if k == 'verb_s':
        return verb_s_variant(text, rng, verbs), 'verb_s'
    if k == 'case':
        return case_variant(text, rng, concepts), 'case'
    return whitespace_variant(text, rng), 'whitespace'


def _job(args):
    text, variants = args
    base = rt.compile_cnl(text)
    res = []
    if base[0] != 'ok':
        return {'text': text, 'skip': True}
    b = rt.norm_uuid(base[1])
    for label, v in variants:
        r = rt.compile_cnl(v)
        if r[0] != 'ok':
            res.append((label, v, 'rejected', str(r[1])[:200]))
        elif rt.norm_uuid(r[1]) != b:
            bl, vl = b.split('\n'), rt.norm_uuid(r[1]).split('\n')
            i = next((k for k, (x, y) in enumerate(zip(bl, vl)) if x != y), min(len(bl), len(vl)))
            res.append((label, v, 'different', f'{bl[i] if i < len(bl) else None!r} vs {vl[i] if i < len(vl) else None!r}'))
        else:
            res.append((label, v, 'same', ''))
    return {'text': text, 'results': res}


def _copula_job(args):
    """every spelling of one auxiliary (be/are/is …, have/has …, with a / an / no article) must give the same program"""
    group, template = args
    outs = {}
    for cop in group:
        r = rt.compile_cnl(template.format(cop=cop))
        outs[cop] = rt.norm_uuid(r[1]) if r[0] == 'ok' else f'ERR {str(r[1])[:150]}'
    return (group, template, outs)


NOUNS = ['class', 'bus', 'address', 'process', 'box', 'match', 'city', 'glass', 'dish', 'truck', 'waitress', 'boss', 'lens', 'gas', 'virus',
         'status', 'bonus', 'campus', 'atlas', 'leaf', 'person', 'child', 'tax', 'quiz', 'hero', 'day', 'key', 'analysis', 'node', 'movie']


def _noun_job(noun):
    """singular vs plural of a concept noun (every plural morphology: -s, -es after sibilants, -ies, -ves, irregular) in a
    quantified subject and inside an aggregate"""
    import inflect
    pl = inflect.engine().plural(noun)
    outs = {}
    for w in (noun, pl):
        t = (f'A {noun} is identified by an id.\nA color is identified by an id.\nEvery {w} can be assigned to exactly 1 color.\n'
             f'It is prohibited that the number of {w} that are assigned to color C is more than 2, whenever there is a color C.\n')
        r = rt.compile_cnl(t)
        outs[w] = rt.norm_uuid(r[1]) if r[0] == 'ok' else f'ERR {str(r[1])[:200]}'
    return (noun, pl, outs)


def _verb_job(args):
    word, prep = args
    text = ('A node is identified by an id.\nA color is identified by an id.\n'
            f'Every node can {word}{" " + prep if prep else ""} a color.\n')
    r = rt.compile_cnl(text)
    if r[0] != 'ok':
        return None
    m = re.search(r'\{(\w+)\(', r[1])
    return m.group(1) if m else None


def main(tier):
    run = common.Run(PROP, tier)
    rng = random.Random(run.seed)
    run.coverage['rule'] = ('per specification (corpus + wide/temporal generators) 6 paraphrases (20 thorough): single substitutions of each class '
                            '(comparison / aggregate / temporal synonyms, every-any, goes-ranges, articles, plural nouns, verb -s, negation '
                            'auxiliaries, commas, letter case, white space / comments) and combinations of 2..4; outputs compared byte for byte; '
                            'non-trivial = distinct paraphrase')
    ok, tables, msg = common.run_tgen()
    if not ok:
        run.broke('tgen', 'extract_tables.py', msg)
        return run.finish()
    run.lean(MODULES, THEOREMS, extra_modules=['Cnl2aspModel.Compiler.Surface'])
    # ---- unit: verb / concept keys through the real compiler -------------------------------
    words = ['work', 'works', 'Work', 'like', 'likes', 'pass', 'passes', 'bus', 'sees', 'go', 'Move', 'moveS', 'kiss', 'focus']
    preps = [None, 'in', 'to', 'from', 'by']
    vcases = [(w, p) for w in words for p in preps if not (p == 'by')]
    real = rt.pmap(_verb_job, vcases, chunksize=4)
    answers = common.run_model([('c09.keys', {'word': w, **({'prep': p} if p else {})}) for w, p in vcases])
    for (w, p), r, a in zip(vcases, real, answers):
        run.count(('verb', w, p))
        if r is not None and r != a['verb']:
            run.broke('corr', 'verbKey vs the predicate the real compiler emits', {'word': w, 'prep': p, 'real': r, 'model': a['verb']})
            break
    # ---- the copula terminal: auxiliaries x articles ---------------------------------------------
    cops = tables['terminals']['COPULA']
    groups = [[c for c in cops if c.split()[0] in ('be', 'are', 'is')], [c for c in cops if c.split()[0] in ('have', 'has')]]
    decl = 'A patient is identified by an id.\nA day is identified by an id.\nA patient goes from 1 to 2.\nA day goes from 1 to 2.\n'
    templates = [decl + 'Every patient can {cop}assignment to a day.\n',
                 decl + 'Every patient can {cop}assigned to exactly 1 day.\n',
                 decl + 'Every patient can {cop}visits in a day.\n',
                 decl + 'Every patient can be seen in a day.\nIt is prohibited that patient P {cop}seen in day D, whenever there is a patient P, whenever there is a day D.\n',
                 decl + 'Every patient can have an exam to a day.\nIt is prohibited that patient P {cop}exam to day D, whenever there is a patient P, whenever there is a day D.\n']
    cjobs = [(g, t) for g in groups for t in templates]
    for group, template, outs in rt.pmap(_copula_job, cjobs, chunksize=1):
        run.count(('copula', tuple(group), template))
        vals = {}
        for cop, o in outs.items():
            vals.setdefault(o, []).append(cop)
        if len(vals) > 1:
            big = max(vals.values(), key=len)
            odd = [(c, o) for o, cs in vals.items() if cs is not big for c in cs]
            run.violation(f'copula/{group[0].split()[0]}', f'auxiliary spellings {[c for c, _ in odd]} compile differently from {big}: {odd[0][1][-150:]!r}',
                          {'template': template, 'outputs': outs})
    # ---- noun grid: singular / plural of concept nouns of every plural morphology --------------
    for noun, pl, outs in rt.pmap(_noun_job, NOUNS, chunksize=2):
        run.count(('noun', noun))
        if outs[noun].startswith('ERR'):
            run.note(f'noun grid: the singular form of {noun!r} does not compile: {outs[noun][:100]}')
            continue
        if noun != pl and outs[noun] != outs[pl]:
            run.violation(f'plural/{noun}', f"'{pl}' in place of '{noun}' compiles differently: {outs[pl][-200:]!r}",
                          {'noun': noun, 'plural': pl, 'outputs': outs})
    # ---- search -------------------------------------------------------------------------
    n_par = 6 if tier == 'quick' else 20
    jobs = []
    specs = []
    for _ in range(60 if tier == 'quick' else 600):
        sp = gen_wide.gen_spec(rng)
        specs.append((sp.text(), [c.name for c in sp.concepts], [v[0] for v in sp.verbs.values()]))
    for _ in range(15 if tier == 'quick' else 150):
        sp = gen_wide.gen_temporal_spec(rng)
        specs.append((sp.text(), [c.name for c in sp.concepts], []))
    for name, t in corpus.corpus():
        if tier == 'quick' and len(t) > 2500 and rng.random() < 0.6:
            continue
        concepts = re.findall(r'^\s*An? (\w+) is identified', t, flags=re.M) + re.findall(r'^\s*An? (\w+) (?:goes|ranges) from', t, flags=re.M)
        specs.append((t, [c.lower() for c in concepts], []))
    for text, concepts, verbs in specs:
        vs = paraphrases(text, rng, concepts, verbs, n_par)
        if vs:
            jobs.append((text, vs))
    jobs.sort(key=lambda j: -len(j[0]))
    results = rt.pmap(_job, jobs, chunksize=1)
    dist = {}
    for r in results:
        if r.get('skip'):
            continue
        for label, v, verdict, detail in r['results']:
            cls = label.split(':')[0] if not label.startswith('multi') else 'multi'
            dist[cls] = dist.get(cls, 0) + 1
            run.count((label, v))
            if verdict != 'same':
                run.violation(f'paraphrase/{verdict}/{label if not label.startswith("multi") else "multi"}',
                              f'paraphrase [{label}] is {verdict}: {detail}', {'cnl': r['text'], 'paraphrase': v, 'kind': label, 'detail': detail})
    run.coverage['paraphrase_classes'] = dist
    for r in results[-2:]:
        if not r.get('skip') and r['results']:
            run.sample({'kind': r['results'][0][0], 'paraphrase': r['results'][0][1][:300]})
    run.assumptions += ['invariance under articles, commas, white space and comments rests on Lark (%ignore, anonymous tokens, case-insensitive '
                        'terminals) and on inflect (plural nouns): exercised by the search, not proved',
                        'white space is varied only between terminals (a line break inside a multi-word keyword is a syntax error by design, F18)']
    return run.finish()
