"""C16 — temporal concepts enumerate their range in chronological order.

Lean: Props/C16.lean (closed form of the enumeration loop for all ranges/lengths, id order =
chronological order, 12-hour-clock injectivity, Gregorian calendar lemmas, refinement of the date
loop to the integer loop, rejection of values outside the range).
Tie (T-corr unit): the real TemporalEntityComponent(...).values / get_temporal_value_id and Python's
datetime against the model's computeValues / valueId / nextDay / toOrd / fmtDate on the same inputs.
Search: compile() of a temporal concept + ordering constraint; facts compared with an independent
arithmetic oracle; the constraint solved by clingo for every point of the range.
"""
from __future__ import annotations

import datetime
import random

from .. import common, rt, aspast

PROP = 'C16'
MODULES = ['Cnl2aspModel.Props.C16']
THEOREMS = ['C16_points', 'C16_points_mem', 'C16_before_after', 'C16_fmtTime_inj', 'C16_ampm', 'C16_time_roundtrip',
            'C16_time_values', 'C16_nextDay', 'C16_date_order', 'C16_date_refines', 'C16_reject']


# ---------------------------------------------------------------------------
# independent oracle (plain arithmetic, no datetime)
# ---------------------------------------------------------------------------
def fmt_time(m):
    h = m // 60
    h12 = 12 if h % 12 == 0 else h % 12
    return f'{h12:02d}:{m % 60:02d} {"AM" if h < 12 else "PM"}'


def is_leap(y):
    return (y % 4 == 0 and y % 100 != 0) or y % 400 == 0


def dim(y, m):
    return [31, 29 if is_leap(y) else 28, 31, 30, 31, 30, 31, 31, 30, 31, 30, 31][m - 1]


def next_day(y, m, d):
    if d < dim(y, m):
        return (y, m, d + 1)
    if m < 12:
        return (y, m + 1, 1)
    return (y + 1, 1, 1)


def fmt_date(t):
    return f'{t[2]:02d}/{t[1]:02d}/{t[0]:04d}'


def oracle_points(kind, a, b, l):
    """list of printed values of the range [a, b] with step l; a, b in internal form."""
    out = []
    if kind == 'time':
        m = a
        while m <= b:
            out.append(fmt_time(m))
            m += l
    elif kind == 'step':
        out = [str(i) for i in range(a, b + 1)]
    else:
        cur = a
        while cur <= b:
            out.append(fmt_date(cur))
            for _ in range(l):
                cur = next_day(*cur)
    return out


# ---------------------------------------------------------------------------
# T-corr unit
# ---------------------------------------------------------------------------
def real_values(kind, a, b, l):
    from cnl2asp.specification.entity_component import TemporalEntityComponent, EntityType
    et = {'time': EntityType.TIME, 'date': EntityType.DATE, 'step': EntityType.STEP}[kind]
    try:
        with rt.time_limit(20):
            e = TemporalEntityComponent('t', '', a, b, str(l), et)
        return {'ok': [[str(k), v] for k, v in e.values.items()]}
    except rt.NonTermination:
        return {'err': 'nontermination'}
    except Exception as ex:  # noqa
        return {'err': 'bad-length' if (kind != 'step' and l <= 0) else 'type-mismatch'}


def real_id(kind, a, b, l, v):
    from cnl2asp.specification.entity_component import TemporalEntityComponent, EntityType
    et = {'time': EntityType.TIME, 'date': EntityType.DATE, 'step': EntityType.STEP}[kind]
    try:
        e = TemporalEntityComponent('t', '', a, b, str(l), et)
    except Exception:  # noqa
        return {'err': 'type-mismatch'}
    try:
        key = int(v) if (kind == 'step' and v.isnumeric()) else v
        return {'ok': e.get_temporal_value_id(key)}
    except KeyError:
        return {'err': 'out-of-range'}


def gen_unit_cases(rng, tier):
    cases = []
    n_time = 500 if tier == 'quick' else 5000
    # times: boundaries first (AM/PM, noon, midnight), then random
    bounds = [0, 1, 59, 60, 61, 659, 660, 719, 720, 721, 779, 780, 1380, 1438, 1439]
    for a in bounds:
        for b in bounds:
            if a <= b:
                for l in (1, 7, 30, 60, 61, 719, 720):
                    if (b - a) // l <= 200:
                        cases.append(('time', fmt_time(a), fmt_time(b), l))
    for _ in range(n_time):
        a = rng.randrange(1440)
        b = rng.randrange(a, 1440)
        l = rng.choice([1, 2, 3, 5, 7, 10, 15, 20, 30, 45, 60, 90, 120, rng.randrange(1, 300)])
        if (b - a) // l > 300:
            l = max(l, (b - a) // 300 + 1)
        cases.append(('time', fmt_time(a), fmt_time(b), l))
    # a length of 0: rejected (the enumeration A, A+L, … needs 0 < L)
    cases += [('time', '07:30 AM', '09:00 AM', 0), ('time', '12:00 AM', '12:00 AM', 0), ('date', '27/02/2024', '02/03/2024', 0),
              ('date', '01/01/2024', '01/01/2024', 0)]
    # unpadded / lower-case spellings and malformed values
    for a, b in (('7:30 AM', '8:00 AM'), ('07:30 am', '08:00 am'), ('7:5 AM', '8:00 AM'), ('13:00 AM', '01:00 PM'),
                 ('00:30 AM', '01:00 AM'), ('12:60 AM', '01:00 AM'), ('07:30', '08:00'), ('07:30 XM', '08:00 AM'),
                 ('08:00 AM', '07:00 AM'), ('11:00 PM', '11:59 PM'), ('12:00 AM', '12:00 AM'), ('1/1/2024', '2/1/2024')):
        cases.append(('time', a, b, 10))
    # dates: month ends, year ends, leap years
    years = [1999, 2000, 2001, 2023, 2024, 2100, 1900, 2400, 1000, 9990]
    starts = []
    for y in years:
        for m in range(1, 13):
            for d in (1, dim(y, m) - 1, dim(y, m)):
                starts.append((y, m, d))
    rng.shuffle(starts)
    n_date = 250 if tier == 'quick' else len(starts)
    for (y, m, d) in starts[:n_date]:
        span = rng.choice([0, 1, 2, 3, 29, 31, 59, 61, 366])
        l = rng.choice([1, 1, 2, 3, 7, 28, 30, 31, 365])
        e = (y, m, d)
        for _ in range(span):
            e = next_day(*e)
        if e[0] > 9999:
            continue
        cases.append(('date', fmt_date((y, m, d)), fmt_date(e), l))
    for a, b in (('31/02/2023', '05/03/2023'), ('29/02/2023', '05/03/2023'), ('29/02/2024', '05/03/2024'),
                 ('1/3/2024', '5/3/2024'), ('01/13/2024', '05/03/2025'), ('00/01/2024', '05/01/2024'),
                 ('01/01/24', '05/01/24'), ('05/03/2024', '01/03/2024'), ('07:30 AM', '08:00 AM'), ('1', '4')):
        cases.append(('date', a, b, 1))
    # steps
    for a in range(0, 7):
        for b in range(0, 9):
            cases.append(('step', str(a), str(b), 1))
    for a, b in (('1', '4.5'), ('1.0', '3'), ('x', '3'), ('07:30 AM', '3'), ('10', '25'), ('0', '0'), ('007', '9')):
        cases.append(('step', a, b, 1))
    return cases


def corr_unit(run, rng):
    cases = gen_unit_cases(rng, run.tier)
    reqs = [('c16.values', {'kind': k, 'a': a, 'b': b, 'l': l}) for (k, a, b, l) in cases]
    # id lookups: in-range points, off-grid and out-of-range values, for a subset
    id_cases = []
    for (k, a, b, l) in cases[::7]:
        rv = real_values(k, a, b, l)
        if 'ok' not in rv:
            continue
        vals = [x[0] for x in rv['ok']]
        probes = vals[:2] + vals[-2:]
        if k == 'time':
            probes += [fmt_time(rng.randrange(1440)), '7:30 AM', 'noon']
        elif k == 'date':
            probes += ['30/02/2024', fmt_date((2024, 2, 29)), '01/01/1000']
        else:
            probes += [str(rng.randrange(30)), '-1', '1.0']
        for v in probes:
            id_cases.append((k, a, b, l, v))
    reqs += [('c16.id', {'kind': k, 'a': a, 'b': b, 'l': l, 'v': v}) for (k, a, b, l, v) in id_cases]
    # calendar
    cal = []
    n_cal = 3000 if run.tier == 'quick' else 60000
    for y in (1, 4, 100, 400, 1000, 1582, 1899, 1900, 1999, 2000, 2023, 2024, 2100, 9999):
        for m in range(1, 13):
            for d in (1, 15, 28, 29, 30, 31):
                cal.append((y, m, d))
    for _ in range(n_cal):
        cal.append((rng.randrange(1, 10000), rng.randrange(1, 13), rng.randrange(1, 32)))
    cal += [(2024, 0, 1), (2024, 13, 1), (2024, 1, 0), (0, 1, 1)]
    reqs += [('c16.cal', {'y': y, 'm': m, 'd': d}) for (y, m, d) in cal]
    answers = common.run_model(reqs)
    n = 0
    kinds = {}
    for (k, a, b, l), ans in zip(cases, answers[:len(cases)]):
        real = real_values(k, a, b, l)
        run.count(('values', k, a, b, l), nontrivial='ok' in real and len(real['ok']) > 1)
        kinds[(k, 'ok' in real)] = kinds.get((k, 'ok' in real), 0) + 1
        if real.get('err') == 'nontermination':
            run.violation(f'unit/nontermination/{k}', f'TemporalEntityComponent({a!r}, {b!r}, length {l}) does not terminate',
                          {'kind': k, 'a': a, 'b': b, 'length': l})
            continue
        if real != ans:
            run.broke('corr', 'computeValues vs TemporalEntityComponent.values',
                      {'input': [k, a, b, l], 'real': str(real)[:300], 'model': str(ans)[:300]})
            n += 1
            if n > 5:
                break
    off = len(cases)
    for (k, a, b, l, v), ans in zip(id_cases, answers[off:off + len(id_cases)]):
        real = real_id(k, a, b, l, v)
        run.count(('id', k, a, b, l, v))
        kinds[('id', 'ok' in real)] = kinds.get(('id', 'ok' in real), 0) + 1
        if real != ans:
            run.broke('corr', 'valueId vs get_temporal_value_id', {'input': [k, a, b, l, v], 'real': real, 'model': ans})
            break
    off += len(id_cases)
    for (y, m, d), ans in zip(cal, answers[off:]):
        try:
            dt = datetime.date(y, m, d)
            real = {'valid': True, 'ord': dt.toordinal(), 'fmt': f'{d:02d}/{m:02d}/{y:04d}'}
            if dt < datetime.date.max:
                nx = dt + datetime.timedelta(days=1)
                real['next'] = [nx.year, nx.month, nx.day]
            else:
                real['next'] = ans['next']
            # strftime on years < 1000 is not zero-padded by glibc; the model claims years 1000..9999 only
            if y >= 1000 and dt.strftime('%d/%m/%Y') != real['fmt']:
                run.broke('corr', 'oracle fmt vs strftime', [y, m, d])
        except ValueError:
            real = {'valid': False}
        run.count(('cal', y, m, d), nontrivial=real['valid'])
        if real['valid']:
            cmp = {k: ans[k] for k in ('valid', 'ord', 'next')}
            cmp['fmt'] = ans['fmt']
            if y < 1000:
                cmp.pop('fmt')
                real.pop('fmt')
            if cmp != real:
                run.broke('corr', 'calendar model vs datetime', {'input': [y, m, d], 'real': real, 'model': ans})
                break
        elif ans['valid']:
            run.broke('corr', 'calendar validity vs datetime', {'input': [y, m, d], 'model': ans})
            break
    run.coverage['unit_case_distribution'] = {f'{k[0]}/{"accepted" if k[1] else "rejected"}': v for k, v in kinds.items()}
    run.coverage['unit_cases'] = len(reqs)
    run.sample({'unit': cases[0], 'real': real_values(*cases[0])})


# ---------------------------------------------------------------------------
# search: end to end on the real compiler + clingo
# ---------------------------------------------------------------------------
def e2e_cases(rng, tier):
    out = []
    n = 36 if tier == 'quick' else 300
    for i in range(n):
        kind = ['time', 'date', 'step'][i % 3]
        if kind == 'time':
            a = rng.choice([0, 30, 450, 660, 690, 700, 719, 720, 1380, rng.randrange(1440)])
            l = rng.choice([1, 5, 10, 15, 30, 45, 60])
            npts = rng.randrange(1, 7)
            b = min(1439, a + l * (npts - 1) + rng.randrange(0, l))
            pts = list(range(a, b + 1, l))
            decl = (f'A timeslot is a temporal concept expressed in minutes ranging from {fmt_time(a)} to {fmt_time(b)} '
                    f'with a length of {l} minutes.')
            vals = [fmt_time(p) for p in pts]
            off = [fmt_time(m) for m in (a - 1, a + 1, b + 1, b + l) if 0 <= m < 1440 and m not in pts]
            name = 'timeslot'
        elif kind == 'date':
            y = rng.choice([2023, 2024, 2000, 2100, 1999])
            m = rng.choice([1, 2, 2, 2, 12, 12, rng.randrange(1, 13)])
            d = rng.choice([1, dim(y, m) - 1, dim(y, m), min(27, dim(y, m))])
            l = rng.choice([1, 1, 2, 3, 7])
            npts = rng.randrange(1, 7)
            cur = (y, m, d)
            allp = [cur]
            for _ in range(l * (npts - 1) + rng.randrange(0, l)):
                cur = next_day(*cur)
                allp.append(cur)
            pts = allp[::l]
            b = allp[-1]
            decl = (f'A day is a temporal concept expressed in days ranging from {fmt_date((y, m, d))} to {fmt_date(b)}'
                    + (f' with a length of {l} days.' if (l != 1 or rng.random() < 0.5) else '.'))
            vals = [fmt_date(p) for p in pts]
            off = [fmt_date(p) for p in allp if p not in pts][:2] + [fmt_date(next_day(*b))]
            name = 'day'
        else:
            a = rng.randrange(0, 6)
            b = a + rng.randrange(0, 6)
            decl = f'A step is a temporal concept expressed in steps ranging from {a} to {b}.'
            vals = [str(i) for i in range(a, b + 1)]
            off = [str(b + 1), str(b + 7)] + ([str(a - 1)] if a > 0 else [])
            name = 'step'
        out.append({'kind': kind, 'decl': decl, 'name': name, 'vals': vals, 'off': off})
    return out


def _e2e_job(args):
    case, form, word, v = args
    name = case['name']
    head = f'{case["decl"]}\nA visit is identified by an id, and by a {name}.\n'
    if form == 'subject':
        sent = f'It is prohibited that the visit V is {word} {v}.'
    else:
        sent = (f'It is prohibited that there is a visit with {name} T, whenever there is a {name} T that is {word} {v}.')
    text = head + sent
    r = rt.compile_cnl(text)
    vals = case['vals']
    problems = []
    if v not in vals:
        if r[0] == 'ok':
            problems.append(f'value {v} outside the range accepted: {r[1]!r}')
        elif r[1].get('line') != 3 or v not in str(r[1].get('msg')):
            problems.append(f'rejection does not cite line 3 and the value: {r[1]}')
        return (text, problems, 1)
    if r[0] != 'ok':
        return (text, [f'in-range value rejected: {r[1]}'], 1)
    out = r[1]
    expected_facts = [f'{name}({i},"{val}").' for i, val in enumerate(vals)]
    lines = [l for l in out.strip().split('\n') if l]
    facts = [l for l in lines if not l.startswith(':-')]
    if facts != expected_facts:
        problems.append(f'facts {facts[:8]} != expected {expected_facts[:8]}')
    cons = [l for l in lines if l.startswith(':-')]
    solves = 0
    vi = vals.index(v)
    for k in range(len(vals)):
        prog = '\n'.join(facts + cons) + f'\nvisit(1,{k}).\n'
        s = rt.clingo_sat(prog)
        solves += 1
        should_reject = (k > vi) if word == 'after' else (k < vi)
        if s[0] != 'ok':
            problems.append(f'clingo error: {s[1]}')
            break
        if s[1] == should_reject:
            problems.append(f'point {vals[k]} (id {k}) {"accepted" if s[1] else "rejected"} by "{word} {v}"')
    return (text, problems, solves)


def search(run, rng):
    cases = e2e_cases(rng, run.tier)
    jobs = []
    for c in cases:
        for form in ('subject', 'whenever'):
            for word in ('before', 'after'):
                probes = list(dict.fromkeys([c['vals'][0], c['vals'][-1], rng.choice(c['vals'])] + c['off'][:2]))
                if run.tier == 'thorough':
                    probes = list(dict.fromkeys(c['vals'] + c['off']))
                for v in probes:
                    jobs.append((c, form, word, v))
    results = rt.pmap(_e2e_job, jobs, chunksize=4)
    for (c, form, word, v), (text, problems, solves) in zip(jobs, results):
        run.coverage['evaluations'] += solves
        run._distinct.add(('e2e', c['decl'], form, word, v))
        if problems:
            key = f'e2e/{c["kind"]}/{form}/{word}/{"in" if v in c["vals"] else "out"}'
            run.violation(key, problems[0], {'cnl': text, 'problems': problems,
                                             'oracle': 'independent calendar arithmetic + clingo per point'})
    run.coverage['e2e_compilations'] = len(jobs)
    run.sample({'e2e': jobs[0][0]['decl'], 'probe': jobs[0][1:]})


def main(tier):
    run = common.Run(PROP, tier)
    rng = random.Random(run.seed)
    run.coverage['rule'] = ('unit cases: (kind, A, B, L) ranges run through the real TemporalEntityComponent and the Lean model '
                            '(boundaries AM/PM/noon/midnight, month/year/leap ends, malformed values), id lookups, calendar days vs '
                            'datetime; e2e: compile(temporal concept + before/after constraint), facts vs arithmetic oracle, one '
                            'clingo solve per point; non-trivial = accepted range with more than one point / valid date / distinct e2e probe')
    run.lean(MODULES, THEOREMS, extra_modules=['Cnl2aspModel.Compiler.TemporalRange'])
    rt.enable_lark_cache()
    try:
        corr_unit(run, rng)
    except RuntimeError as e:
        run.broke('corr', 'model driver', e)
    search(run, rng)
    run.assumptions += [
        "Python datetime.strptime/strftime/timedelta are modelled (minutes of the day; Gregorian triples), compared with the real "
        "datetime on every run; years 1000..9999",
        'a length of 0 is rejected by the model (0 < L) and, after fix e206f50, by the code; before it _compute_values looped forever',
        'ranges whose overshoot point B+L would pass 31/12/9999 raise OverflowError inside datetime (reported by the code as a '
        'type mismatch); the model has no upper calendar bound and the generator stays below year 9992',
    ]
    return run.finish()
