"""C01 — the compiled program has exactly the models the specification describes.

Lean: Asp/Sem.lean (answer sets: least model of the reduct, choice bounds, constraints; all environments, no grounding bound),
Asp/SemLemmas.lean (Fages' theorem for ranked programs), Cnl/Core.lean (resolved core sentences, the rules printed for them,
their direct reading), Props/C01.lean (C01_main: Stable (compile s) M <-> RefModel s M for every stratified s and every M;
bounds table over the regenerated QUANTITY_OPERATOR table; corollaries).
Tie: T-gen (quantity phrases -> bounds, from the live callbacks) + T-corr: for generated resolved specifications the real
compiler's output for the surface text is compared rule by rule (modulo variable names, body order, repeated literals,
interval facts) with the model's `compile`.
Search: clingo's answer sets of the REAL output vs the models of the direct reading enumerated on the finite domains.
"""
from __future__ import annotations

import itertools
import random

from .. import common, rt, gen_core, aspast

PROP = 'C01'
MODULES = ['Cnl2aspModel.Props.C01']
THEOREMS = ['C01_main', 'C01_decide', 'C01_bounds_table', 'C01_prohibited', 'C01_required', 'C01_choice', 'C01_closed',
            'C01_stratified_check']
EXTRA = ['Cnl2aspModel.Asp.Sem', 'Cnl2aspModel.Asp.SemLemmas', 'Cnl2aspModel.Cnl.Core', 'Cnl2aspModel.Cnl.CoreLemmas',
         'Cnl2aspModel.Cnl.Stratify', 'Cnl2aspModel.Cnl.RefExec', 'Cnl2aspModel.Cnl.RefExecLemmas', 'Cnl2aspModel.Cnl.RefExecSound']

OPSYM = {'eq': '=', 'ne': '!=', 'lt': '<', 'le': '<=', 'gt': '>', 'ge': '>='}


# ---------------------------------------------------------------------------
# canonical form of rules (both sides)
# ---------------------------------------------------------------------------
def m_term(t):
    if 'v' in t:
        return ('var', f'V{t["v"]}')
    if 'n' in t:
        return ('num', t['n'])
    return ('str', t['s'])


def m_atom(a, sign=0):
    return ('atom', sign, a['p'], [m_term(x) for x in a['args']])


def m_lit(l):
    if l['k'] == 'pos':
        return m_atom(l['a'], 0)
    if l['k'] == 'neg':
        return m_atom(l['a'], 1)
    return ('cmp', 0, m_term(l['l']), [(OPSYM[l['op']], m_term(l['r']))])


def m_rule(r):
    h = r['head']
    if h['k'] == 'none':
        head = ('none',)
    elif h['k'] == 'atom':
        head = ('atom', m_atom(h['a']))
    else:
        lo = ('<=', ('num', h['lo'])) if h['lo'] is not None else None
        hi = ('<=', ('num', h['hi'])) if h['hi'] is not None else None
        head = ('choice', lo, [('cond', m_atom(h['a']), [m_lit(c) for c in h['cond']])], hi)
    body = [m_lit(l) for l in r['body']]
    for a in r.get('aggs', []):
        body.append(m_agg(a))
    return head, body


def m_agg(a):
    els = [([m_term(t) for t in a['tuple']], [m_lit(c) for c in a['cond']])]
    return ('agg', 0, None, a['fn'], els, (OPSYM[a['op']], m_term(a['bound'])))


def rename_term(t, ren, counter):
    k = t[0]
    if k == 'var':
        if t[1] == '_':
            counter[0] += 1
            return ('var', f'_anon{counter[0]}')
        return ('var', ren.get(t[1], t[1]))
    if k == 'fun':
        return ('fun', t[1], [rename_term(a, ren, counter) for a in t[2]])
    if k == 'bin':
        return ('bin', t[1], rename_term(t[2], ren, counter), rename_term(t[3], ren, counter))
    if k == 'un':
        return ('un', t[1], rename_term(t[2], ren, counter))
    return t


def rename_lit(l, ren, counter):
    k = l[0]
    if k == 'atom':
        return ('atom', l[1], l[2], [rename_term(a, ren, counter) for a in l[3]])
    if k == 'cmp':
        return ('cmp', l[1], rename_term(l[2], ren, counter), [(op, rename_term(t, ren, counter)) for op, t in l[3]])
    if k == 'cond':
        return ('cond', rename_lit(l[1], ren, counter), [rename_lit(c, ren, counter) for c in l[2]])
    if k == 'agg':
        lg = (l[2][0], rename_term(l[2][1], ren, counter)) if l[2] else None
        rg = (l[5][0], rename_term(l[5][1], ren, counter)) if l[5] else None
        els = [([rename_term(t, ren, counter) for t in ts], [rename_lit(c, ren, counter) for c in cond]) for ts, cond in l[4]]
        return ('agg', l[1], lg, l[3], els, rg)
    return l


def rename_head(h, ren, counter):
    if h[0] == 'atom':
        return ('atom', rename_lit(h[1], ren, counter))
    if h[0] == 'choice':
        lo = (h[1][0], rename_term(h[1][1], ren, counter)) if h[1] else None
        hi = (h[3][0], rename_term(h[3][1], ren, counter)) if h[3] else None
        return ('choice', lo, [rename_lit(e, ren, counter) for e in h[2]], hi)
    return h


def all_vars(head, body):
    acc = []
    def lit_vars(l):
        k = l[0]
        if k == 'atom':
            for a in l[3]:
                aspast.term_vars(a, acc)
        elif k == 'cmp':
            aspast.term_vars(l[2], acc)
            for _, t in l[3]:
                aspast.term_vars(t, acc)
        elif k == 'cond':
            lit_vars(l[1])
            for c in l[2]:
                lit_vars(c)
        elif k == 'agg':
            for g in (l[2], l[5]):
                if g:
                    aspast.term_vars(g[1], acc)
            for ts, cond in l[4]:
                for t in ts:
                    aspast.term_vars(t, acc)
                for c in cond:
                    lit_vars(c)
    if head[0] == 'atom':
        lit_vars(head[1])
    elif head[0] == 'choice':
        for g in (head[1], head[3]):
            if g:
                aspast.term_vars(g[1], acc)
        for e in head[2]:
            lit_vars(e)
    for l in body:
        lit_vars(l)
    return acc


def freeze(x):
    if isinstance(x, (list, tuple)):
        return tuple(freeze(y) for y in x)
    return x


def norm_lit_sets(l):
    """conditions of choice elements / aggregate elements as sorted sets"""
    k = l[0]
    if k == 'cond':
        return ('cond', l[1], tuple(sorted(set(freeze(c) for c in l[2]), key=repr)))
    if k == 'agg':
        els = tuple((freeze(ts), tuple(sorted(set(freeze(c) for c in cond), key=repr))) for ts, cond in l[4])
        return ('agg', l[1], freeze(l[2]), l[3], els, freeze(l[5]))
    return freeze(l)


def scope_agg_locals(head, body):
    """variables that occur only inside one aggregate literal are local to it: give them a name of their own per literal"""
    plain = [l for l in body if l[0] != 'agg']
    outside = set(all_vars(head, plain))
    for l in body:
        if l[0] == 'agg':
            for g in (l[2], l[5]):
                if g:
                    outside.update(aspast.term_vars(g[1], []))
    out = []
    for i, l in enumerate(body):
        if l[0] == 'agg':
            inner = set(all_vars(('none',), [('agg', l[1], None, l[3], l[4], None)]))
            ren = {v: f'{v}@{i}' for v in inner if v not in outside and v != '_'}
            out.append(rename_lit(l, ren, [0]) if ren else l)
        else:
            out.append(l)
    return out


def canon_rule(head, body):
    """minimum, over all namings of the variables, of (head, sorted set of body literals)"""
    # make every '_' a distinct variable first
    counter = [0]
    head = rename_head(head, {}, counter)
    body = [rename_lit(l, {}, counter) for l in body]
    body = scope_agg_locals(head, body)
    seen, uniq = set(), []
    for l in body:                     # repeated literals count once
        f = freeze(l)
        if f not in seen:
            seen.add(f)
            uniq.append(l)
    body = uniq
    occ = all_vars(head, body)
    single = {v for v in occ if occ.count(v) == 1}
    if single:      # a variable that occurs once is identified by its position alone
        ren0 = {v: '_s' for v in single}
        c0 = [0]
        head = rename_head(head, ren0, c0)
        body = [rename_lit(l, ren0, c0) for l in body]
    vs = sorted(set(all_vars(head, body)) - {'_s'})
    best = None
    # order the variables by where they occur (an invariant of renaming); only variables with the same occurrence
    # signature are permuted among themselves
    def sig(v):
        mark = {x: ('#' if x == v else '.') for x in vs}
        c1 = [0]
        h1 = rename_head(head, mark, c1)
        if h1[0] == 'choice':
            h1 = ('choice', h1[1], tuple(norm_lit_sets(e) for e in h1[2]), h1[3])
        b1 = tuple(sorted((repr(norm_lit_sets(rename_lit(l, mark, c1))) for l in body)))
        return repr((freeze(h1), b1))
    sigs = {v: sig(v) for v in vs}
    vs = sorted(vs, key=lambda v: sigs[v])
    groups = []
    for v in vs:
        if groups and sigs[groups[-1][0]] == sigs[v]:
            groups[-1].append(v)
        else:
            groups.append([v])
    total = 1
    for g in groups:
        for k in range(2, len(g) + 1):
            total *= k
    if total <= 5040:
        def gen_perms(i):
            if i == len(groups):
                yield []
                return
            for p in itertools.permutations(groups[i]):
                for rest in gen_perms(i + 1):
                    yield list(p) + rest
        orders = gen_perms(0)
    else:
        orders = [list(vs)]
    perms = ({v: k for k, v in enumerate(o)} for o in orders)
    for perm in perms:
        ren = {v: f'C{perm[v]}' for v in vs}
        c2 = [0]
        h2 = rename_head(head, ren, c2)
        if h2[0] == 'choice':
            h2 = ('choice', h2[1], tuple(norm_lit_sets(e) for e in h2[2]), h2[3])
        b2 = tuple(sorted(set(norm_lit_sets(rename_lit(l, ren, c2)) for l in body), key=repr))
        cand = repr((freeze(h2), b2))
        if best is None or cand < best:
            best = cand
    return best


def expand_fact(stmt):
    """node(1..3). -> three facts"""
    h = stmt['head']
    if h[0] == 'atom' and not stmt['body']:
        lit = h[1]
        args = lit[3]
        pools = []
        for a in args:
            if a[0] == 'interval' and a[1][0] == 'num' and a[2][0] == 'num':
                pools.append([('num', k) for k in range(a[1][1], a[2][1] + 1)])
            else:
                pools.append([a])
        return [(('atom', ('atom', lit[1], lit[2], list(combo))), []) for combo in itertools.product(*pools)]
    return [(h, stmt['body'])]


def norm_guards(h):
    """clingo.ast keeps `{…} <= 2` as a left guard `2 >= {…}`: bring both guards to (lower, upper)"""
    if h[0] != 'choice':
        return h
    lo = hi = None
    rest = []
    for side, g in (('l', h[1]), ('r', h[3])):
        if not g:
            continue
        op, t = g
        if side == 'l' and op == '<=' or side == 'r' and op == '>=':
            lo = ('<=', t)
        elif side == 'l' and op == '>=' or side == 'r' and op == '<=':
            hi = ('<=', t)
        else:
            rest.append((side, g))
    if rest:
        return h
    return ('choice', lo, h[2], hi)


def real_rules(program):
    out = []
    for st in aspast.parse(program):
        if st['kind'] == 'rule':
            for h, b in expand_fact(st):
                out.append(canon_rule(norm_guards(h), b))
        elif st['kind'] == 'weak':
            out.append('weak:' + st['text'])
        elif st['kind'] not in ('program',):
            out.append(st['kind'] + ':' + st['text'])
    return out


# ---------------------------------------------------------------------------
def atoms_of_model(symbols):
    out = set()
    for s in symbols:
        args = []
        for a in s.arguments:
            if a.type.name == 'Number':
                args.append(a.number)
            elif a.type.name == 'String':
                args.append(a.string)
            else:
                args.append(str(a))
        out.add((s.name,) + tuple(args))
    return frozenset(out)


def clingo_answer_sets(program, limit=20001):
    import clingo
    ctl = clingo.Control(['0', '--warn=none'], logger=lambda c, m: None)
    ctl.add('base', [], program)
    ctl.ground([('base', [])])
    out = []
    with ctl.solve(yield_=True) as h:
        for m in h:
            out.append(atoms_of_model(m.symbols(atoms=True)))
            if len(out) >= limit:
                return None
    return out


def make_probes(A, R, k=4):
    """finite interpretations on which the Lean twin of the direct reading is evaluated: answer sets, reference models, and
    neighbours of reference models (one atom removed / one atom of another model added); each with `is a reference model`"""
    key = lambda m: sorted(map(repr, m))
    As, Rs = sorted(A, key=key), sorted(R, key=key)
    cands = As[:k] + Rs[:k] + As[-2:] + Rs[-2:]
    pool = sorted(set().union(*Rs) if Rs else set(), key=repr)
    for m in Rs[:2] + Rs[-1:]:
        ms = sorted(m, key=repr)
        if ms:
            cands.append(frozenset(ms[:-1]))
            cands.append(frozenset(ms[1:]))
        extra = [a for a in pool if a not in m]
        if extra:
            cands.append(frozenset(set(m) | {extra[0]}))
            cands.append(frozenset(set(m) | {extra[-1]}))
    out, seen = [], set()
    for m in cands:
        if m not in seen:
            seen.add(m)
            out.append(([[a[0], list(a[1:])] for a in sorted(m, key=repr)], m in R))
    return out[:16]


def lean_reading_check(run, items):
    """items: (spec_ast, probes, text).  The Lean executable twin of RefModel (Cnl/RefExec.lean) must agree with the Python
    enumeration of the direct reading on every probe."""
    def nvars(o, acc):
        if isinstance(o, dict):
            if set(o.keys()) == {'v'}:
                acc.add(o['v'])
            for x in o.values():
                nvars(x, acc)
        elif isinstance(o, list):
            for x in o:
                nvars(x, acc)
        return acc
    reqs, idx = [], []
    skipped = 0
    for ast, probes, text in items:
        if not probes:
            continue
        usize = len({v for s in ast if s['k'] == 'facts' for t in s['tuples'] for v in t})
        worst = max((len(nvars(s, set())) for s in ast if s['k'] != 'facts'), default=0)
        if (usize ** worst) * len(probes) > 300000:
            skipped += 1         # the twin enumerates |U|^vars assignments per sentence: keep the run bounded
            continue
        universe = []
        for s in ast:
            if s['k'] == 'facts':
                for t in s['tuples']:
                    for v in t:
                        if v not in universe:
                            universe.append(v)
        reqs.append(('c01.ref', {'spec': ast, 'universe': universe,
                                 'models': [[{'p': a[0], 'args': a[1]} for a in m] for m, _ in probes]}))
        idx.append((ast, probes, text))
    answers = common.run_model(reqs) if reqs else []
    n = 0
    exact = 0
    for (ast, probes, text), a in zip(idx, answers):
        if a is not None and a.get('exact'):
            exact += len(probes)
        if a is None or 'err' in a:
            run.broke('corr', 'the driver cannot evaluate the direct reading on a generated specification', {'cnl': text, 'answer': a})
            continue
        for (m, in_ref), lean in zip(probes, a['ok']):
            n += 1
            run.count(('reading-probe', text, repr(m)))
            if lean is None or bool(lean) != in_ref:
                run.broke('corr', 'Cnl/RefExec.lean refCheckB vs the Python enumeration of the direct reading (two implementations of '
                          'the same reading disagree)', {'cnl': text, 'interpretation': m, 'lean': lean, 'python_reference_model': in_ref})
                break
    run.coverage['reading_probes'] = n
    run.coverage['reading_probes_decided_by_the_proved_procedure'] = exact     # hypotheses of C01_decide evaluated true by the driver
    run.coverage['reading_probe_specs_skipped_for_size'] = skipped


def _job(args):
    text, ast, order = args
    rt.enable_lark_cache()
    r = rt.compile_cnl(text)
    if r[0] != 'ok':
        return {'rejected': str(r[1])[:300]}
    prog = r[1]
    res = {'program': prog}
    try:
        res['rules'] = real_rules(prog)
    except Exception as e:
        res['rules_error'] = repr(e)[:300]
    try:
        ans = clingo_answer_sets(prog)
    except RuntimeError as e:
        res['solver_error'] = str(e)[:300]
        ans = None
    ref = gen_core.ref_models(ast, order)
    if ans is None or ref is None:
        res['undecided'] = True
        return res
    A = set(ans)
    R = set(frozenset(m) for m in ref)
    res['n_models'] = len(A)
    res['probes'] = make_probes(A, R)
    if A != R:
        only_a = sorted(A - R, key=lambda m: sorted(map(repr, m)))[:2]
        only_r = sorted(R - A, key=lambda m: sorted(map(repr, m)))[:2]
        res['diff'] = {'answer_sets': len(A), 'reference_models': len(R),
                       'answer_set_not_a_model': [sorted(map(list, m), key=repr) for m in only_a],
                       'model_not_an_answer_set': [sorted(map(list, m), key=repr) for m in only_r]}
    return res


def first_diff_sentence(spec, model_rules, real):
    """which sentence's rules are missing from the real output"""
    real_set = set(real)
    for s, rules in zip(spec.owners(), model_rules):
        for r in rules:
            if canon_rule(*m_rule(r)) not in real_set:
                return s
    return None


# ---------------------------------------------------------------------------
# constraints over a CONJUNCTION of two clauses (`… and also …`): outside the Lean fragment, judged against a brute-force reading
# ---------------------------------------------------------------------------
CONJ_DECL = ('A node is identified by an id.\nA color is identified by an id.\nA node goes from 1 to 2.\nA color is one of red, green.\n'
             'Every node can be painted in a color.\n')


def _conj_job(args):
    pol, c1, n1, c2, n2 = args
    cl = lambda c, n: f'node X is {"not " if n else ""}painted in color {c}'
    sent = f'It is {pol} that {cl(c1, n1)} and also {cl(c2, n2)}, whenever there is a node X.'
    text = CONJ_DECL + sent + '\n'
    r = rt.compile_cnl(text)
    if r[0] != 'ok':
        return {'cnl': text, 'rejected': str(r[1])[:200]}
    ms = rt.clingo_models(r[1], shown={'painted_in'})
    if ms[0] != 'ok':
        return {'cnl': text, 'program': r[1], 'solver_error': ms[1][:300]}
    got = {frozenset(m) for m in ms[1]}
    pairs = [(n, c) for n in (1, 2) for c in ('red', 'green')]
    want = set()
    for bits in range(1 << len(pairs)):
        chosen = {p for i, p in enumerate(pairs) if bits >> i & 1}
        ok = True
        for x in (1, 2):
            situation = (((x, c1) in chosen) != n1) and (((x, c2) in chosen) != n2)
            # prohibited: the situation occurs for no node; required: it occurs for every node
            if situation == (pol == 'prohibited'):
                ok = False
                break
        if ok:
            want.add(frozenset(f'painted_in({n},"{c}")' for n, c in chosen))
    out = {'cnl': text, 'program': r[1]}
    if got != want:
        odd = sorted(got ^ want, key=lambda m: (len(m), sorted(m)))[0]
        out['diff'] = {'answer_sets': len(got), 'reference_models': len(want), 'example': sorted(odd), 'in_answer_sets': odd in got}
    return out


def conjunction_family(run):
    jobs = [(pol, c1, n1, c2, n2) for pol in ('prohibited', 'required') for (c1, c2) in (('red', 'green'),)
            for n1 in (False, True) for n2 in (False, True)]
    for j, r in zip(jobs, rt.pmap(_conj_job, jobs, chunksize=1)):
        run.count(('conjunction', j))
        key = f'conjunction/{j[0]}'
        if 'rejected' in r:
            run.violation('rejected/' + key, f'rejected by the compiler: {r["rejected"][:200]}', {'cnl': r['cnl']})
        elif 'solver_error' in r:
            run.violation('solver-error/' + key, f'clingo rejects the compiled program: {r["solver_error"][:200]}', {'cnl': r['cnl'], 'program': r['program']})
        elif 'diff' in r:
            run.violation(key, f'answer sets differ from the direct reading ({r["diff"]["answer_sets"]} vs {r["diff"]["reference_models"]}); '
                          f'e.g. {r["diff"]["example"]} is {"" if r["diff"]["in_answer_sets"] else "not "}an answer set',
                          {'cnl': r['cnl'], 'program': r['program'], **r['diff']})


def main(tier):
    run = common.Run(PROP, tier)
    rng = random.Random(run.seed)
    run.coverage['rule'] = ('generated resolved core specifications (2-3 concepts with finite domains, 1-3 relations each defined by a choice or a '
                            'definition over earlier relations, 0-3 constraints): T-corr compares the real output with Core.compile rule by rule; '
                            'the search compares clingo\'s answer sets of the real output with the models of the direct reading; non-trivial = '
                            'distinct specification text')
    run.lean(MODULES, THEOREMS, extra_modules=EXTRA)
    n = 200 if tier == 'quick' else 3000
    specs = [gen_core.gen_spec(rng) for _ in range(n)]
    specs += fixed_specs()
    reqs = [('c01.compile', {'spec': sp.ast(), 'order': sp.order}) for sp in specs]
    answers = common.run_model(reqs)
    jobs = [(sp.text(), sp.ast(), sp.order) for sp in specs]
    results = rt.pmap(_job, jobs, chunksize=2)
    stats = {'accepted': 0, 'rejected': 0, 'undecided': 0, 'models': 0, 'unsat': 0}
    kinds = {}
    for sp, a, r in zip(specs, answers, results):
        if a is None or 'err' in a:
            run.broke('corr', 'the driver cannot read a generated specification (generator / codec error)', {'cnl': sp.text(), 'answer': a})
            continue
        if not a['stratified']:
            run.broke('corr', 'a generated specification is not stratified in its own order (generator error)', {'cnl': sp.text()})
            continue
        if 'rejected' in r:
            stats['rejected'] += 1
            # the generator writes specifications of the fragment only: a rejection leaves the specification without a program
            run.violation('rejected/' + sp.sentences[-1].kind, f'a specification of the fragment is rejected by the compiler: {r["rejected"][:200]}',
                          {'cnl': sp.text(), 'error': r['rejected']})
            continue
        stats['accepted'] += 1
        run.count(sp.text())
        for s in sp.sentences:
            kinds[s.kind] = kinds.get(s.kind, 0) + 1
        # ---- T-corr ------------------------------------------------------
        aliased = any(classify(sp, x).endswith('same-relation-positive-and-negated') for x in sp.sentences if x.kind != 'facts')
        if aliased:
            pass        # finding F30: the model does not reproduce the aliasing of the two occurrences; the search below reports it
        elif 'rules' in r:
            model = sorted(canon_rule(*m_rule(x)) for rules in a['rules'] for x in rules)
            real = sorted(r['rules'])
            if sorted(set(model)) != sorted(set(real)):
                s = first_diff_sentence(sp, a['rules'], real)
                run.broke('corr', 'Core.compile vs the real compiler (rule sets differ)',
                          {'cnl': sp.text(), 'sentence': s.text if s else None, 'program': r['program'],
                           'model_only': sorted(set(model) - set(real))[:3], 'real_only': sorted(set(real) - set(model))[:3]})
        else:
            run.broke('corr', 'the real output cannot be read back', {'cnl': sp.text(), 'program': r['program'], 'error': r.get('rules_error')})
        # ---- search ------------------------------------------------------
        if r.get('solver_error'):
            run.violation('solver-error', f'clingo rejects the compiled program: {r["solver_error"][:200]}',
                          {'cnl': sp.text(), 'program': r['program']})
        elif r.get('undecided'):
            stats['undecided'] += 1
        else:
            stats['models'] += r['n_models']
            stats['unsat'] += r['n_models'] == 0
            if 'diff' in r:
                s = first_diff_sentence(sp, a['rules'], r.get('rules', []))
                key = classify(sp, s)
                if aliased:
                    key = next(classify(sp, x) for x in sp.sentences if x.kind != 'facts' and classify(sp, x).endswith('negated'))
                run.violation(key, f'answer sets differ from the direct reading ({r["diff"]["answer_sets"]} vs {r["diff"]["reference_models"]})'
                              + (f'; sentence: {s.text}' if s else ''),
                              {'cnl': sp.text(), 'program': r['program'], 'sentence': s.text if s else None, **r['diff']})
    lean_reading_check(run, [(sp.ast(), r.get('probes'), sp.text()) for sp, r in zip(specs, results) if 'probes' in r])
    # the side condition of C01_decide / C06_core_safe (range restriction) is evaluated by the driver on every generated specification
    safe = common.run_model([('c01.safe', {'spec': sp.ast()}) for sp in specs])
    nsafe = 0
    for sp, a in zip(specs, safe):
        if a and a.get('safe'):
            nsafe += 1
        elif not any(classify(sp, x).endswith('same-relation-positive-and-negated') for x in sp.sentences if x.kind != 'facts'):
            run.broke('corr', 'a generated specification is not range-restricted (generator error: the proved procedures do not apply to it)',
                      {'cnl': sp.text(), 'answer': a})
            break
    run.coverage['range_restricted_specifications'] = nsafe
    run.coverage['specifications'] = stats
    run.coverage['sentence_kinds'] = kinds
    for sp in specs[:3]:
        run.sample({'cnl': sp.text()[-400:]})
    run.assumptions += ["clingo's answer sets are the answer sets of Asp/Sem.lean `Stable` on the emitted rule shapes (validated on every run: the "
                        'direct reading, which C01_main proves equal to `Stable`, predicts clingo\'s answer sets of the real output)',
                        'the surface text of a resolved sentence is produced by the generator; that the real parser / linker reads it as that '
                        'resolved sentence is what the rule-by-rule correspondence checks']
    conjunction_family(run)
    return run.finish()


def classify(sp, s):
    if s is None:
        return 'models/unknown'
    a = s.ast
    clauses = a.get('conds', []) + a.get('cs', []) + ([a['main']] if 'main' in a else [])
    seen = {}
    for c in clauses:
        if c['k'] == 'verb':
            key = repr((c['v']['verb'], c['v']['subj'], c['v']['objs']))
            if key in seen and seen[key] != c['v']['neg']:
                return f'models/{a["k"]}/same-relation-positive-and-negated'
            seen[key] = c['v']['neg']
    if a['k'] == 'choice':
        c = a['card']
        ck = c['k'] if c['k'] != 'single' else c['q'].lower()
        zero = (c.get('n') == 0) or (c.get('m') == 0)
        return f'models/choice/{ck}' + ('/zero-bound' if zero else '')
    if a['k'] == 'required':
        m = a['main']
        neg = (m.get('neg') if m['k'] == 'ent' else m['v']['neg'] if m['k'] == 'verb' else False)
        return f'models/required/{m["k"]}' + ('/negated' if neg else '')
    return f'models/{a["k"]}'


def fixed_specs():
    """the grid part: every cardinality phrase x bounds 0..3, every constraint polarity x negation, on one small schema"""
    out = []
    rng = random.Random(12345)
    for q, name in (('exactly', 'EXACTLY'), ('at most', 'AT_MOST'), ('at least', 'AT_LEAST')):
        for n in range(0, 4):
            for modal in ('can', 'must'):
                sp = base_schema()
                v = gen_core.Verb('assigned', 'to', sp.concepts[0], sp.concepts[1])
                sp.verbs.append(v)
                sp.order.append(v.pred)
                t = f'Every node {modal} be assigned to {q} {n} color.'
                ast = {'k': 'choice', 'conds': [], 'v': gen_core.verbuse(v, False, gen_core.ent(sp.concepts[0], {'v': 0}), gen_core.ent(sp.concepts[1], {'v': 1})),
                       'card': {'k': 'single', 'q': name, 'n': n}}
                sp.sentences.append(gen_core.Sentence(t, ast, 'choice'))
                out.append(sp)
    for n in range(0, 3):
        for m in range(n, 4):
            sp = base_schema()
            v = gen_core.Verb('assigned', 'to', sp.concepts[0], sp.concepts[1])
            sp.verbs.append(v)
            sp.order.append(v.pred)
            t = f'Every node can be assigned to between {n} and {m} color.'
            ast = {'k': 'choice', 'conds': [], 'v': gen_core.verbuse(v, False, gen_core.ent(sp.concepts[0], {'v': 0}), gen_core.ent(sp.concepts[1], {'v': 1})),
                   'card': {'k': 'between', 'n': n, 'm': m}}
            sp.sentences.append(gen_core.Sentence(t, ast, 'choice'))
            out.append(sp)
    # constraint grid over a unary and a binary relation
    for pol in ('prohibited', 'required'):
        for neg in (False, True):
            for form in ('every', 'whenever', 'there-is'):
                sp = base_schema()
                c0, c1 = sp.concepts
                v = gen_core.Verb('chosen', None, c0, None)
                sp.verbs.append(v)
                sp.order.append(v.pred)
                sp.sentences.append(gen_core.Sentence('Every node can be chosen.', {'k': 'choice', 'conds': [], 'card': {'k': 'any'},
                                    'v': gen_core.verbuse(v, False, gen_core.ent(c0, {'v': 0}), None)}, 'choice'))
                main = {'k': 'verb', 'v': gen_core.verbuse(v, neg, gen_core.ent(c0, {'v': 0}), None)}
                nt = 'not ' if neg else ''
                if form == 'every':
                    if pol != 'required':
                        continue
                    t = f'It is required that every node X is {nt}chosen.'
                    ast = {'k': 'required', 'main': main, 'conds': []}
                elif form == 'whenever':
                    t = f'It is {pol} that node X is {nt}chosen, whenever there is a node X.'
                    cond = {'k': 'ent', 'neg': False, 'e': gen_core.ent(c0, {'v': 0})}
                    ast = {'k': 'required', 'main': main, 'conds': [cond]} if pol == 'required' else {'k': 'prohibited', 'cs': [main, cond]}
                else:
                    t = f'It is {pol} that there is {nt}a chosen with node id X, whenever there is a node X.'
                    m2 = {'k': 'ent', 'neg': neg, 'e': {'c': 'chosen', 'a': [{'v': 0}], 'k': 1}}
                    cond = {'k': 'ent', 'neg': False, 'e': gen_core.ent(c0, {'v': 0})}
                    ast = {'k': 'required', 'main': m2, 'conds': [cond]} if pol == 'required' else {'k': 'prohibited', 'cs': [m2, cond]}
                sp.sentences.append(gen_core.Sentence(t, ast, 'constraint'))
                out.append(sp)
    # the same relation positive and negated in one sentence (a contradiction: the defined relation never holds)
    sp = base_schema()
    c0, c1 = sp.concepts
    busy = gen_core.Verb('busy', None, c0, None)
    closed = gen_core.Verb('closed', None, c0, None)
    sp.verbs += [busy, closed]
    sp.order += ['busy', 'closed']
    e0 = gen_core.ent(c0, {'v': 0})
    sp.sentences.append(gen_core.Sentence('Every node can be busy.', {'k': 'choice', 'conds': [], 'card': {'k': 'any'},
                        'v': gen_core.verbuse(busy, False, e0, None)}, 'choice'))
    sp.sentences.append(gen_core.Sentence('Node X is closed when node X is busy and also node X is not busy.',
                        {'k': 'derived', 'v': gen_core.verbuse(closed, False, e0, None),
                         'conds': [{'k': 'verb', 'v': gen_core.verbuse(busy, False, e0, None)}, {'k': 'verb', 'v': gen_core.verbuse(busy, True, e0, None)}]}, 'derived'))
    out.append(sp)
    return out


def base_schema():
    sp = gen_core.Spec()
    c0 = gen_core.Concept('node')
    c1 = gen_core.Concept('color')
    c0.tuples = [(1,), (2,)]
    c1.tuples = [('red',), ('green',), ('blue',)]
    c1.kind = 'str'
    sp.concepts = [c0, c1]
    sp.decls = ['A node is identified by an id.', 'A color is identified by an id.']
    sp.order = ['node', 'color']
    sp.sentences.append(gen_core.Sentence('A node goes from 1 to 2.', {'k': 'facts', 'pred': 'node', 'tuples': [[1], [2]]}, 'facts'))
    sp.sentences.append(gen_core.Sentence('A color is one of red, green, blue.', {'k': 'facts', 'pred': 'color', 'tuples': [['red'], ['green'], ['blue']]}, 'facts'))
    return sp
