"""C07 — invented variables never capture or merge with the author's.

Lean: Props/C07.lean (both real name generators are transcribed and proved sound w.r.t. the avoid-list; for ANY
sound namer the names invented within a rule are pairwise distinct and never one of the author's variables, provided
the author's variables are in the collision list).
Tie: T-corr unit — the real create_new_field_value / _new_field_value on adversarial (avoid-list, base) pairs: the
property-carrying relation (result not in the avoid-list) and the exact transcription; T-corr layer — for every
generated sentence the author's variables must be in the real `proposition.defined_attributes` (collision list).
Search: author variables renamed to names the compiler invents for the same specification (and CNT, SM, MX, MN with
suffixes); the two outputs must be identical up to a renaming of variables within each rule.
"""
from __future__ import annotations

import random
import re

from .. import common, rt, corpus, gen_wide, harvest

PROP = 'C07'
MODULES = ['Cnl2aspModel.Props.C07']
THEOREMS = ['C07_converter_fresh', 'C07_parser_fresh', 'C07_invented_distinct', 'C07_no_capture']

VAR_RE = re.compile(r'(?<![A-Za-z0-9_"])[A-Z][A-Z0-9_]*(?![A-Za-z0-9_"(])')
STR_RE = re.compile(r'"[^"]*"')


def strip_upper(name):
    return re.sub(r'[AEIOU]', '', name, flags=re.IGNORECASE).upper()


# ---------------------------------------------------------------------------
def unit_cases(rng, n):
    bases = ['node_id', 'color_id', 'count', 'sum', 'max', 'min', 'x', 'x0', 'x9', 'x19', 'x1y1', 'a1b', 'id', 'day_day',
             'assigned_to_id', 'n007', 'element', 'x99', 'q_1', 'k10']
    cases = []
    for b in bases:
        s = strip_upper(b)
        for k in range(0, 5):
            avoid = [s] + [s + str(i) for i in range(1, k + 1)]
            cases.append((avoid, b))
            cases.append((avoid[::-1] + ['ZZ'], b))
    for _ in range(n):
        b = ''.join(rng.choice('abcdeiounxy019_') for _ in range(rng.randrange(1, 7)))
        if not b.strip('_') or b[0] in '0123456789_':
            b = 'v' + b
        s = strip_upper(b)
        avoid = [s] * rng.randrange(0, 2)
        cur = s
        for _ in range(rng.randrange(0, 4)):
            m = re.search(r'\d+$', cur)
            cur = (cur[:m.start()] + str(int(m.group()) + 1)) if (m and int(m.group())) else cur + '1'
            if rng.random() < 0.85:
                avoid.append(cur)
        rng.shuffle(avoid)
        cases.append((avoid, b))
    return cases


def real_converter(avoid, base):
    from cnl2asp.converter.asp_converter import ASPConverter
    c = ASPConverter()
    c._created_fields = list(avoid)
    try:
        r = c.create_new_field_value(base)
        return {'ok': str(r), 'avoid': [str(x) for x in c._created_fields]}
    except RecursionError:
        return {'err': 'recursion'}


def real_parser(avoid, base):
    from cnl2asp.parser.parser import CNLTransformer
    t = CNLTransformer()
    t._defined_variables = list(avoid)
    try:
        r = t._new_field_value(base)
        return {'ok': str(r), 'avoid': [str(x) for x in t._defined_variables]}
    except RecursionError:
        return {'err': 'recursion'}


# ---------------------------------------------------------------------------
def canon_rules(out):
    """per-rule canonical form: variables renamed by order of first occurrence; strings untouched"""
    rules = []
    for line in rt.norm_uuid(out).split('\n'):
        line = line.strip()
        if not line:
            continue
        seen = {}
        parts = []
        pos = 0
        # protect quoted strings
        for m in STR_RE.finditer(line):
            parts.append((line[pos:m.start()], True))
            parts.append((m.group(0), False))
            pos = m.end()
        parts.append((line[pos:], True))

        def sub(mm):
            v = mm.group(0)
            if v not in seen:
                seen[v] = f'V{len(seen)}'
            return seen[v]
        rules.append(''.join(VAR_RE.sub(sub, t) if live else t for t, live in parts))
    return rules


def output_vars(out):
    vs = []
    for line in out.split('\n'):
        line = STR_RE.sub('""', line)
        for m in VAR_RE.finditer(line):
            if m.group(0) not in vs:
                vs.append(m.group(0))
    return vs


def rename_text(text, mapping):
    """consistently rename the author's variables in a CNL text (outside quoted strings and comments)"""
    if not mapping:
        return text
    pat = re.compile(r'(?<![A-Za-z0-9_"])(' + '|'.join(sorted(map(re.escape, mapping), key=len, reverse=True)) + r')(?![A-Za-z0-9_"])')
    out = []
    for line in text.split('\n'):
        code, sep, comment = line.partition('//')
        pos = 0
        res = ''
        for m in STR_RE.finditer(code):
            res += pat.sub(lambda mm: mapping[mm.group(1)], code[pos:m.start()]) + m.group(0)
            pos = m.end()
        res += pat.sub(lambda mm: mapping[mm.group(1)], code[pos:])
        out.append(res + sep + comment)
    return '\n'.join(out)


def corpus_author_vars(text):
    """variables written by the author of a corpus text (upper-case tokens; the article `A`/`I` and temporal AM/PM excluded)"""
    body = '\n'.join(l.partition('//')[0] for l in text.split('\n'))
    body = STR_RE.sub('""', body)
    vs = []
    for m in VAR_RE.finditer(body):
        v = m.group(0)
        if v in ('A', 'I', 'AM', 'PM') or v in vs:
            continue
        vs.append(v)
    return vs


def _search_job(args):
    text, author, seed, n_single = args
    rng = random.Random(seed)
    base = rt.compile_cnl(text)
    if base[0] != 'ok':
        return {'text': text, 'skip': str(base[1])[:200]}
    taken = set(author) | set(VAR_RE.findall(STR_RE.sub('""', text)))   # every upper-case token of the text stays reserved
    invented = [v for v in output_vars(base[1]) if v not in taken]
    # names the *parser* invents (they are in the collision list before conversion starts)
    parser_invented = set()
    try:
        _, _, snap = harvest.parse_and_convert(text)
        for prob in snap:
            for props in prob:
                parser_invented |= {str(x) for x in props if str(x) not in taken and str(x) != '_'}
    except Exception:  # noqa
        pass
    pool = list(invented)
    for v in invented + ['CNT', 'SM', 'MX', 'MN', 'D', 'LMNT']:
        for suf in ('', '1', '2'):
            if v + suf not in pool:
                pool.append(v + suf)
    # spellings with an inner underscore (the shape of most invented names), built from the author's own variables
    for v in list(author)[:4]:
        for cand in (f'{v}_{v}', f'{v}_D', f'{v}_1'):
            if cand not in pool:
                pool.append(cand)
    pool = [p for p in pool if re.fullmatch(r'[A-Z][A-Z0-9_]*', p) and p not in ('A', 'I', 'AM', 'PM')]
    problems = []
    tried = 0
    # candidate renamings: (a) single author variable -> a name invented in the SAME rule (the dangerous ones, incl. the
    # next-suffix variants the namer would fall back to), (b) random injective multi-variable renamings
    singles = []
    for line in base[1].split('\n'):
        lv = output_vars(line)
        av = [v for v in lv if v in author]
        iv = [v for v in lv if v in invented]
        for v in av:
            for t in iv:
                for cand in (t, t + '1', re.sub(r'\d+$', '', t) or t):
                    if cand not in taken and re.fullmatch(r'[A-Z][A-Z0-9_]*', cand) and (v, cand) not in singles:
                        singles.append((v, cand))
    rng.shuffle(singles)
    mappings = [{v: t} for v, t in singles[:n_single]]
    # one underscore spelling per author variable (single renamings)
    for v in list(author)[:3]:
        cand = rng.choice([f'{v}_{v}', f'{v}_D', f'{v}_1'])
        if cand not in taken:
            mappings.append({v: cand})
    for attempt in range(2):
        if not author or not pool:
            break
        targets = list(pool)
        rng.shuffle(targets)
        targets = list(dict.fromkeys([t for t in invented if rng.random() < 0.8] + targets))
        vs = list(author)
        rng.shuffle(vs)
        mapping = {}
        free = [t for t in targets if t not in taken]
        for v in vs:
            if free and rng.random() < 0.8:
                mapping[v] = free.pop(0)
        if mapping:
            mappings.append(mapping)
    for mapping in mappings:
        renamed = rename_text(text, mapping)
        r2 = rt.compile_cnl(renamed)
        tried += 1
        if r2[0] != 'ok':
            problems.append({'mapping': mapping, 'why': f'renamed text rejected: {str(r2[1])[:200]}', 'renamed': renamed})
            continue
        c1, c2 = canon_rules(base[1]), canon_rules(r2[1])
        if c1 != c2:
            i = next((k for k, (a, b) in enumerate(zip(c1, c2)) if a != b), min(len(c1), len(c2)))
            phase = 'parser-phase' if any(t in parser_invented for t in mapping.values()) else 'converter-phase'
            problems.append({'mapping': mapping, 'rule_index': i, 'phase': phase,
                             'original_rule': base[1].strip().split('\n')[i] if i < len(c1) else None,
                             'renamed_rule': r2[1].strip().split('\n')[i] if i < len(c2) else None, 'renamed': renamed})
    return {'text': text, 'tried': tried, 'problems': problems, 'n_invented': len(invented)}


def _layer_job(args):
    decl, sent_text, author = args
    try:
        _, _, snap0 = harvest.parse_and_convert(decl)
        spec, enc, snap = harvest.parse_and_convert(decl + sent_text + '\n')
    except Exception as e:  # noqa
        return {'skip': f'{type(e).__name__}'}
    n0 = sum(len(prob) for prob in snap0)
    lists = [[str(x) for x in props] for prob in snap for props in prob][n0:]
    # only variables that the compiler actually emits for this sentence can be captured
    r0, r1 = rt.compile_cnl(decl), rt.compile_cnl(decl + sent_text + '\n')
    emitted = set()
    if r0[0] == 'ok' and r1[0] == 'ok':
        l0 = [l for l in r0[1].split('\n') if l.strip()]
        l1 = [l for l in r1[1].split('\n') if l.strip()]
        emitted = set(output_vars('\n'.join(l1[len(l0):] if l1[:len(l0)] == l0 else l1)))
    missing = []
    for v in author:
        if v in emitted and lists and not all(v in l for l in lists):
            # is the emitted `v` really the author's label?  (a label on a multi-key entity is not printed at all, and the
            # compiler's own invented D / CNT may be spelled the same): rename the label; an unchanged output means it is not emitted
            ren = rt.compile_cnl(decl + re.sub(r'\b' + re.escape(v) + r'\b', 'QZW', sent_text) + '\n')
            if ren[0] == 'ok' and r1[0] == 'ok' and ren[1] == r1[1]:
                continue
            missing.append(v)
    return {'lists': lists[:3], 'missing': missing}


def duration_specs(rng):
    """sentences whose variables end up inside a printed range value (`T..T+N`): duration clauses over a temporal concept"""
    out = []
    for (c, k, attr, w) in (('patient', 'seat', 'need', 'position'), ('truck', 'dock', 'load', 'stay'), ('nurse', 'ward', 'hours', 'turn')):
        n, t, p, s = rng.sample(['N', 'T', 'P', 'S', 'K', 'H', 'W', 'Q'], 4)
        text = ('A timeslot is a temporal concept expressed in minutes ranging from 07:30 AM to 09:00 AM with a length of 10 minutes.\n'
                f'A {k} is identified by an id.\nA {c} is identified by an id, and has a {attr}.\n'
                f'A {w} is identified by a {c}, by a {k}, and by a timeslot.\n'
                f'Whenever there is a {c} {p} with {attr} {n}, whenever there is a timeslot {t}, then we can have a {w} with {c} {p}, '
                f'with timeslot {t} in exactly 1 {k} {s} for {n} timeslots.\n')
        out.append((text, [n, t, p, s]))
    return out


def main(tier):
    run = common.Run(PROP, tier)
    rng = random.Random(run.seed)
    run.coverage['rule'] = ('unit: adversarial (avoid-list, base) pairs through both real namers; layer: author variables of every generated '
                            'sentence vs the real collision list; search: up to 3 injective renamings of the author variables of each '
                            'specification into the names the compiler invented for it (and CNT/SM/MX/MN/D with suffixes), outputs compared '
                            'per rule up to variable renaming; non-trivial = specification with at least one invented variable')
    run.lean(MODULES, THEOREMS, extra_modules=['Cnl2aspModel.Compiler.Naming'])
    # ---- unit ---------------------------------------------------------------------
    cases = unit_cases(rng, 600 if tier == 'quick' else 6000)
    reqs = []
    for avoid, b in cases:
        reqs.append(('c07.namer', {'avoid': avoid, 'name': b, 'which': 'converter'}))
        reqs.append(('c07.namer', {'avoid': avoid, 'name': b, 'which': 'parser'}))
    answers = common.run_model(reqs)
    exact_mismatch = 0
    for i, (avoid, b) in enumerate(cases):
        for which, real_fn, ans in (('converter', real_converter, answers[2 * i]), ('parser', real_parser, answers[2 * i + 1])):
            real = real_fn(avoid, b)
            run.count(('unit', which, tuple(avoid), b), nontrivial=strip_upper(b) in avoid)
            if 'ok' in real and real['ok'] in avoid:
                run.violation(f'unit/{which}/not-fresh', f'{which} namer returned {real["ok"]!r}, which is in the avoid-list {avoid}',
                              {'avoid': avoid, 'base': b, 'returned': real['ok']})
            if 'ok' in real and not set(avoid) <= set(real['avoid']):
                run.violation(f'unit/{which}/forgets', f'{which} namer dropped names from the avoid-list',
                              {'avoid': avoid, 'base': b, 'after': real['avoid']})
            if 'ok' in real and real['ok'] not in real['avoid']:
                run.violation(f'unit/{which}/unrecorded', f'{which} namer did not record the name it returned',
                              {'avoid': avoid, 'base': b, 'returned': real['ok'], 'after': real['avoid']})
            if real != ans:
                exact_mismatch += 1
                if exact_mismatch <= 3:
                    run.note(f'exact transcription differs (informational): {which} {avoid} {b}: real {real} model {ans}')
    run.coverage['unit_cases'] = 2 * len(cases)
    run.coverage['exact_transcription_mismatches'] = exact_mismatch
    if exact_mismatch:
        run.broke('corr', 'exact transcription of the namers', f'{exact_mismatch} cases differ (see notes)')
    # ---- specifications ---------------------------------------------------------------
    n_wide = 110 if tier == 'quick' else 1500
    specs = [gen_wide.gen_spec(rng) for _ in range(n_wide)]
    # layer: collision list completeness, sentence by sentence
    ljobs = []
    for sp in specs[: (40 if tier == 'quick' else 600)]:
        decl = ''
        pre = []
        for s in sp.sentences:
            if s.kind in ('declaration', 'constant'):
                decl += s.text + '\n'
        ctx = decl
        for s in sp.sentences:
            if s.kind in ('declaration', 'constant'):
                continue
            if s.author_vars:
                ljobs.append((ctx, s.text, s.author_vars, s.kind))
            ctx += s.text + '\n'
    lres = rt.pmap(_layer_job, [(a, b, c) for a, b, c, _ in ljobs], chunksize=4)
    nl = 0
    for (ctx, stext, author, kind), r in zip(ljobs, lres):
        if 'skip' in r:
            continue
        nl += 1
        run.count(('layer', stext))
        if r['missing']:
            run.violation(f'layer/collision-list/{kind}', f'author variables {r["missing"]} of "{stext}" are not in the collision list {r["lists"]}',
                          {'cnl': ctx + stext, 'author_vars': author, 'collision_lists': r['lists']})
    run.coverage['layer_sentences'] = nl
    # search: adversarial renaming
    n_single = 6 if tier == 'quick' else 60
    jobs = [(sp.text(), sp.author_vars(), rng.randrange(1 << 30), n_single) for sp in specs]
    jobs += [(t, av, rng.randrange(1 << 30), n_single) for t, av in duration_specs(rng)]
    for name, t in corpus.corpus():
        if tier == 'quick' and len(t) > 2500 and rng.random() < 0.7:
            continue   # the long examples are sampled in the quick tier, all of them in the thorough tier
        jobs.append((t, corpus_author_vars(t), rng.randrange(1 << 30), n_single))
    jobs.sort(key=lambda j: -len(j[0]))
    results = rt.pmap(_search_job, jobs, chunksize=1)
    tried = 0
    for r in results:
        if 'skip' in r:
            continue
        tried += r['tried']
        run.coverage['evaluations'] += r['tried']
        if r['n_invented']:
            run._distinct.add(('spec', r['text']))
        for p in r['problems']:
            kind = 'rejected' if 'why' in p else 'capture/' + p['phase']
            run.violation(f'rename/{kind}', f'renaming {p["mapping"]} changes the program: {p.get("original_rule")} -> {p.get("renamed_rule")} {p.get("why", "")}',
                          {'cnl': r['text'], 'mapping': p['mapping'], 'renamed_cnl': p['renamed'], 'detail': {k: v for k, v in p.items() if k != 'renamed'}})
    run.coverage['renamings_tried'] = tried
    run.sample({'unit': cases[5], 'real': real_converter(*cases[5])})
    if results:
        run.sample({'cnl': results[0]['text'][:300], 'renamings_tried': results[0].get('tried')})
    run.assumptions += ['the hygiene theorem is proved for any namer sound w.r.t. its avoid-list; that every author variable is in the avoid-list '
                        '(collision-list completeness) is checked by the layer correspondence and the renaming search, not proved for all inputs']
    return run.finish()
