"""C02 — aggregate sentences count, sum and bound what they say.

Lean: Asp/Sem.lean (aggregate literals over the set of distinct tuples, per outer assignment), Asp/AggLemmas.lean (the value is a
function of the set), Cnl/Core.lean (aggregate sentences, their direct reading), Props/C02.lean (C02_main: answer sets = models
of the direct reading for specifications with aggregate constraints; prohibited / required / aggregate-vs-aggregate corollaries;
negation, locality, one-value theorems).
Tie: T-corr rule by rule as C01 (aggregate literals compared with their guards brought to `agg op bound`).
Search: clingo's answer sets of the real output vs the direct reading (count / sum / max / min over distinct tuples, per binding of
the whenever labels) on the finite domains.
"""
from __future__ import annotations

import random

from .. import common, rt, gen_core, aspast
from . import c01

PROP = 'C02'
MODULES = ['Cnl2aspModel.Props.C02']
THEOREMS = ['C02_main', 'C02_prohibited', 'C02_required', 'C02_required_vs', 'C02_value_of_set', 'C02_count', 'C02_one_value',
            'C02_negation', 'C02_locality']
EXTRA = c01.EXTRA + ['Cnl2aspModel.Asp.AggLemmas']
FLIP = {'<': '>', '>': '<', '<=': '>=', '>=': '<=', '=': '=', '!=': '!='}


def split_aggs(body):
    """an aggregate literal with guards -> one literal per guard, each in the form `agg op term`"""
    out = []
    for l in body:
        if l[0] == 'agg':
            gs = []
            if l[2]:
                gs.append((FLIP[l[2][0]], l[2][1]))
            if l[5]:
                gs.append((l[5][0], l[5][1]))
            for g in gs:
                out.append(('agg', l[1], None, l[3], l[4], g))
            if not gs:
                out.append(l)
        else:
            out.append(l)
    return out


def real_rules(program):
    out = []
    for st in aspast.parse(program):
        if st['kind'] == 'rule':
            for h, b in c01.expand_fact(st):
                out.append(c01.canon_rule(c01.norm_guards(h), split_aggs(b)))
        elif st['kind'] not in ('program',):
            out.append(st['kind'] + ':' + st['text'])
    return out


def model_rule(r):
    h, b = c01.m_rule(r)
    return c01.canon_rule(h, split_aggs(b))


def _job(args):
    text, ast, order = args
    rt.enable_lark_cache()
    r = rt.compile_cnl(text)
    if r[0] != 'ok':
        return {'rejected': str(r[1])[:300]}
    prog = r[1]
    res = {'program': prog}
    try:
        res['rules'] = real_rules(prog)
    except Exception as e:
        res['rules_error'] = repr(e)[:300]
    try:
        ans = c01.clingo_answer_sets(prog)
    except RuntimeError as e:
        res['solver_error'] = str(e)[:300]
        return res
    try:
        ref = gen_core.ref_models_agg(ast, order)
    except ValueError as e:
        res['undecided'] = True
        return res
    if ans is None or ref is None:
        res['undecided'] = True
        return res
    A = set(ans)
    R = set(frozenset(m) for m in ref)
    res['n_models'] = len(A)
    if all(not x['k'] == 'aggRequiredBetween' for x in ast):
        res['probes'] = c01.make_probes(A, R)
    if A != R:
        only_a = sorted(A - R, key=lambda m: sorted(map(repr, m)))[:2]
        only_r = sorted(R - A, key=lambda m: sorted(map(repr, m)))[:2]
        res['diff'] = {'answer_sets': len(A), 'reference_models': len(R),
                       'answer_set_not_a_model': [sorted(map(list, m), key=repr) for m in only_a],
                       'model_not_an_answer_set': [sorted(map(list, m), key=repr) for m in only_r]}
    return res


def gen(rng):
    for _ in range(50):
        sp = gen_core.gen_spec(rng, n_constraints=rng.choice([0, 0, 1]))
        k = rng.randrange(1, 3)
        added = []
        for _ in range(k):
            s = gen_core.agg_sentence(rng, sp)
            if s is not None:
                added.append(s)
        if added:
            sp.sentences += added
            sp.agg_sentences = added
            return sp
    raise RuntimeError('generator cannot produce an aggregate sentence')


def grid_specs(rng, tier):
    """aggregate-vs-aggregate and aggregate-vs-number grid on one schema with 64 models of the base (2 nodes x 2 colours + a unary relation)"""
    out = []
    V = gen_core.val
    def base():
        sp = c01.base_schema()
        c0, c1 = sp.concepts
        c1.tuples = [('red',), ('green',)]
        sp.sentences[1] = gen_core.Sentence('A color is one of red, green.', {'k': 'facts', 'pred': 'color', 'tuples': [['red'], ['green']]}, 'facts')
        va = gen_core.Verb('assigned', 'to', c0, c1)
        vc = gen_core.Verb('chosen', None, c0, None)
        sp.verbs += [va, vc]
        sp.order += [va.pred, vc.pred]
        sp.sentences.append(gen_core.Sentence('Every node can be assigned to a color.', {'k': 'choice', 'conds': [], 'card': {'k': 'any'},
                            'v': gen_core.verbuse(va, False, gen_core.ent(c0, {'v': 0}), gen_core.ent(c1, {'v': 1}))}, 'choice'))
        sp.sentences.append(gen_core.Sentence('Every node can be chosen.', {'k': 'choice', 'conds': [], 'card': {'k': 'any'},
                            'v': gen_core.verbuse(vc, False, gen_core.ent(c0, {'v': 0}), None)}, 'choice'))
        return sp
    # parts: (text, tuple, cond, whenever text, whenever ast, entity always in body)
    def parts(b):
        d = {'v': b}
        g = b + 1
        return {
            'active-global': (f'the number of node that are assigned to color C{b}', [d],
                              [{'k': 'pos', 'a': gen_core.atom_j('assigned_to', [d, {'v': g}])}, {'k': 'pos', 'a': gen_core.atom_j('color', [{'v': g}])}],
                              f'whenever there is a color C{b}', {'k': 'ent', 'neg': False, 'e': {'c': 'color', 'a': [{'v': g}], 'k': 1}}, False),
            'active-any': ('the number of node that are assigned to a color', [d],
                           [{'k': 'pos', 'a': gen_core.atom_j('assigned_to', [d, {'v': g}])}, {'k': 'pos', 'a': gen_core.atom_j('color', [{'v': g}])}],
                           None, None, False),
            'passive': (f'the number of color where a node N{b} is assigned to', [d],
                        [{'k': 'pos', 'a': gen_core.atom_j('assigned_to', [{'v': g}, d])}],
                        f'whenever there is a node N{b}', {'k': 'ent', 'neg': False, 'e': {'c': 'node', 'a': [{'v': g}], 'k': 1}}, True),
            'unary': ('the number of node that are chosen', [d], [{'k': 'pos', 'a': gen_core.atom_j('chosen', [d])}], None, None, False),
        }
    for f1 in ('active-global', 'active-any', 'passive', 'unary'):
        for f2 in ('active-global', 'active-any', 'passive', 'unary'):
            for ph, op in gen_core.CMP:
                for pol in ('prohibited', 'required'):
                    for with_wh2 in (True, False):
                        if tier == 'quick' and rng.random() > 0.12:
                            continue
                        sp = base()
                        p1, p2 = parts(10)[f1], parts(20)[f2]
                        if p2[3] is None and not with_wh2:
                            continue
                        wh, conds = [], []
                        if p1[3]:
                            wh.append(p1[3]); conds.append(p1[4])
                        if p2[3] and (with_wh2 or p2[5]):
                            conds.append(p2[4])
                        if p2[3] and with_wh2:
                            wh.append(p2[3])
                        r1, r2 = {'v': 30}, {'v': 31}
                        a1 = {'fn': 'count', 'tuple': p1[1], 'cond': p1[2], 'op': 'eq', 'bound': r1}
                        a2 = {'fn': 'count', 'tuple': p2[1], 'cond': p2[2], 'op': 'eq', 'bound': r2}
                        cmp = {'k': 'cmp', 'op': op, 'l': r1, 'r': r2}
                        t = f'It is {pol} that {p1[0]} is {ph} {p2[0]}' + ''.join(', ' + w for w in wh) + '.'
                        ast = ({'k': 'aggProhibited', 'aggs': [a1, a2], 'cmps': [cmp], 'conds': conds} if pol == 'prohibited'
                               else {'k': 'aggRequired2', 'aggs': [a1, a2], 'cmp': cmp, 'conds': conds})
                        s = gen_core.Sentence(t, ast, 'agg-vs-agg')
                        sp.sentences.append(s)
                        sp.agg_sentences = [s]
                        out.append(sp)
    return out


def classify(s):
    a = s.ast
    if a['k'] == 'aggRequiredBetween':
        return f'agg/required-between/{a["agg"]["fn"]}'
    if a['k'] == 'aggRequired':
        return f'agg/required/{a["agg"]["fn"]}/{a["agg"]["op"]}'
    if a['k'] == 'aggRequired2':
        return f'agg/required-vs/{a["cmp"]["op"]}'
    fns = '+'.join(sorted({x['fn'] for x in a['aggs']}))
    if a['cmps']:
        return f'agg/prohibited-vs/{a["cmps"][0]["op"]}'
    if len(a['aggs']) == 2:
        return f'agg/prohibited-between/{fns}'
    return f'agg/prohibited/{fns}/{a["aggs"][0]["op"]}'


# ---------------------------------------------------------------------------
# whole-instance counting: `the number of <declared concept> with <key> N`, with a `where` restriction on the outer label
# ---------------------------------------------------------------------------
INST_DECL = ('A nurse is identified by an id.\nA ward is identified by an id.\nAn assignment is identified by a nurse, and by a ward.\n'
             'A nurse goes from 1 to 3.\nA ward goes from 1 to 2.\n'
             'Whenever there is a nurse N, whenever there is a ward W, then we can have an assignment with nurse id N, with ward id W.\n')
INST_CMP = {'less than': lambda a, b: a < b, 'more than': lambda a, b: a > b, 'at most': lambda a, b: a <= b, 'at least': lambda a, b: a >= b,
            'equal to': lambda a, b: a == b, 'different from': lambda a, b: a != b}


def _instance_job(args):
    pol, ph, k, ph2, b = args
    sent = (f'It is {pol} that the number of assignment with nurse id N is {ph} {k}, whenever there is a nurse N, where N is {ph2} {b}.')
    text = INST_DECL + sent + '\n'
    r = rt.compile_cnl(text)
    if r[0] != 'ok':
        return {'cnl': text, 'rejected': str(r[1])[:200]}
    ms = rt.clingo_models(r[1], shown={'assignment'})
    if ms[0] != 'ok':
        return {'cnl': text, 'program': r[1], 'solver_error': ms[1][:300]}
    got = {frozenset(m) for m in ms[1]}
    # direct reading: for every nurse N passing the where clause, the number of assignments of N (over the wards) compared with k
    want = set()
    pairs = [(n, w) for n in (1, 2, 3) for w in (1, 2)]
    for bits in range(1 << len(pairs)):
        chosen = [p for i, p in enumerate(pairs) if bits >> i & 1]
        ok = True
        for n in (1, 2, 3):
            if not INST_CMP[ph2](n, b):
                continue
            holds = INST_CMP[ph](sum(1 for (x, _) in chosen if x == n), k)
            if holds == (pol == 'prohibited'):
                ok = False
                break
        if ok:
            want.add(frozenset(f'assignment({n},{w})' for n, w in chosen))
    out = {'cnl': text, 'program': r[1], 'n': len(got)}
    if got != want:
        odd = sorted(got ^ want, key=lambda m: (len(m), sorted(m)))[0]
        out['diff'] = {'answer_sets': len(got), 'reference_models': len(want), 'example': sorted(odd), 'in_answer_sets': odd in got}
    return out


def instance_family(run, rng, tier):
    jobs = []
    for pol in ('prohibited', 'required'):
        for ph in INST_CMP:
            for k in (0, 1, 2):
                for ph2, b in (('less than', 3), ('more than', 1), ('different from', 2), ('at most', 1)):
                    jobs.append((pol, ph, k, ph2, b))
    rng2 = random.Random(rng.random())
    rng2.shuffle(jobs)
    jobs = jobs[: (40 if tier == 'quick' else len(jobs))]
    n = 0
    for j, r in zip(jobs, rt.pmap(_instance_job, jobs, chunksize=2)):
        run.count(('instance', j))
        key = f'instance-count/{j[0]}'
        if 'rejected' in r:
            run.violation('rejected/' + key, f'rejected by the compiler: {r["rejected"][:200]}', {'cnl': r['cnl']})
        elif 'solver_error' in r:
            run.violation('solver-error/' + key, f'clingo rejects the compiled program: {r["solver_error"][:200]}', {'cnl': r['cnl'], 'program': r['program']})
        else:
            n += 1
            if 'diff' in r:
                run.violation(key, f'answer sets differ from the direct reading ({r["diff"]["answer_sets"]} vs {r["diff"]["reference_models"]}); '
                              f'e.g. {r["diff"]["example"]} is {"" if r["diff"]["in_answer_sets"] else "not "}an answer set',
                              {'cnl': r['cnl'], 'program': r['program'], **r['diff']})
    run.coverage['whole_instance_count_sentences'] = n


def main(tier):
    run = common.Run(PROP, tier)
    rng = random.Random(run.seed)
    run.coverage['rule'] = ('generated core specifications with 1-2 aggregate constraints: 4 functions x forms (active "that are <verb>", passive '
                            '"where a <subject> is <verb>", attribute "the total <attr> of a <concept> [with id X]", key) x every comparison phrase / '
                            'between / aggregate-vs-aggregate x both polarities x thresholds 0..n+1 x bound / unbound outer label; T-corr rule by rule, '
                            'search against the direct reading; non-trivial = distinct specification text')
    run.lean(MODULES, THEOREMS, extra_modules=EXTRA)
    n = 220 if tier == 'quick' else 3000
    specs = [gen(rng) for _ in range(n)]
    specs += grid_specs(rng, tier)
    lean_ok = [all(s.ast['k'] != 'aggRequiredBetween' for s in sp.sentences) for sp in specs]
    reqs = [('c01.compile', {'spec': sp.ast() if ok else [], 'order': sp.order}) for sp, ok in zip(specs, lean_ok)]
    answers = common.run_model(reqs)
    results = rt.pmap(_job, [(sp.text(), sp.ast(), sp.order) for sp in specs], chunksize=2)
    stats = {'accepted': 0, 'rejected': 0, 'undecided': 0, 'models': 0, 'unsat': 0}
    kinds = {}
    focus = []
    for sp, ok, a, r in zip(specs, lean_ok, answers, results):
        if a is None or 'err' in a:
            run.broke('corr', 'the driver cannot read a generated specification (generator / codec error)', {'cnl': sp.text(), 'answer': a})
            continue
        if 'rejected' in r:
            stats['rejected'] += 1
            # the generator writes specifications of the fragment only: a rejection leaves the specification without a program
            run.violation('rejected/' + classify(sp.agg_sentences[-1]), f'a specification of the fragment is rejected by the compiler: {r["rejected"][:200]}',
                          {'cnl': sp.text(), 'error': r['rejected']})
            continue
        stats['accepted'] += 1
        run.count(sp.text())
        for s in sp.agg_sentences:
            k = classify(s).rsplit('/', 1)[0]
            kinds[k] = kinds.get(k, 0) + 1
        if ok:
            if not a['stratified']:
                run.broke('corr', 'a generated specification is not stratified in its own order (generator error)', {'cnl': sp.text()})
                continue
            if 'rules' in r:
                model = set(model_rule(x) for rules in a['rules'] for x in rules)
                real = set(r['rules'])
                if model != real:
                    bad = None
                    for s, rules in zip(sp.owners(), a['rules']):
                        if any(model_rule(x) not in real for x in rules):
                            bad = s
                            break
                    run.broke('corr', 'Core.compile vs the real compiler (rule sets differ)',
                              {'cnl': sp.text(), 'sentence': bad.text if bad else None, 'program': r['program'],
                               'model_only': sorted(model - real)[:3], 'real_only': sorted(real - model)[:3]})
                    if bad is not None and 'diff' not in r:
                        focus.append((sp, bad))
            else:
                run.broke('corr', 'the real output cannot be read back', {'cnl': sp.text(), 'program': r['program'], 'error': r.get('rules_error')})
        if r.get('solver_error'):
            run.violation('solver-error/' + classify(sp.agg_sentences[-1]), f'clingo rejects the compiled program: {r["solver_error"][:200]}',
                          {'cnl': sp.text(), 'program': r['program']})
        elif r.get('undecided'):
            stats['undecided'] += 1
        else:
            stats['models'] += r['n_models']
            stats['unsat'] += r['n_models'] == 0
            if 'diff' in r:
                # blame: the aggregate sentence whose removal … cheap heuristic: a finding form if present, else the last aggregate sentence
                blame = next((s for s in sp.agg_sentences if s.ast['k'] == 'aggRequiredBetween'), sp.agg_sentences[-1])
                run.violation(classify(blame), f'answer sets differ from the direct reading ({r["diff"]["answer_sets"]} vs '
                              f'{r["diff"]["reference_models"]}); sentence: {blame.text}',
                              {'cnl': sp.text(), 'program': r['program'], 'sentence': blame.text, **r['diff']})
    # focused search: a specification whose correspondence broke, reduced to its definitions and the deviating sentence (so that
    # other constraints do not hide the difference), on the real code
    jobs = []
    for sp, bad in focus[:24]:
        keep = [s for s in sp.sentences if s.kind in ('facts', 'choice', 'derived') or s is bad]
        text = '\n'.join(sp.decls + [s.text for s in keep]) + '\n'
        jobs.append((text, [s.ast for s in keep], sp.order, bad))
    for (text, ast, order, bad), r in zip(jobs, rt.pmap(_job, [j[:3] for j in jobs], chunksize=1) if jobs else []):
        if 'diff' in r:
            run.violation(classify(bad) if bad.kind.startswith('agg') else 'models/' + bad.kind,
                          f'answer sets differ from the direct reading ({r["diff"]["answer_sets"]} vs {r["diff"]["reference_models"]}); '
                          f'sentence: {bad.text}', {'cnl': text, 'program': r['program'], 'sentence': bad.text, **r['diff']})
    run.coverage['focused_searches'] = len(jobs)
    instance_family(run, rng, tier)
    c01.lean_reading_check(run, [(sp.ast(), r.get('probes'), sp.text()) for sp, r in zip(specs, results) if 'probes' in r])
    run.coverage['specifications'] = stats
    run.coverage['aggregate_forms'] = kinds
    for sp in specs[:3]:
        run.sample({'cnl': sp.text()[-400:]})
    run.assumptions += ["clingo's aggregate semantics is that of Asp/Sem.lean `Agg.holds` (sets of distinct tuples; #sum adds first components; "
                        '#max / #min of nothing are #inf / #sup) — validated per run by the search',
                        'aggregates occur in constraints only (non-recursive), so evaluating them in the candidate answer set is the reduct semantics']
    return run.finish()
