"""Access to the real implementation (in-process) and to the real solvers."""
from __future__ import annotations

import os
import re
import sys
import io
import contextlib
import multiprocessing as mp

REPO = os.environ.get('VERIF_REPO', '/repo')
SRC = os.path.join(REPO, 'src')
if SRC not in sys.path:
    sys.path.insert(0, SRC)

_LARK_CACHE = {}
_CACHE_ON = False


def enable_lark_cache():
    """Reuse one Lark object per (grammar text, options): the grammar is still read from the
    current /repo on every call, only the (pure) construction of the parser tables is memoised.
    Not used by the checks whose subject is per-call / per-process behaviour (C12, C18)."""
    global _CACHE_ON
    if _CACHE_ON:
        return
    import lark
    import cnl2asp.cnl2asp as mod
    real = lark.Lark

    def cached(grammar, **kw):
        key = (grammar, tuple(sorted(kw.items())))
        if key not in _LARK_CACHE:
            _LARK_CACHE[key] = real(grammar, **kw)
        return _LARK_CACHE[key]
    mod.Lark = cached
    _CACHE_ON = True


def reset_globals():
    from cnl2asp.specification.signaturemanager import SignatureManager
    from cnl2asp.utility.utility import Utility
    SignatureManager.signatures = []
    Utility.PRINT_WITH_FUNCTIONS = False
    Utility.AUTO_ENTITY_LINK = True


UUID_RE = re.compile(r'x_[0-9a-f]{8}_[0-9a-f]{4}_[0-9a-f]{4}_[0-9a-f]{4}_[0-9a-f]{12}')


# variables the compiler derives from an auxiliary predicate name: vowels stripped, upper-cased
UUID_VAR_RE = re.compile(r'X_(?:[0-9BCDF]*_){4}[0-9BCDF]{4,}')


def norm_uuid(text: str) -> str:
    seen = {}
    seenv = {}

    def subv(m):
        if m.group(0) not in seenv:
            seenv[m.group(0)] = f'X_AUX{len(seenv)}'
        return seenv[m.group(0)]
    text = UUID_VAR_RE.sub(subv, text)

    def sub(m):
        if m.group(0) not in seen:
            seen[m.group(0)] = f'x_aux{len(seen)}'
        return seen[m.group(0)]
    return UUID_RE.sub(sub, text)


def err_class(e: BaseException):
    """Map an exception to a small canonical description."""
    name = type(e).__name__
    msg = str(e)
    line = None
    m = re.search(r'line (\d+)', msg)
    if m:
        line = int(m.group(1))
    orig = getattr(e, 'orig_exc', None)
    if orig is not None:
        return {'type': name, 'orig': type(orig).__name__, 'line': line, 'msg': str(orig)[:300]}
    return {'type': name, 'line': line, 'msg': msg[:300], 'col': getattr(e, 'column', None)}


def compile_cnl(text, auto_link=True, fn=False, cache=True):
    """Returns ('ok', output) or ('err', err_class)."""
    if cache:
        enable_lark_cache()
    from cnl2asp.cnl2asp import Cnl2asp
    from cnl2asp.utility.utility import Utility
    reset_globals()
    Utility.PRINT_WITH_FUNCTIONS = fn
    buf = io.StringIO()
    try:
        with contextlib.redirect_stdout(buf):
            out = Cnl2asp(text).compile(auto_link)
        return ('ok', out)
    except BaseException as e:  # noqa
        if isinstance(e, (KeyboardInterrupt, SystemExit)):
            raise
        return ('err', err_class(e))
    finally:
        Utility.PRINT_WITH_FUNCTIONS = False


def _compile_job(args):
    return compile_cnl(*args)


_POOL = None


def pool(procs=None):
    global _POOL
    if _POOL is None:
        procs = procs or int(os.environ.get('VERIF_PROCS', '16'))
        _POOL = mp.get_context('fork').Pool(procs)
    return _POOL


def pmap(fn, items, chunksize=1):
    items = list(items)
    if not items:
        return []
    if len(items) < 4 or os.environ.get('VERIF_PROCS') == '1':
        return [fn(x) for x in items]
    return pool().map(fn, items, chunksize)


def compile_many(texts, **kw):
    return pmap(_compile_job, [(t, kw.get('auto_link', True), kw.get('fn', False), kw.get('cache', True)) for t in texts])


# ---------------------------------------------------------------------------
# solvers
# ---------------------------------------------------------------------------
def clingo_models(program: str, limit=0, opt=False, shown=None):
    """All answer sets of `program` (frozensets of atom strings). opt=True: optimal ones only.
    Returns ('ok', [models]) or ('err', message)."""
    import clingo
    msgs = []
    try:
        ctl = clingo.Control(['--warn=none'] + ([f'--models={limit}'] if not opt else ['--opt-mode=optN', '--models=0']),
                             logger=lambda c, m: msgs.append(m))
        ctl.add('base', [], program)
        ctl.ground([('base', [])])
        models = []
        with ctl.solve(yield_=True) as h:
            for m in h:
                if opt and not m.optimality_proven:
                    continue
                atoms = frozenset(str(s) for s in m.symbols(atoms=True)
                                  if shown is None or s.name in shown)
                models.append((atoms, tuple(m.cost)) if opt else atoms)
        return ('ok', models)
    except RuntimeError as e:
        return ('err', str(e) + ' | ' + ' | '.join(msgs)[:500])


def clingo_sat(program: str):
    r = clingo_models(program, limit=1)
    if r[0] == 'err':
        return r
    return ('ok', len(r[1]) > 0)


def clingo_parse(program: str):
    """Parse only. Returns (ok, message)."""
    import clingo.ast
    msgs = []
    try:
        clingo.ast.parse_string(program, lambda x: None, logger=lambda c, m: msgs.append(m))
        return (True, '')
    except RuntimeError as e:
        return (False, (str(e) + ' ' + ' '.join(msgs))[:500])


def clingo_ground(program: str):
    """Ground with warnings collected. Returns (ok, messages)."""
    import clingo
    msgs = []
    try:
        ctl = clingo.Control([], logger=lambda c, m: msgs.append((str(c), m)))
        ctl.add('base', [], program)
        ctl.ground([('base', [])])
        return (True, msgs)
    except RuntimeError as e:
        return (False, msgs + [('error', str(e))])


class NonTermination(BaseException):
    pass


class time_limit:
    """SIGALRM-based limit for a call of the real code in the main thread of a (worker) process.  The real code has bare
    `except:` clauses that would swallow the interrupt, so the limit is also remembered: leaving the block after the alarm
    fired raises NonTermination whatever the block itself did with the interrupt."""

    def __init__(self, seconds):
        self.seconds = int(seconds)
        self.fired = False

    def _handler(self, signum, frame):
        self.fired = True
        raise NonTermination(f'no result after {self.seconds} s')

    def __enter__(self):
        import signal
        self.old = signal.signal(signal.SIGALRM, self._handler)
        signal.alarm(self.seconds)
        return self

    def __exit__(self, et, ev, tb):
        import signal
        signal.alarm(0)
        signal.signal(signal.SIGALRM, self.old)
        if self.fired and et is not NonTermination:
            raise NonTermination(f'no result after {self.seconds} s')
        return False
