"""Shared machinery of the checks: T-gen driver, Lean build + audit, evidence, findings, verdicts."""
from __future__ import annotations

import fcntl
import hashlib
import json
import os
import re
import subprocess
import sys
import time

VERIF = os.path.dirname(os.path.dirname(os.path.abspath(__file__)))
REPO = os.environ.get('VERIF_REPO', '/repo')
LEAN_DIR = os.path.join(VERIF, 'lean')
PY = os.environ.get('VERIF_PY', '/venv/bin/python')
GEN_DIR = os.path.join(LEAN_DIR, 'Cnl2aspModel', 'Generated')
ALLOWED_AXIOMS = {'propext', 'Classical.choice', 'Quot.sound'}
FORBIDDEN = re.compile(r'\bsorry\b|\badmit\b|^axiom |native_decide|bv_decide|implemented_by|\bunsafe |maxHeartbeats 0')
TRUSTED_BASE = [
    'Lean 4.33.0 kernel (lake build; leanchecker re-check in the thorough tier)',
    'axioms allowed: propext, Classical.choice, Quot.sound (audited with #print axioms on every run); '
    'no sorry/admit/axiom/native_decide/bv_decide/implemented_by/unsafe (grep on every run)',
    'harness/extract_tables.py (T-gen translator) and the per-property correspondence harness',
]


def seed() -> int:
    try:
        return int(os.environ.get('VERIF_SEED', '0'))
    except ValueError:
        return 0


class Lock:
    """Exclusive lock shared by T-gen writers and `lake build` (checks may run concurrently)."""

    def __init__(self, name='build.lock'):
        os.makedirs(os.path.join(LEAN_DIR, '.lake'), exist_ok=True)
        self.path = os.path.join(LEAN_DIR, '.lake', name)

    def __enter__(self):
        self.f = open(self.path, 'w')
        fcntl.flock(self.f, fcntl.LOCK_EX)
        return self

    def __exit__(self, *a):
        fcntl.flock(self.f, fcntl.LOCK_UN)
        self.f.close()


def write_if_changed(path, content):
    try:
        with open(path) as f:
            if f.read() == content:
                return False
    except FileNotFoundError:
        pass
    os.makedirs(os.path.dirname(path), exist_ok=True)
    tmp = path + f'.tmp{os.getpid()}'
    with open(tmp, 'w') as f:
        f.write(content)
    os.replace(tmp, path)
    return True


# ---------------------------------------------------------------------------
# T-gen
# ---------------------------------------------------------------------------
def run_tgen():
    """Regenerate Generated/Tables.lean from the current source (fresh subprocess).
    Returns (ok, tables_dict_or_None, message)."""
    with Lock():
        p = subprocess.run([PY, os.path.join(VERIF, 'harness', 'extract_tables.py')],
                           capture_output=True, text=True, env=dict(os.environ, VERIF_REPO=REPO))
    if p.returncode != 0:
        return False, None, (p.stdout + p.stderr)[-3000:]
    with open(os.path.join(GEN_DIR, 'tables.json')) as f:
        return True, json.load(f), p.stdout.strip()


# ---------------------------------------------------------------------------
# Lean build / audit
# ---------------------------------------------------------------------------
_ERR = re.compile(r'^error: (?:\./)?([^:\s]+\.lean):(\d+):(\d+): (.*)$')


def _enclosing_decl(path, line):
    try:
        with open(os.path.join(LEAN_DIR, path)) as f:
            lines = f.read().split('\n')
    except OSError:
        return None
    for i in range(min(line, len(lines)) - 1, -1, -1):
        m = re.match(r'^\s*(?:private |protected )?(theorem|lemma|def|example|instance|abbrev)\s*([^\s:(\[{]*)', lines[i])
        if m:
            return f'{m.group(1)} {m.group(2)}'.strip()
    return None


def lean_build(modules):
    """lake build the given modules. Returns dict(ok, log, errors=[{file,line,msg,decl}])."""
    t0 = time.time()
    with Lock():
        p = subprocess.run(['lake', 'build'] + list(modules), cwd=LEAN_DIR, capture_output=True, text=True)
    log = p.stdout + p.stderr
    errors = []
    for ln in log.split('\n'):
        m = _ERR.match(ln)
        if m:
            path, line, col, msg = m.group(1), int(m.group(2)), int(m.group(3)), m.group(4)
            errors.append({'file': path, 'line': line, 'msg': msg[:300], 'decl': _enclosing_decl(path, line)})
    return {'ok': p.returncode == 0, 'log': log[-6000:], 'errors': errors, 'wall_s': time.time() - t0}


def theorems_in(module):
    path = os.path.join(LEAN_DIR, module.replace('.', '/') + '.lean')
    with open(path) as f:
        src = f.read()
    # strip block comments so that commented-out full statements are not counted
    src_nc = re.sub(r'/-.*?-/', '', src, flags=re.S)
    return re.findall(r'^theorem\s+([A-Za-z0-9_\.\']+)', src_nc, flags=re.M)


def strip_comments(src):
    src = re.sub(r'/-.*?-/', '', src, flags=re.S)
    src = re.sub(r'--.*$', '', src, flags=re.M)
    return src


def imported_files(module, seen=None):
    """Transitive closure of Cnl2aspModel imports of a module (file paths relative to LEAN_DIR)."""
    if seen is None:
        seen = {}
    rel = module.replace('.', '/') + '.lean'
    if rel in seen:
        return seen
    path = os.path.join(LEAN_DIR, rel)
    try:
        with open(path) as f:
            src = f.read()
    except OSError:
        return seen
    seen[rel] = src
    for m in re.finditer(r'^import\s+(Cnl2aspModel[\w\.]*)', src, flags=re.M):
        imported_files(m.group(1), seen)
    return seen


def audit(prop_modules, pinned_theorems):
    """#print axioms for every theorem of the property modules; grep for forbidden constructs.
    Returns dict(ok, theorems=[...], axioms={thm: [...]}, problems=[...])."""
    problems = []
    thms = []
    for mod in prop_modules:
        thms += theorems_in(mod)
    missing = [t for t in pinned_theorems if t not in thms]
    if missing:
        problems.append(f'pinned theorems missing from the property files: {missing}')
    # forbidden constructs in the transitive closure
    for mod in prop_modules:
        for rel, src in imported_files(mod).items():
            for i, ln in enumerate(strip_comments(src).split('\n')):
                if FORBIDDEN.search(ln):
                    problems.append(f'forbidden construct in {rel}: {ln.strip()[:80]}')
    audit_dir = os.path.join(LEAN_DIR, '.lake', 'audit')
    os.makedirs(audit_dir, exist_ok=True)
    tag = hashlib.sha1(' '.join(prop_modules).encode()).hexdigest()[:10]
    apath = os.path.join(audit_dir, f'Audit_{tag}_{os.getpid()}.lean')
    with open(apath, 'w') as f:
        for mod in prop_modules:
            f.write(f'import {mod}\n')
        f.write('open Cnl2aspModel\n')
        nss = set()
        for mod in prop_modules:
            with open(os.path.join(LEAN_DIR, mod.replace('.', '/') + '.lean')) as mf:
                nss |= set(re.findall(r'^namespace\s+(\S+)', mf.read(), flags=re.M))
        for ns in sorted(nss):
            f.write(f'open {ns}\n')
        for t in thms:
            f.write(f'#print axioms {t}\n')
    p = subprocess.run(['lake', 'env', 'lean', apath], cwd=LEAN_DIR, capture_output=True, text=True)
    try:
        os.remove(apath)
    except OSError:
        pass
    out = p.stdout + p.stderr
    axioms = {}
    for m in re.finditer(r"'([^']+)' depends on axioms: \[([^\]]*)\]", out.replace('\n', ' ')):
        axioms[m.group(1).split('.')[-1]] = [a.strip() for a in m.group(2).split(',') if a.strip()]
    for m in re.finditer(r"'([^']+)' does not depend on any axioms", out):
        axioms[m.group(1).split('.')[-1]] = []
    for t in thms:
        key = t.split('.')[-1]
        if key not in axioms:
            problems.append(f'no axiom report for theorem {t}')
        else:
            bad = [a for a in axioms[key] if a not in ALLOWED_AXIOMS]
            if bad:
                problems.append(f'theorem {t} depends on disallowed axioms {bad}')
    if p.returncode != 0:
        problems.append('audit file failed to elaborate: ' + out[-500:])
    return {'ok': not problems, 'theorems': thms, 'axioms': axioms, 'problems': problems}


def leanchecker(modules):
    p = subprocess.run(['lake', 'env', 'leanchecker'] + list(modules), cwd=LEAN_DIR, capture_output=True, text=True)
    return p.returncode == 0, (p.stdout + p.stderr)[-2000:]


# ---------------------------------------------------------------------------
# the Lean model as an executable (line protocol)
# ---------------------------------------------------------------------------
class Model:
    """Speaks the line protocol to `lake env lean --run Main.lean`.
    One request per line: <op>\t<json args>; one JSON answer per line."""

    def __init__(self):
        self.p = subprocess.Popen(['lake', 'env', 'lean', '--run', 'Main.lean'], cwd=LEAN_DIR,
                                  stdin=subprocess.PIPE, stdout=subprocess.PIPE, stderr=subprocess.PIPE, text=True)

    def batch(self, requests):
        """requests: list of (op, args). Returns list of parsed answers."""
        payload = ''.join(f'{op}\t{json.dumps(args, separators=(",", ":"))}\n' for op, args in requests)
        out, err = self.p.communicate(payload)
        lines = [l for l in out.split('\n') if l != '']
        if self.p.returncode != 0 or len(lines) != len(requests):
            raise RuntimeError(f'model driver failed (rc={self.p.returncode}, {len(lines)}/{len(requests)} answers): '
                               + err[-2000:] + out[-500:])
        return [json.loads(l) for l in lines]


def run_model(requests):
    if not requests:
        return []
    return Model().batch(requests)


# ---------------------------------------------------------------------------
# findings
# ---------------------------------------------------------------------------
def load_findings():
    path = os.path.join(VERIF, 'known_findings.json')
    try:
        with open(path) as f:
            return json.load(f)
    except FileNotFoundError:
        return []


def match_finding(findings, prop, key):
    for f in findings:
        if f.get('property') == prop and f.get('status') == 'finding':
            if re.fullmatch(f['match'], key):
                return f
    return None


# ---------------------------------------------------------------------------
# a run: collects obligations, correspondences, search results; prints verdict
# ---------------------------------------------------------------------------
class Run:
    def __init__(self, prop, tier):
        self.prop = prop
        self.tier = tier
        self.seed = seed()
        self.t0 = time.time()
        self.broken = []        # broken obligations / ties: dict(kind, name, detail)
        self.violations = []    # failing inputs on the real code: dict(key, what, replay{...})
        self.info = []          # informational notes
        self.coverage = {
            'obligations': 0, 'discharged': 0, 'checker_cmd': '', 'trusted_base': list(TRUSTED_BASE),
            'evaluations': 0, 'distinct_nontrivial': 0, 'rule': '', 'samples': [],
        }
        self.assumptions = []
        self._distinct = set()
        # replays are written only when a violation is reported; stale ones of earlier runs are removed
        rdir = os.path.join(VERIF, 'replays', prop)
        if os.path.isdir(rdir):
            for fn in os.listdir(rdir):
                try:
                    os.remove(os.path.join(rdir, fn))
                except OSError:
                    pass

    # -- bookkeeping ------------------------------------------------------
    def note(self, msg):
        self.info.append(msg)
        print(f'[{self.prop}] {msg}', flush=True)

    def count(self, case_key, nontrivial=True):
        self.coverage['evaluations'] += 1
        if nontrivial:
            self._distinct.add(case_key)

    def sample(self, s, limit=12):
        if len(self.coverage['samples']) < limit:
            self.coverage['samples'].append(s)

    def broke(self, kind, name, detail=''):
        self.broken.append({'kind': kind, 'name': name, 'detail': str(detail)[:2000]})
        print(f'[{self.prop}] BROKEN {kind}: {name} {str(detail)[:300]}', flush=True)

    def violation(self, key, what, replay):
        self.violations.append({'key': key, 'what': what, 'replay': replay})

    # -- the Lean side ----------------------------------------------------
    def lean(self, prop_modules, pinned, extra_modules=()):
        mods = list(prop_modules) + list(extra_modules)
        self.coverage['checker_cmd'] = f'cd lean && lake build {" ".join(mods)} && #print axioms audit' + \
            (' && lake env leanchecker' if self.tier == 'thorough' else '')
        b = lean_build(mods)
        self.coverage['lean_build_s'] = round(b['wall_s'], 1)
        self.coverage['obligations'] += len(pinned)
        if not b['ok']:
            decls = sorted({(e['file'], e['decl']) for e in b['errors']}, key=str)
            for file, decl in decls:
                self.broke('proof', f'{file}: {decl}', next(e['msg'] for e in b['errors'] if e['file'] == file and e['decl'] == decl))
            if not decls:
                self.broke('proof', 'lake build', b['log'][-800:])
            return False
        a = audit(prop_modules, pinned)
        self.coverage['axioms'] = a['axioms']
        ok_thms = [t for t in pinned if t in a['theorems']]
        self.coverage['discharged'] += len(ok_thms) if a['ok'] else 0
        self.coverage['theorems'] = a['theorems']
        if not a['ok']:
            for pr in a['problems']:
                self.broke('audit', pr)
            return False
        if self.tier == 'thorough':
            ok, out = leanchecker(prop_modules)
            self.coverage['leanchecker'] = 'ok' if ok else out
            if not ok:
                self.broke('leanchecker', ' '.join(prop_modules), out)
                return False
        return True

    def findings_witness(self, modules):
        """Build the kernel-checked negation witnesses of the known findings (information only)."""
        b = lean_build(modules)
        self.coverage['findings_witnesses'] = 'ok' if b['ok'] else 'no longer build (finding may no longer reproduce)'
        if not b['ok']:
            self.note('finding witness no longer builds: ' + '; '.join(f"{e['file']}: {e['decl']}" for e in b['errors'][:3]))

    # -- verdict ----------------------------------------------------------
    def finish(self):
        findings = load_findings()
        known, fresh = [], []
        seen_keys = set()
        for v in self.violations:
            if v['key'] in seen_keys:
                continue
            seen_keys.add(v['key'])
            f = match_finding(findings, self.prop, v['key'])
            (known if f else fresh).append((v, f))
        rc = 0
        lines = []
        by_id = {}
        for v, f in known:
            by_id.setdefault(f['id'], (f, []))[1].append(v['key'])
        for fid, (f, keys) in by_id.items():
            shown = ', '.join(keys[:3]) + (f', … {len(keys)} inputs' if len(keys) > 3 else '')
            lines.append(f'KNOWN-FINDING: property={self.prop} {fid} {f["what"]} [{shown}]')
        rdir = os.path.join(VERIF, 'replays', self.prop)
        if fresh:
            os.makedirs(rdir, exist_ok=True)
            for v, _ in fresh[:20]:
                h = hashlib.sha1(v['key'].encode()).hexdigest()[:12]
                rp = os.path.join(rdir, f'{h}.json')
                with open(rp, 'w') as fh:
                    json.dump({'property': self.prop, 'key': v['key'], 'what': v['what'], 'replay': v['replay'], 'seed': self.seed, 'tier': self.tier,
                               'broken_obligations': self.broken,
                               'how_to_rerun': f'./check {self.prop} --replay replays/{self.prop}/{h}.json'}, fh, indent=1)
                lines.append(f'VIOLATION property={self.prop} replay=replays/{self.prop}/{h}.json')
            rc = 1
        elif self.broken:
            os.makedirs(rdir, exist_ok=True)
            h = hashlib.sha1(json.dumps(self.broken, sort_keys=True).encode()).hexdigest()[:12]
            rp = os.path.join(rdir, f'broken_{h}.json')
            with open(rp, 'w') as fh:
                json.dump({'property': self.prop, 'broken_obligations': self.broken, 'seed': self.seed, 'tier': self.tier,
                           'note': 'a proof obligation or correspondence no longer checks and the failing-input '
                                   'search found no input on which the property fails on the real code',
                           'known_findings_seen': [v['key'] for v, _ in known]}, fh, indent=1)
            lines.append(f'VIOLATION property={self.prop} replay=replays/{self.prop}/broken_{h}.json no-failing-input-found')
            rc = 1
        self.coverage['distinct_nontrivial'] = len(self._distinct)
        self.coverage['broken_obligations'] = self.broken
        self.coverage['known_findings_reported'] = [v['key'] for v, _ in known]
        self.coverage['notes'] = self.info[-40:]
        if self.broken and self.coverage['discharged'] >= self.coverage['obligations']:
            self.coverage['discharged'] = max(0, self.coverage['obligations'] - len(self.broken))
        ev = {
            'property_id': self.prop, 'tier': self.tier, 'seed': self.seed, 'level': 'proof',
            'coverage': self.coverage, 'assumptions': self.assumptions,
            'wall_s': round(time.time() - self.t0, 2), 'violations': len(fresh) + (1 if (self.broken and not fresh) else 0),
        }
        os.makedirs(os.path.join(VERIF, 'evidence'), exist_ok=True)
        with open(os.path.join(VERIF, 'evidence', f'{self.prop}.json'), 'w') as fh:
            json.dump(ev, fh, indent=1, default=str)
        for l in lines:
            print(l, flush=True)
        print(f'[{self.prop}] tier={self.tier} seed={self.seed} obligations={self.coverage["obligations"]} '
              f'discharged={self.coverage["discharged"]} evaluations={self.coverage["evaluations"]} '
              f'violations={len(fresh)} known={len(known)} broken={len(self.broken)} wall={ev["wall_s"]}s', flush=True)
        return rc
