"""Regenerates MANIFEST.json from the table below (kept here so that the manifest stays consistent)."""
import json
import os

VERIF = os.path.dirname(os.path.dirname(os.path.abspath(__file__)))

CHECKS = {
    'C03': dict(
        technique='Lean 4 proof over regenerated tables (T-gen) + kernel-checked translation grid; clingo failing-input search',
        text='Lean theorems: every comparison phrase of the regenerated grammar terminal denotes, on all integers, the relation it names; '
             'the regenerated negation table is an exact complement on all integers; required fires iff prohibited does not, for all operand terms and '
             'valuations; the hand model equals the real compiler output on every point of the exhaustive syntactic grid (phrase x polarity x operand '
             'shapes, regenerated and re-checked by the kernel on every run).',
        note='Trusted: Lean kernel; extract_tables.py; clingo.ast transcription of emitted literals; gringo integer comparison semantics (validated by the '
             'clingo search on every run). Partial: required...between is a known finding (F1); absolute-value operands are searched only (known finding F19).',
        design='DESIGN.md §6 C03'),
    'C16': dict(
        technique='Lean 4 proof about an executable model of the range enumeration and calendar + correspondence with the real TemporalEntityComponent/datetime; clingo search',
        text='Lean theorems for all ranges and lengths: the enumeration loop yields exactly A, A+L, ... <= B numbered from 0 (closed form, by '
             'induction on the loop); ids follow chronological order (so before/after V compares correctly); 12-hour clock printing is injective on '
             'a day and round-trips for all 1440 minutes; nextDay keeps dates valid and advances the ordinal by one (month/year/leap ends); '
             'lexicographic date order = ordinal order; the date loop refines the integer loop; a value outside the range has no id.',
        note='Trusted: Lean kernel; the model of datetime.strptime/strftime/timedelta (compared with the real datetime and the real '
             'TemporalEntityComponent on ~8000 inputs per quick run incl. all boundaries); clingo. Years 1000..9990; length >= 1.',
        design='DESIGN.md §6 C16'),
    'C18': dict(
        technique='Lean 4 proof about the CLI control function and diagnostic construction + correspondence with the real main()/ParserError on damaged inputs',
        text='Lean theorems: for every flag set and every behaviour of the compiler the control function of main() has no uncaught exception and '
             'opens no output file on error; the diagnostic kind follows the outcome in every mode; the word extractor is total and returns a '
             'blank-free piece of the line; offset <-> (line, col) round trip for all texts.',
        note='Trusted: Lean kernel; the correspondence harness (real main() in-process with argv/stdout patched; subprocess runs); Lark\'s position '
             'contract (cross-checked). Two genuine defects were repaired by fix: commits 72d663b and 30237fb. OS-level failures (missing '
             'file, encoding) and --optimize/--solve are outside the model.',
        design='DESIGN.md §6 C18'),
    'C14': dict(
        technique='Lean 4 proof about an executable model of ASPAtom.__str__ in both modes + correspondence on generated and harvested atoms; both-mode compilation search',
        text='Lean theorems for every atom (any number of anonymous or repeated arguments, origins nested to any depth, any name equality): the leaves '
             'of the function-mode term are a permutation of the default-mode arguments (nothing dropped or duplicated); flattening gives back the '
             'default atom exactly when inherited groups are contiguous; the nesting shape depends on the name and origins only.',
        note='Trusted: Lean kernel; correspondence harness (real str(ASPAtom) in both modes on ~1500 random atoms and every atom harvested from '
             'corpus + wide-generator compilations per quick run); NameComponent.__eq__ (inflect) enters as a parameter. A genuine defect (F8) was '
             'repaired by fix: commit c870dde. Partial: non-contiguous groups are reordered by design (finding F20, witness Findings/C14.lean).',
        design='DESIGN.md §6 C14'),
    'C11': dict(
        technique='Lean 4 proof about the block-routing state machine over the regenerated header table + correspondence with real outputs of header layouts',
        text='Lean theorems: the four header phrases of the regenerated grammar terminal map to initial/dynamic/always/final; for every document '
             '(any number, order and repetition of headers, sentences before the first header, any way Lark splits blocks) every rule stands under '
             'the directive of the last header before its sentence and rules keep sentence order; the header-free document has the same rule sequence.',
        note='Trusted: Lean kernel; extract_tables.py; the correspondence harness (120 layouts per quick run incl. all ordered pairs of headers). '
             'Lark\'s ambiguous block splitting is covered by the split-invariance theorem. A genuine defect (F6) was repaired by fix: commit 97606d9.',
        design='DESIGN.md §6 C11'),
    'C13': dict(
        technique='Lean 4 proof about the signature table and symbol export + correspondence with the real SignatureManager/get_symbols; both-mode atom-vs-table search',
        text='Lean theorems for every signature and every declaration sequence: an atom carries exactly as many arguments as get_symbols reports '
             '(flat arity) for every signature shape; the table is append-only in names, the first declaration of a name wins, concepts that do '
             'not mention a later concept keep their shape; C13_fn_arity: the nested arity reported for function-term mode equals the number of '
             'top-level arguments the function-mode printer (the model of C14) produces for an instance, for every signature whose own attribute '
             'names are distinct and differ from the concepts it inherits from (decidable; evaluated on every real table). Universality over inputs comes from the search: every atom occurrence of every '
             'compiled corpus / wide-generator program is checked against the reported arity in both printing modes.',
        note='Trusted: Lean kernel; correspondence harness (500 declaration sequences through the real add_signature and symbol conversion per quick '
             'run); clingo.ast for atom extraction. A genuine defect was repaired by fix: commit (get_symbols guard); F34 (one-value definition of a concept with several attributes) is a known finding. Partial: the equality of emitted '
             'arity and table arity for ALL inputs rests on the sampled search, the theorem covers the table and conversion functions.',
        design='DESIGN.md §6 C13'),
    'C07': dict(
        technique='Lean 4 proof of namer soundness and of hygiene for any sound namer + correspondence with the real namers and collision lists; adversarial renaming search',
        text='Lean theorems: both name generators (exact transcriptions of create_new_field_value and _new_field_value) return only names outside '
             'the avoid-list, for every avoid-list and base name; for ANY namer with that property, the names invented within a rule are pairwise '
             'distinct and none of them is an author variable, provided the author variables are in the collision list.',
        note='Trusted: Lean kernel; the correspondence harness (real namers on ~1400 adversarial inputs; the real defined_attributes of every '
             'generated sentence); collision-list completeness for ALL inputs is not proved: it is checked per sentence and by renaming author '
             'variables to the names invented in the same rule. A genuine defect (F5) was repaired by fix: commit 514424e; a residual '
             'order-dependent case in the parser phase is a known finding (F5b).',
        design='DESIGN.md §6 C07'),
    'C12': dict(
        technique='Lean 4 proof of history independence of the API state machine for any front end + state monitors and fresh-interpreter differential on API histories',
        text='Lean theorems, parametric in the whole front end (parser, converters, printers): from the reset structure of the entry points (the '
             'signature table is emptied, the auto-link option is in force during compile only and restored afterwards) every API call gives, '
             'after ANY history of calls from the start state of a process, the result it gives in a fresh process — with no assumption on '
             'how results depend on the flag; repetition is idempotent; the table a call leaves behind is a function of the call alone.',
        note='Trusted: Lean kernel; the monitors of harness/props/c12.py (every call of every history runs in a fresh interpreter with snapshots of '
             'SignatureManager.signatures, the Utility flags, DUMMY_ENTITY and the shared default arguments) which check the frame conditions the '
             'model assumes (front end is a function of its arguments; every call leaves the auto-link flag as it found it). The interpreter\'s '
             'hash seed is exercised (random seed per history), not modelled. Three genuine defects were repaired by fix: commits (c710714, '
             '36930bb and the flag restore found by the thorough tier).',
        design='DESIGN.md §6 C12'),
    'C10': dict(
        technique='Lean 4 proof of refinement to a per-sentence fold (for any sentence behaviour) + boundary-state monitors on the real objects; prefix/removal/context differential',
        text='Lean theorems, parametric in what a sentence does: if the scratch state is reset at every sentence boundary the implementation '
             'is the fold of a per-sentence function over the environment (signatures, constants, emitted temporal concepts); prefix law, '
             'removal law (a sentence that leaves the environment unchanged removes exactly its rules), order law.',
        note='Trusted: Lean kernel; the monitors of harness/props/c10.py on the real CNLTransformer/ASPConverter (scratch state equals its '
             'initial value after every sentence-level callback / at the start of every proposition; signatures free of per-occurrence marks), '
             'which establish the hypotheses ResetsAtBoundary and "the environment is the table" on every monitored compilation, not for '
             'all inputs. A genuine defect was repaired by fix: commit ed2f68f (is_final kept in signatures).',
        design='DESIGN.md §6 C10'),
    'C05': dict(
        technique='Lean 4 proof by structural induction that the compiled telingo formula means the CNL condition on every finite trace, over regenerated operator tables; clingo/telingo tie and search',
        text='Lean theorem C05_main: for every temporal condition (operands and tails nested to any depth, all 14 supported leading/hold '
             'combinations with the since-before/after shifts, all 12 dual phrases, the 4 constants, outer negation), every finite trace and every '
             'state, the compiled rule fires exactly when the reference reading of the sentence is true; table-totality and duality theorems. '
             'Operator tables are regenerated from the source on every run.',
        note='Trusted: Lean kernel; extract_tables.py; Tel.eval as a model of telingo 2.1.3 (validated on every run against the real telingo '
             'on all 4^h traces, h<=3 (4 thorough), for every grid shape); clingo\'s theory-term parser with telingo\'s operator table ties the '
             'printed text to the model tree; the reference readings are hand-written (listed in Compiler/Temporal.lean). Partial: conditions '
             'outside the reference reading (negated hold conditions, hold without leading operator, entity prefixes inside formulas) are only '
             'exercised; known findings F14, F16, F17, F25; genuine defect F4a repaired by fix: commit 8e63ed9.',
        design='DESIGN.md §6 C05'),
    'C09': dict(
        technique='Lean 4 proof over regenerated callback tables and string normalisers + paraphrase differential on the real compiler',
        text='Lean theorems: every synonym pair the property lists maps to one operator in the regenerated callback tables and non-synonyms stay '
             'distinct; the keyword alternatives are alternatives of the current terminals; for every verb word the third-person -s names the same '
             'predicate, and for every (ASCII) concept word letter case does not change the concept key.',
        note='Trusted: Lean kernel; extract_tables.py. Partial: invariance under articles, plural nouns, commas, white space and comments rests on '
             'Lark and inflect, which are not modelled: it is exercised by ~950 paraphrases per quick run (single substitutions of every class and '
             'combinations, plus the auxiliary x article grid of the COPULA terminal) compared byte for byte, not proved.',
        design='DESIGN.md §6 C09'),
    'C17': dict(
        technique='Lean 4 proof about a one-pass scope checker and line arithmetic + fault-injection correspondence on the real compiler',
        text='Lean theorems: the one-pass declared-before-use checker never accepts a specification that contains a faulty use and reports the '
             'first faulty sentence with its fault (for all specifications); per-class lemmas (undeclared concept, missing attribute, unknown '
             'label, double cardinality); padding made of complete lines shifts the cited line by exactly the number of lines, for every text.',
        note='Trusted: Lean kernel; the fault-injection harness (160 faulty specifications per quick run, 9 fault classes x positions x paddings x '
             'line breaks; the skeleton of each generated sentence is known by construction); Lark\'s position propagation. Genuine defects '
             '(silently ignored / line-less faults) were repaired by fix: commit 0f0a5e3. Partial: that the real transformer performs exactly the '
             'lookups of the model on every sentence form is checked by injection, not proved.',
        design='DESIGN.md §6 C17'),
    'C15': dict(
        technique='Lean 4 proof about executable models of the explanation printer: the string layer and the sentence-construction layer '
                  '(_clingo_symbol_to_sentence), with sentence-by-sentence correspondence against the real result parser; selection / '
                  'distinctness / read-back search on real answer sets and telingo traces',
        text='Lean theorems: (sentence layer, C15_sentence_mentions_all) for EVERY signature (entity, subject, objects, any names and origins) and '
             'every argument tuple, the values the sentence mentions with its subject, its objects and the concept itself are, with multiplicity, '
             'exactly the values of the atom - no argument dropped, none said twice - provided no key of the atom equals a non-key attribute in name '
             'and value (decidable, evaluated on every real case); C15_sentence_values_are_arguments: those values are the symbol\'s arguments in order; '
             '(string layer) the final capitalisation changes at most the first character; every value handed to the entity printer occurs in the '
             'printed text; copula normalisation is total.',
        note='Trusted: Lean kernel; correspondence of ExplainS.sentence with the real _clingo_symbol_to_sentence (byte for byte, ~1 200 sentences per '
             'quick run) and of the unit printers. Which of several candidate subjects is chosen (_convert_subject, decided by the declared entities) is a '
             'parameter of the model. PARTIAL: which atoms get a sentence, distinctness of sentences, the read-back round trip and the per-state '
             'grouping of telingo traces are decided by the search on real clingo answer sets and telingo traces (sampled, not proved). Genuine '
             'defect F9 repaired by a fix: commit; F26 known finding.',
        design='DESIGN.md §0.2, §6 C15'),
    'C08': dict(
        technique='Lean 4 proof about an executable model of origin comparison and key-driven linking + correspondence with the real linker; position-map search on real outputs',
        text='Lean theorems: is_same_origin identifies only origins with the same innermost concept (for any name equality); a link step writes '
             'one value into at most one position of the searched atom and into the linked attribute, and the written position was null, has the '
             'linked attribute\'s name and a compatible origin; the invariant "an invented variable is held only by positions with one (attribute, '
             'innermost concept) key" is preserved by every link step and hence by any sequence of relations.',
        note='Trusted: Lean kernel; unit correspondence (the real AttributeOrigin.__eq__ / is_same_origin on 600 chain pairs and the real '
             '_link_two_atoms on 400 generated atom pairs per quick run, compared up to the spelling of fresh names); freshness of invented names '
             'is C07\'s theorem. The connection between the abstract invariant and whole compilations (which positions a relation links) is '
             'checked by the search over every rule of corpus / wide-generator outputs, not proved.',
        design='DESIGN.md §6 C08'),
    'C06': dict(
        technique='Lean 4 proof about an executable model of the WHOLE printing layer (every __str__ of ASP_elements: atoms, operations, aggregates, '
                  'temporal formulas, rules, weak constraints, programs, encodings) against a grammar of the target language, of the term printer '
                  '(convert_value) and of variable safety of the core fragment; byte-for-byte correspondence with the real printers; acceptance '
                  'search with clingo.ast, the clingo grounder and telingo on real outputs',
        text='Lean theorems: (statement syntax, C06_rule_syntax / C06_program_syntax) every well-formed rule object - any names, values, operand counts '
             'and nesting depth of arithmetic, comparisons, aggregates, choice heads with conditions and bounds, weak constraints, &tel formulas - is '
             'printed as a statement of the solver\'s grammar, and every encoding as a program; (terms, C06_value) every value the grammar can deliver '
             'prints as a number, a variable, `_`, a declared constant or ONE string literal; choice bounds are printed exactly when present; '
             '(safety, C06_core_safe) every rule printed for a range-restricted sentence of the core fragment satisfies the solver\'s safety condition.',
        note='The printer model (Asp/PrintProg.lean) is compared with the real str() byte for byte on every element tree of every compiled '
             'specification (both printing modes) and on random trees built from the real classes (~6 500 rules per quick run); the well-formedness '
             'hypothesis wfRule is evaluated by the model on every real rule (99.6 % of compiled rules; the rest are listed in the evidence). '
             'PARTIAL: the grammar is over tokens (that the solver\'s lexer splits the printed text into these tokens is validated by clingo\'s parser on '
             'the same texts, not proved) and relative to the leaves being terms (C06_value); safety of invented variables outside the core fragment '
             'and telingo\'s restrictions on marked atoms are decided per run by the solvers on generated outputs - a search. Trusted: Lean kernel; '
             'clingo / telingo as acceptance oracles. Known findings F12b, F15, F16, F25, F27, F28, F29 (genuine, recorded).',
        design='DESIGN.md §0.2, §6 C06'),
    'C01': dict(
        technique='Lean 4 proof: answer-set semantics (least model of the reduct, choice bounds, constraints) of the emitted rule shapes, Fages\' '
                  'theorem for ranked programs, and equivalence with the direct reading of resolved core sentences; rule-by-rule correspondence '
                  'of the model compiler with the real compiler; answer-set search with clingo',
        text='Lean theorems: for EVERY stratified specification of the core fragment (facts, choice sentences with any cardinality phrase and '
             'conditions, definitions, prohibitions, requirements), every interpretation M, all domain sizes and bounds: M is an answer set of '
             'the compiled program iff M is a model of the direct reading (every sentence respected, nothing holds without a reason) — '
             'C01_main, via Fages\' theorem proved for programs with choice rules, constraints and non-recursive aggregates; the bounds printed '
             'for each cardinality phrase mean what the phrase says (over the regenerated QUANTITY_OPERATOR callback table); corollaries for '
             'prohibited / required / choice / closedness; C01_decide: for range-restricted aggregate-free specifications and finite '
             'interpretations, answer-set-hood is decided by the executable reading refCheckB (proved equal to RefModel), run by the driver '
             'on clingo\'s answer sets of the real output and their neighbours.',
        note='Trusted: Lean kernel; that clingo computes the answer sets of Asp/Sem.lean `Stable` (validated per run: clingo\'s answer sets of '
             'the real output equal the models of the direct reading enumerated on the finite domains); the generator\'s resolved form of each '
             'surface sentence (checked per run by the rule-by-rule correspondence Core.compile vs the real output, ~240 specifications per '
             'quick run). The theorem is about RESOLVED sentences: which positions the parser / linker connects is C07 / C08 / the correspondence. '
             'must-without-cardinality is modelled as a definition; disjunctive heads (or) are outside the fragment. Known finding F30.',
        design='DESIGN.md §6 C01'),
    'C02': dict(
        technique='Lean 4 proof: aggregate literals over sets of distinct tuples in the answer-set semantics of C01, direct reading of '
                  'resolved aggregate sentences, table theorems over the regenerated aggregate words / symbols; rule-by-rule correspondence; '
                  'answer-set search with clingo',
        text='Lean theorems: C02_main (answer sets = models of the direct reading for every stratified specification with aggregate '
             'constraints, every interpretation, all domains and thresholds); prohibited / required / aggregate-vs-aggregate corollaries per '
             'binding of the whenever labels; the value of #count / #sum / #max / #min is a function of the SET of qualifying tuples; a '
             'comparison and the negation printed for `required` are complementary for every value incl. empty #max / #min; locality of '
             'aggregate variables; every aggregate word of the live grammar maps to the function it means and is printed with that function\'s symbol.',
        note='Trusted: Lean kernel; clingo\'s aggregate semantics = Asp/Sem.lean Agg.holds (validated per run by the search); the generator\'s '
             'resolved form (checked per run by the rule-by-rule correspondence). Aggregates occur in constraints only. `required … between` '
             'on an aggregate is a genuine defect (finding F1). Forms covered: active / passive / unary counts, attribute and key sum / max / '
             'min with or without a bound key, every comparison phrase, between, aggregate-vs-aggregate; `for each` discriminants and '
             '`such that` are not modelled.',
        design='DESIGN.md §6 C02'),
    'C04': dict(
        technique='Lean 4 proof: weak constraints and optimal answer sets over the answer-set semantics of C01, cost lemmas per preference form, '
                  'table theorems over the regenerated direction / priority / sign tables; statement-by-statement correspondence; optimum '
                  'search with clingo optN',
        text='Lean theorems: C04_main (optimal answer sets of the compiled program = models of the direct reading that no such model beats, '
             'for every stratified core specification and every list of preferences); an aggregate preference costs exactly the aggregate\'s '
             'value (negated for a maximisation); a situation preference costs one unit per distinct parameter tuple for which the situation '
             'holds; a variable preference costs the sum of the variable over the distinct (value, parameters) pairs; the cost of a level is a function of the interpretation; an optimal answer set is cheapest at the highest level; '
             'direction (partial: 3 of 4 phrases), sign and priority tables over the live callbacks.',
        note='PARTIAL for "as much as possible": the live callback gives it the direction of "as little as possible" (finding F3, kernel-checked '
             'witness Findings/C04.lean; pinned by an existing test). Trusted: Lean kernel; clingo\'s optimisation = Asp/Opt.lean (validated per '
             'run: clingo optN on the real output vs the optimal models of the direct reading); the generator\'s resolved form (checked per run '
             'by the statement-by-statement correspondence). Preferences of one specification get distinct priorities.',
        design='DESIGN.md §6 C04'),
}

NOT_YET = {}

# additions of session 3 to the notes (search families added after seeded changes / agents' reports; fixes and findings)
MORE = {
    'C03': ' Search also covers nested and 3-operand arithmetic operands (grid rows), product / division and absolute-value operands (searched only). '
           'F38 (division printed as modulo) repaired by a fix: commit; F19 (absolute value printed without bars, test-pinned) known finding.',
    'C04': ' The core generator also writes preferences with `where X is one of …` (one weak constraint per value) and situations with the direction '
           'written after them; F42 (direction lost in the copies) repaired by a fix: commit.',
    'C05': ' Search also judges the same conditions under `It is prohibited / required that` on all traces (polarity family) and prefixed clauses in '
           'copied propositions; F41 (negated condition under `required`) repaired by a fix: commit.',
    'C07': ' Renamings include spellings with inner underscores and duration clauses; F36 repaired by a fix: commit.',
    'C01': ' Constraints over a conjunction of clauses are judged against a brute-force reading (search only); F46 (a requirement over a conjunction '
           'is printed as one constraint) is a known finding.',
    'C08': ' Aggregates over an attribute name shared by two concepts are searched; F47 is a known finding.',
    'C09': ' A noun grid covers singular / plural over every plural morphology.',
    'C10': ' F44 (a constant declared later changes an earlier rule) is a known finding.',
    'C11': ' Headers are also inserted between all ordered pairs of a sentence pool and into wide-generator specifications.',
    'C12': ' The frame monitor scans every module-level / class-level container and mutable default argument of the package generically; probes include '
           'texts with syntax errors; F39 (hash-seed dependent diagnostic) repaired by a fix: commit.',
    'C14': ' A definition family (one-value definitions, enumerations, ranges, facts of a concept with an inherited key) checks one shape per predicate; '
           'F35, F37 repaired by fix: commits.',
    'C16': ' A length of 0 is rejected by model and (after fix e206f50) by the code.',
    'C17': ' Double cardinalities include pairs that share a bound.',
    'C18': ' Every call of the real code runs under a time limit (non-termination is a violation: F33, repaired by a fix: commit); inputs include degenerate '
           'temporal declarations and line separators other than \\n.',
}

ALL = [f'C{i:02d}' for i in range(1, 19)]


def main():
    checks = []
    for pid in ALL:
        if pid in CHECKS:
            c = CHECKS[pid]
            checks.append({
                'property_id': pid,
                'quick_cmd': f'./check {pid} --tier quick',
                'thorough_cmd': f'./check {pid} --tier thorough',
                'evidence_file': f'evidence/{pid}.json',
                'replay_cmd_template': f'./check {pid} --replay {{path}}',
                'engine': 'lean4-model+tie',
                'level_claimed': {'category': 'proof', 'text': c['text'], 'design_ref': c['design']},
                'level_note': c['note'] + MORE.get(pid, ''),
                'technique': c['technique'],
            })
    na = [{'property_id': pid, 'reason': NOT_YET.get(pid, 'check not built yet in this round (work in progress; see DESIGN.md §10 order of work)')}
          for pid in ALL if pid not in CHECKS]
    m = {
        'version': 1,
        'setup_cmd': './check --setup',
        'hooks': {
            'guard': 'DODARO_CNL2ASP_VERIF',
            'enable': 'no hooks in /repo: all instrumentation is done from the harness process by wrapping / subclassing',
            'baseline_off_cmd': 'cd /repo && /venv/bin/python -m pytest -ra -q -p no:cacheprovider --timeout=900 --continue-on-collection-errors',
            'source_commits': [],  # no hook commits; fix: commits are listed in known_findings.json
            'add_only': True,
        },
        'engines': [{
            'name': 'lean4-model+tie', 'path': 'lean/ + harness/',
            'serves_properties': sorted(CHECKS),
            'kind_free_text': 'Lean 4 models and theorems (lake project lean/), tied to /repo on every run by a table translator '
                              '(harness/extract_tables.py, regenerated Generated/*.lean) and by correspondence checks that run the model '
                              'and the real Python code on the same inputs; failing-input search on the real code with clingo/telingo',
        }],
        'checks': checks,
        'not_applicable': na,
        'notes': 'Exit codes: 0 held, 1 violation (VIOLATION line), 2 tooling failure/timeout. Known findings: known_findings.json.',
    }
    with open(os.path.join(VERIF, 'MANIFEST.json'), 'w') as f:
        json.dump(m, f, indent=1)
    print('MANIFEST.json written:', len(checks), 'checks,', len(na), 'not applicable')


if __name__ == '__main__':
    main()
