#!/bin/bash
# usage: harness/seed_matrix_par.sh [-j N] [<seed id> ...]
# Parallel version of seed_matrix.sh that never touches /repo: for every kept seeded change it makes a scratch git worktree of
# /repo's HEAD and a scratch copy of /verif (both under $SCRATCH, default /tmp/seedmx), applies the change to the worktree, runs
# the check of its property (and the checks listed in seeded/<id>/also) in the copy with VERIF_REPO pointing at the worktree,
# removes both, and merges the outcome into seeded/MATRIX.json.
cd /verif
J=6
if [ "$1" = "-j" ]; then J="$2"; shift 2; fi
SCRATCH="${SCRATCH:-/tmp/seedmx}"
ids="$@"
[ -z "$ids" ] && ids=$(ls seeded | grep -v MATRIX)
mkdir -p "$SCRATCH"
one() {
  id="$1"; SCRATCH="$2"
  prop=${id%%-*}
  checks="$prop"
  [ -f /verif/seeded/$id/also ] && checks="$checks $(cat /verif/seeded/$id/also)"
  d="$SCRATCH/$id"; rm -rf "$d"; mkdir -p "$d"
  git -C /repo worktree add -q --detach "$d/repo" HEAD || { echo "$id: no worktree"; return; }
  if ! git -C "$d/repo" apply /verif/seeded/$id/patch.diff; then
    echo "$id: patch does not apply"
  else
    rsync -a --exclude .git --exclude evidence/replays /verif/ "$d/verif/"
    for c in $checks; do
      ( cd "$d/verif" && VERIF_REPO="$d/repo" VERIF_PROCS=4 ./check $c --tier quick > "$SCRATCH/log_${id}_$c.log" 2>&1 ); rc=$?
      nv=$(grep -c '^VIOLATION' "$SCRATCH/log_${id}_$c.log")
      nf=$(grep '^VIOLATION' "$SCRATCH/log_${id}_$c.log" | grep -vc 'no-failing-input-found')
      nb=$(grep -c 'BROKEN' "$SCRATCH/log_${id}_$c.log")
      echo "$id $c rc=$rc violations=$nv with_failing_input=$nf broken_obligations=$nb"
    done
  fi
  git -C /repo worktree remove --force "$d/repo"
  rm -rf "$d"
}
export -f one
printf '%s\n' $ids | xargs -P "$J" -I{} bash -c 'one {} '"$SCRATCH" | tee "$SCRATCH/seed_matrix.txt"
python3 - "$SCRATCH/seed_matrix.txt" <<'PY'
import json, re, os, sys
rows = {}
p = '/verif/seeded/MATRIX.json'
if os.path.exists(p):
    rows = json.load(open(p))
for line in open(sys.argv[1]):
    m = re.match(r'(\S+) (\S+) rc=(\d+) violations=(\d+) with_failing_input=(\d+) broken_obligations=(\d+)', line)
    if m:
        rows.setdefault(m.group(1), {})[m.group(2)] = {'exit': int(m.group(3)), 'violation_lines': int(m.group(4)),
                                                         'with_failing_input': int(m.group(5)), 'broken_obligations': int(m.group(6))}
json.dump(rows, open(p, 'w'), indent=1, sort_keys=True)
print('MATRIX.json:', len(rows), 'seeded changes')
PY
