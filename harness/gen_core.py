"""The core fragment (DESIGN.md §4.1) as RESOLVED sentences + surface text, for C01 / C02 / C04.

Every sentence carries `text` (what the real compiler reads) and `ast` (the JSON of lean/Cnl2aspModel/Cnl/Core.lean
`Sentence`, read by the driver op c01.compile).  The resolved form is known by construction: concepts have one key `id`
(optionally one more attribute), labels are used for one concept per sentence, object labels of choice sentences are never
bound by a condition (F15), subject and object concepts differ (F12).

Also here: the direct reading evaluated in Python on finite domains (`ref_models`), used ONLY by the failing-input search.
"""
from __future__ import annotations

import itertools
import random

CONCEPTS = ['node', 'color', 'room', 'agent', 'task', 'truck', 'seat', 'desk']
ATTRS = ['kind', 'level', 'rank']
WORDS = ['red', 'green', 'blue', 'amber']
VERBS = [('assigned', 'to'), ('paired', 'to'), ('stored', 'in'), ('taken', 'from'), ('sent', 'to'), ('kept', 'in'), ('linked', 'to'),
         ('placed', 'in'), ('moved', 'to')]
UNARY = ['chosen', 'marked', 'flagged', 'active', 'closed', 'busy']
LABELS = ['X', 'Y', 'Z', 'W', 'V', 'U', 'T', 'S', 'R', 'Q', 'P']
CMP = [('equal to', 'eq'), ('different from', 'ne'), ('greater than', 'gt'), ('more than', 'gt'), ('less than', 'lt'),
       ('greater than or equal to', 'ge'), ('at least', 'ge'), ('less than or equal to', 'le'), ('at most', 'le')]


def art(w):
    return 'an' if w[0] in 'aeiou' else 'a'


class Concept:
    def __init__(self, name, attr=None):
        self.name, self.attr = name, attr
        self.tuples = []           # list of tuples of python values (int / str)
        self.kind = 'num'

    @property
    def arity(self):
        return 2 if self.attr else 1


class Verb:
    def __init__(self, name, prep, subj, obj):
        self.name, self.prep, self.subj, self.obj = name, prep, subj, obj

    @property
    def pred(self):
        return self.name + ('_' + self.prep if self.prep and self.obj else '')

    @property
    def words(self):
        return self.name + (' ' + self.prep if self.prep and self.obj else '')


class Ctx:
    """per-sentence label / variable allocation"""
    def __init__(self, rng, pref=None):
        self.rng = rng
        self.pref = pref if pref is not None else {}
        self.n = 0
        self.labels = {}
        # a small pool: the same label is often reused by neighbouring sentences (cross-sentence leaks show only then)
        self.pool = list(LABELS[:6]) if rng.random() < 0.7 else list(LABELS)
        rng.shuffle(self.pool)
        if rng.random() < 0.25:
            # labels one of which is a prefix of another (C1 / C, X12 / X1): resolution of a label must be exact
            self.pool = rng.choice([['C', 'C1', 'X', 'X1'], ['X1', 'X12', 'C', 'C1'], ['N', 'N1', 'N12']])
            rng.shuffle(self.pool)
            self.pref = {}

    def label(self, concept=None):
        # authors tend to write the same label for the same concept in every sentence ('node X', 'color C')
        if concept is not None:
            want = self.pref.setdefault(concept, self.rng.choice(LABELS))
            if want not in self.labels and self.rng.random() < 0.7:
                if want in self.pool:
                    self.pool.remove(want)
                self.labels[want] = self.n
                self.n += 1
                return want
        name = self.pool.pop()
        self.labels[name] = self.n
        self.n += 1
        return name

    def var(self, name):
        return {'v': self.labels[name]}

    def fresh(self):
        self.n += 1
        return {'v': self.n - 1}

    def attr_var(self, concept, key_term):
        """the unnamed attribute of one entity (same concept, same key term) is one variable throughout the sentence"""
        k = (concept, repr(key_term))
        if k not in self.__dict__.setdefault('cache', {}):
            self.cache[k] = self.fresh()
        return self.cache[k]


def val(v):
    return {'n': v} if isinstance(v, int) else {'s': v}


def ent(c, key_term, attr_term=None, ctx=None):
    args = [key_term]
    if c.attr:
        args.append(attr_term if attr_term is not None else ctx.attr_var(c.name, key_term))
    return {'c': c.name, 'a': args, 'k': 1}


def verbuse(v, neg, subj_ent, obj_ent):
    return {'verb': v.pred, 'neg': neg, 'subj': subj_ent, 'objs': [obj_ent] if obj_ent else []}


class Sentence:
    def __init__(self, text, ast, kind, defines=None, uses=()):
        # one surface sentence may stand for several resolved sentences (an enumerative definition prints one rule per combination)
        self.asts = ast if isinstance(ast, list) else [ast]
        self.text, self.ast, self.kind, self.defines, self.uses = text, self.asts[0], kind, defines, list(uses)


class Spec:
    def __init__(self):
        self.concepts = []
        self.verbs = []
        self.decls = []
        self.sentences = []
        self.order = []
        self.pref = {}

    def text(self):
        return '\n'.join(self.decls + [s.text for s in self.sentences]) + '\n'

    def ast(self):
        return [a for s in self.sentences for a in s.asts]

    def owners(self):
        return [s for s in self.sentences for _ in s.asts]


# ---------------------------------------------------------------------------
def gen_spec(rng, n_verbs=None, n_constraints=None, small=True):
    sp = Spec()
    names = rng.sample(CONCEPTS, rng.randrange(2, 4))
    for n in names:
        c = Concept(n, rng.choice(ATTRS) if rng.random() < 0.3 else None)
        sp.concepts.append(c)
        sp.decls.append(f'{art(n).capitalize()} {n} is identified by an id' + (f', and has {art(c.attr)} {c.attr}' if c.attr else '') + '.')
    for c in sp.concepts:
        sp.order.append(c.name)
        size = rng.randrange(2, 4 if small else 5) if rng.random() < 0.85 else 1
        if c.attr:
            ids = rng.sample(range(1, 5), size)
            for i in ids:
                a = rng.randrange(1, 4)
                c.tuples.append((i, a))
                form = rng.random()
                t = (f'There is {art(c.name)} {c.name} with id {"equal to " if form < 0.3 else ""}{i}, with {c.attr} '
                     f'{"equal to " if form < 0.3 else ""}{a}.')
                sp.sentences.append(Sentence(t, {'k': 'facts', 'pred': c.name, 'tuples': [[i, a]]}, 'facts', defines=c.name))
        elif rng.random() < 0.6:
            lo = rng.randrange(0, 3)
            hi = lo + size - 1
            c.tuples = [(i,) for i in range(lo, hi + 1)]
            t = f'{art(c.name).capitalize()} {c.name} {rng.choice(["goes", "ranges"])} from {lo} to {hi}.'
            sp.sentences.append(Sentence(t, {'k': 'facts', 'pred': c.name, 'tuples': [[i] for i in range(lo, hi + 1)]}, 'facts', defines=c.name))
        else:
            ws = rng.sample(WORDS, size)
            c.kind = 'str'
            c.tuples = [(w,) for w in ws]
            lst = ', '.join(ws)
            t = f'{art(c.name).capitalize()} {c.name} is one of {lst}.'
            sp.sentences.append(Sentence(t, {'k': 'facts', 'pred': c.name, 'tuples': [[w] for w in ws]}, 'facts', defines=c.name))
    nv = n_verbs if n_verbs is not None else rng.randrange(1, 4)
    binary = list(VERBS)
    unary = list(UNARY)
    rng.shuffle(binary)
    rng.shuffle(unary)
    for _ in range(nv):
        subj = rng.choice(sp.concepts)
        others = [c for c in sp.concepts if c is not subj]
        if rng.random() < 0.7 and binary:
            n, p = binary.pop()
            v = Verb(n, p, subj, rng.choice(others))
        else:
            v = Verb(unary.pop(), None, subj, None)
        earlier = list(sp.verbs)
        r = rng.random()
        if r < 0.12 and subj.tuples and (v.obj is None or v.obj.tuples):
            s = enum_sentence(rng, sp, v)
        elif not earlier or r < 0.65:
            s = choice_sentence(rng, sp, v, earlier)
        else:
            s = derived_sentence(rng, sp, v, earlier)
        sp.verbs.append(v)
        sp.order.append(v.pred)
        sp.sentences.append(s)
    nk = n_constraints if n_constraints is not None else rng.randrange(0, 4)
    for _ in range(nk):
        sp.sentences.append(constraint_sentence(rng, sp))
    return sp


def subj_phrase(c, label, with_id=None):
    return f'{c.name} {label}'


def card_phrase(rng, nobj):
    r = rng.random()
    if r < 0.08:
        # bounds with different numbers of digits (they are strings in the compiler: 9 < 10, but '9' > '10')
        n, m = rng.choice([0, 2, 3, 9]), rng.choice([10, 11, 12])
        return f'between {n} and {m}', {'k': 'between', 'n': n, 'm': m}
    if r < 0.2:
        return '', {'k': 'any'}
    if r < 0.75:
        q, name = rng.choice([('exactly', 'EXACTLY'), ('at most', 'AT_MOST'), ('at least', 'AT_LEAST')])
        n = rng.randrange(0, nobj + 2)
        return f'{q} {n}', {'k': 'single', 'q': name, 'n': n}
    n = rng.randrange(0, nobj + 1)
    m = rng.randrange(n, nobj + 2)
    return f'between {n} and {m}', {'k': 'between', 'n': n, 'm': m}


def cond_clauses(rng, sp, ctx, subj, x, earlier, allow_verbs=True):
    """extra conditions over the subject label `x` (of concept `subj`): returns (text pieces for 'when', for 'whenever', for 'where', clause ASTs)"""
    whens, whenevers, wheres, asts = [], [], [], []
    r = rng.random()
    cands = [v for v in earlier if v.subj is subj]
    if allow_verbs and cands and r < 0.5:
        for v in rng.sample(cands, min(len(cands), rng.randrange(1, 3))):
            neg = rng.random() < 0.3
            if v.obj:
                if neg:
                    continue      # a negated binary clause would leave its object label without a positive occurrence in a choice body … keep it simple
                y = ctx.label(v.obj.name)
                oe = ent(v.obj, ctx.var(y), ctx=ctx)
                se = ent(subj, ctx.var(x), ctx=ctx)
                whens.append(f'{subj.name} {x} is {v.words} {v.obj.name} {y}')
                asts.append({'k': 'verb', 'v': verbuse(v, False, se, oe)})
            else:
                se = ent(subj, ctx.var(x), ctx=ctx)
                whens.append(f'{subj.name} {x} is {"not " if neg else ""}{v.words}')
                asts.append({'k': 'verb', 'v': verbuse(v, neg, se, None)})
    r = rng.random()
    others = [c for c in sp.concepts if c is not subj]
    if others and r < 0.35:
        c = rng.choice(others)
        same_kind = (c.kind == subj.kind)
        if not c.attr and same_kind and rng.random() < 0.5:
            neg = rng.random() < 0.5
            whenevers.append(f'whenever there is {"not " if neg else ""}{art(c.name)} {c.name} with id {x}')
            asts.append({'k': 'ent', 'neg': neg, 'e': ent(c, ctx.var(x))})
        else:
            z = ctx.label(c.name)
            if c.attr and rng.random() < 0.5:
                a = rng.randrange(1, 4)
                whenevers.append(f'whenever there is {art(c.name)} {c.name} {z} with {c.attr} {a}')
                asts.append({'k': 'ent', 'neg': False, 'e': ent(c, ctx.var(z), val(a))})
            else:
                whenevers.append(f'whenever there is {art(c.name)} {c.name} {z}')
                asts.append({'k': 'ent', 'neg': False, 'e': ent(c, ctx.var(z), ctx=ctx)})
    if subj.kind == 'num' and rng.random() < 0.3:
        ph, op = rng.choice(CMP)
        n = rng.randrange(0, 4)
        wheres.append(f'where {x} is {ph} {n}')
        asts.append({'k': 'cmp', 'op': op, 'l': ctx.var(x), 'r': val(n)})
    return whens, whenevers, wheres, asts


def choice_sentence(rng, sp, v, earlier):
    ctx = Ctx(rng, sp.pref)
    x = ctx.label(v.subj.name)
    subj = v.subj
    nobj = len(v.obj.tuples) if v.obj else 1
    cphrase, card = card_phrase(rng, nobj) if v.obj else ('', {'k': 'any'})
    form = rng.choice(['every', 'every', 'whenever'])
    # object
    obj_txt, obj_ent = '', None
    if v.obj:
        y = ctx.label(v.obj.name) if rng.random() < 0.5 else None
        yterm = ctx.var(y) if y else ctx.fresh()
        attr_txt, attr_term = '', None
        if v.obj.attr and rng.random() < 0.5:
            a = rng.randrange(1, 4)
            attr_txt, attr_term = f' with {v.obj.attr} {a}', val(a)
        obj_ent = ent(v.obj, yterm, attr_term, ctx=ctx)
        if cphrase:
            obj_txt = f'{cphrase} {v.obj.name}' + (f' {y}' if y else '') + attr_txt
        else:
            obj_txt = f'{art(v.obj.name)} {v.obj.name}' + (f' {y}' if y else '') + attr_txt
    modal = rng.choice(['can', 'must']) if cphrase else 'can'
    whens, whenevers, wheres, casts = cond_clauses(rng, sp, ctx, subj, x, earlier)
    se = ent(subj, ctx.var(x), ctx=ctx)
    vu = verbuse(v, False, se, obj_ent)
    if form == 'every':
        quant = rng.choice(['Every', 'Any'])
        t = f'{quant} {subj.name} {x} {modal} be {v.words}' + (' ' + obj_txt if obj_txt else '')
        if whens:
            t += ' when ' + ' and also '.join(whens)
        for w in whenevers:
            t += ', ' + w
        for w in wheres:
            t += ', ' + w
        t += '.'
    else:
        # Whenever there is a S X[, whenever …], then X can be V …   (when-clauses are not available in this form)
        casts = [a for a in casts if a['k'] != 'verb']
        t = f'Whenever there is {art(subj.name)} {subj.name} {x}'
        for w in whenevers:
            t += ', ' + w
        t += f', then {x} {modal} be {v.words}' + (' ' + obj_txt if obj_txt else '')
        for w in wheres:
            t += ', ' + w
        t += '.'
    ast = {'k': 'choice', 'conds': casts, 'v': vu, 'card': card}
    return Sentence(t, ast, 'choice', defines=v.pred)


def derived_sentence(rng, sp, v, earlier):
    ctx = Ctx(rng, sp.pref)
    x = ctx.label(v.subj.name)
    subj = v.subj
    se = ent(subj, ctx.var(x), ctx=ctx)
    obj_ent, y = None, None
    if v.obj:
        y = ctx.label(v.obj.name)
        obj_ent = ent(v.obj, ctx.var(y), ctx=ctx)
    head_txt = f'{subj.name.capitalize()} {x} is {v.words}' + (f' {v.obj.name} {y}' if v.obj else '')
    casts, whens, tails = [], [], []
    # conditions over earlier verbs with the same shape, or over the subject
    same = [w for w in earlier if w.subj is subj and w.obj is v.obj]
    unary = [w for w in earlier if w.subj is subj and w.obj is None]
    picks = []
    if same:
        picks += rng.sample(same, min(len(same), rng.randrange(1, 3)))
    if unary and rng.random() < 0.6:
        picks += [w for w in rng.sample(unary, 1) if w not in picks]
    first = True
    for w in picks:
        neg = (not first) and rng.random() < 0.4
        s2 = ent(subj, ctx.var(x), ctx=ctx)
        o2 = ent(w.obj, ctx.var(y), ctx=ctx) if w.obj else None
        whens.append(f'{subj.name} {x} is {"not " if neg else ""}{w.words}' + (f' {w.obj.name} {y}' if w.obj else ''))
        casts.append({'k': 'verb', 'v': verbuse(w, neg, s2, o2)})
        first = False
    if not whens and rng.random() < 0.5 and v.obj is None:
        # Whenever there is a S X, then X must be V.
        t = f'Whenever there is {art(subj.name)} {subj.name} {x}, then {x} must be {v.words}.'
        return Sentence(t, {'k': 'derived', 'v': verbuse(v, False, se, None), 'conds': []}, 'derived', defines=v.pred)
    t = head_txt
    if whens:
        t += ' when ' + ' and also '.join(whens)
    else:
        t += f', whenever there is {art(subj.name)} {subj.name} {x}'
        if v.obj:
            t += f', whenever there is {art(v.obj.name)} {v.obj.name} {y}'
    if subj.kind == 'num' and rng.random() < 0.4:
        ph, op = rng.choice(CMP)
        n = rng.randrange(0, 4)
        t += f', where {x} is {ph} {n}'
        casts.append({'k': 'cmp', 'op': op, 'l': ctx.var(x), 'r': val(n)})
    t += '.'
    return Sentence(t, {'k': 'derived', 'v': verbuse(v, False, se, obj_ent), 'conds': casts}, 'derived', defines=v.pred)


def enum_sentence(rng, sp, v):
    """<S> X is <verb> <O> Y, where X is one of a, b and Y is one of c, d.   (one definition per combination)"""
    ctx = Ctx(rng, sp.pref)
    x = ctx.label(v.subj.name)
    se = ent(v.subj, ctx.var(x), ctx=ctx)
    def vtxt(u):
        return str(u)
    xs = [t[0] for t in rng.sample(v.subj.tuples, min(len(v.subj.tuples), rng.randrange(1, 3)))]
    head = f'{v.subj.name.capitalize()} {x} is {v.words}'
    lists = [(x, ctx.var(x), xs)]
    oe = None
    if v.obj:
        y = ctx.label(v.obj.name)
        oe = ent(v.obj, ctx.var(y), ctx=ctx)
        ys = [t[0] for t in rng.sample(v.obj.tuples, min(len(v.obj.tuples), rng.randrange(1, 3)))]
        head += f' {v.obj.name} {y}'
        if rng.random() < 0.7:
            lists.append((y, ctx.var(y), ys))
        else:
            # the object's own instances instead of a list
            head += f', whenever there is {art(v.obj.name)} {v.obj.name} {y}'
    t = head + ', where ' + ' and '.join(f'{l} is one of {", ".join(vtxt(u) for u in us)}' for l, _, us in lists) + '.'
    asts = []
    for combo in itertools.product(*[us for _, _, us in lists]):
        conds = [{'k': 'cmp', 'op': 'eq', 'l': term, 'r': val(u)} for (_, term, _), u in zip(lists, combo)]
        asts.append({'k': 'derived', 'v': verbuse(v, False, se, oe), 'conds': conds})
    return Sentence(t, asts, 'derived-enum', defines=v.pred)


def constraint_sentence(rng, sp):
    ctx = Ctx(rng, sp.pref)
    pol = rng.choice(['prohibited', 'required'])
    r = rng.random()
    verbs = sp.verbs
    if verbs and r < 0.55:
        v = rng.choice(verbs)
        x = ctx.label(v.subj.name)
        y = ctx.label(v.obj.name) if v.obj else None
        neg = rng.random() < 0.4
        se = ent(v.subj, ctx.var(x), ctx=ctx)
        oe = ent(v.obj, ctx.var(y), ctx=ctx) if v.obj else None
        main_txt = f'{v.subj.name} {x} is {"not " if neg else ""}{v.words}' + (f' {v.obj.name} {y}' if v.obj else '')
        main = {'k': 'verb', 'v': verbuse(v, neg, se, oe)}
        form = rng.random()
        if pol == 'required' and v.obj is None and form < 0.3:
            t = f'It is required that every {v.subj.name} {x} is {"not " if neg else ""}{v.words}.'
            return Sentence(t, {'k': 'required', 'main': main, 'conds': []}, 'constraint')
        same = [w for w in verbs if w is not v and w.subj is v.subj and w.obj is v.obj]
        if same and form < 0.6:
            w = rng.choice(same)
            neg2 = rng.random() < 0.4
            s2 = ent(v.subj, ctx.var(x), ctx=ctx)
            o2 = ent(w.obj, ctx.var(y), ctx=ctx) if w.obj else None
            second_txt = f'{v.subj.name} {x} is {"not " if neg2 else ""}{w.words}' + (f' {w.obj.name} {y}' if w.obj else '')
            second = {'k': 'verb', 'v': verbuse(w, neg2, s2, o2)}
            if rng.random() < 0.5 and not neg:
                # when … then …
                t = f'It is {pol} that when {main_txt} then {second_txt}.'
                if pol == 'required':
                    return Sentence(t, {'k': 'required', 'main': second, 'conds': [main]}, 'constraint')
                return Sentence(t, {'k': 'prohibited', 'cs': [main, second]}, 'constraint')
            if pol == 'prohibited':
                t = f'It is prohibited that {main_txt} and also {second_txt}.'
                return Sentence(t, {'k': 'prohibited', 'cs': [main, second]}, 'constraint')
        # plain clause with whenever tails binding every label
        tails = [f'whenever there is {art(v.subj.name)} {v.subj.name} {x}']
        conds = [{'k': 'ent', 'neg': False, 'e': ent(v.subj, ctx.var(x), ctx=ctx)}]
        if v.obj:
            tails.append(f'whenever there is {art(v.obj.name)} {v.obj.name} {y}')
            conds.append({'k': 'ent', 'neg': False, 'e': ent(v.obj, ctx.var(y), ctx=ctx)})
        if v.subj.kind == 'num' and rng.random() < 0.4:
            ph, op = rng.choice(CMP)
            n = rng.randrange(0, 4)
            tails.append(f'where {x} is {ph} {n}')
            conds.append({'k': 'cmp', 'op': op, 'l': ctx.var(x), 'r': val(n)})
        t = f'It is {pol} that {main_txt}, ' + ', '.join(tails) + '.'
        if pol == 'required':
            return Sentence(t, {'k': 'required', 'main': main, 'conds': conds}, 'constraint')
        return Sentence(t, {'k': 'prohibited', 'cs': [main] + conds}, 'constraint')
    if r < 0.8:
        # there is [not] a C with id X, whenever there is a S X
        pairs = [(a, b) for a in sp.concepts for b in sp.concepts if a is not b and a.kind == b.kind and not a.attr]
        if pairs:
            c, s = rng.choice(pairs)
            x = ctx.label(s.name)
            neg = rng.random() < 0.5
            main = {'k': 'ent', 'neg': neg, 'e': ent(c, ctx.var(x))}
            conds = [{'k': 'ent', 'neg': False, 'e': ent(s, ctx.var(x), ctx=ctx)}]
            t = (f'It is {pol} that there is {"not " if neg else ""}{art(c.name)} {c.name} with id {x}, '
                 f'whenever there is {art(s.name)} {s.name} {x}.')
            if pol == 'required':
                return Sentence(t, {'k': 'required', 'main': main, 'conds': conds}, 'constraint')
            return Sentence(t, {'k': 'prohibited', 'cs': [main] + conds}, 'constraint')
    # comparison between labels / numbers
    nums = [c for c in sp.concepts if c.kind == 'num']
    if nums:
        a = rng.choice(nums)
        x = ctx.label(a.name)
        ph, op = rng.choice(CMP)
        conds = [{'k': 'ent', 'neg': False, 'e': ent(a, ctx.var(x), ctx=ctx)}]
        tails = [f'whenever there is {art(a.name)} {a.name} {x}']
        others = [c for c in nums if c is not a]
        if others and rng.random() < 0.5:
            b = rng.choice(others)
            y = ctx.label(b.name)
            conds.append({'k': 'ent', 'neg': False, 'e': ent(b, ctx.var(y), ctx=ctx)})
            tails.append(f'whenever there is {art(b.name)} {b.name} {y}')
            rhs_txt, rhs = y, ctx.var(y)
        else:
            n = rng.randrange(0, 4)
            rhs_txt, rhs = str(n), val(n)
        main = {'k': 'cmp', 'op': op, 'l': ctx.var(x), 'r': rhs}
        t = f'It is {pol} that {x} is {ph} {rhs_txt}, ' + ', '.join(tails) + '.'
        if pol == 'required':
            return Sentence(t, {'k': 'required', 'main': main, 'conds': conds}, 'constraint')
        return Sentence(t, {'k': 'prohibited', 'cs': [main] + conds}, 'constraint')
    c = rng.choice(sp.concepts)
    if c.attr:
        a = rng.randrange(1, 4)
        t = f'It is prohibited that there is {art(c.name)} {c.name} with {c.attr} {a}.'
        return Sentence(t, {'k': 'prohibited', 'cs': [{'k': 'ent', 'neg': False, 'e': ent(c, ctx.fresh(), val(a))}]}, 'constraint')
    v0 = c.tuples[0][0] if c.tuples else 0
    vt = str(v0) if isinstance(v0, int) else v0
    t = f'It is prohibited that there is {art(c.name)} {c.name} with id equal to {vt}.'
    return Sentence(t, {'k': 'prohibited', 'cs': [{'k': 'ent', 'neg': False, 'e': ent(c, val(v0))}]}, 'constraint')


# ---------------------------------------------------------------------------
# the direct reading on finite domains (search side)
# ---------------------------------------------------------------------------
def term_val(t, env):
    if 'v' in t:
        return env.get(t['v'])
    return t['n'] if 'n' in t else t['s']


def lt(a, b):
    if isinstance(a, int) and isinstance(b, int):
        return a < b
    if isinstance(a, int):
        return True
    if isinstance(b, int):
        return False
    return a < b


def cmp_eval(op, a, b):
    return {'eq': a == b, 'ne': a != b, 'lt': lt(a, b), 'le': not lt(b, a), 'gt': lt(b, a), 'ge': not lt(a, b)}[op]


def ent_atom(e, env):
    return (e['c'],) + tuple(term_val(t, env) for t in e['a'])


def verb_atom(v, env):
    args = [term_val(t, env) for t in v['subj']['a'][:v['subj']['k']]]
    for o in v['objs']:
        args += [term_val(t, env) for t in o['a'][:o['k']]]
    return (v['verb'],) + tuple(args)


def clause_vars(c):
    out = []
    def tv(t):
        if 'v' in t:
            out.append(t['v'])
    if c['k'] == 'ent':
        for t in c['e']['a']:
            tv(t)
    elif c['k'] == 'verb':
        for e in [c['v']['subj']] + c['v']['objs']:
            for t in e['a']:
                tv(t)
    else:
        tv(c['l'])
        tv(c['r'])
    return out


def clause_holds(c, env, M):
    if c['k'] == 'ent':
        return (ent_atom(c['e'], env) in M) != c['neg']
    if c['k'] == 'cmp':
        return cmp_eval(c['op'], term_val(c['l'], env), term_val(c['r'], env))
    v = c['v']
    if ent_atom(v['subj'], env) not in M or any(ent_atom(o, env) not in M for o in v['objs']):
        return False
    return (verb_atom(v, env) in M) != v['neg']


def guards_hold(c, env, M):
    if c['k'] != 'verb':
        return True
    v = c['v']
    return ent_atom(v['subj'], env) in M and all(ent_atom(o, env) in M for o in v['objs'])


def core_holds(c, env, M):
    if c['k'] == 'verb':
        return (verb_atom(c['v'], env) in M) != c['v']['neg']
    return clause_holds(c, env, M)


def envs(variables, universe):
    variables = sorted(set(variables))
    for vals in itertools.product(universe, repeat=len(variables)):
        yield dict(zip(variables, vals))


def card_ok(card, k):
    if card['k'] == 'any':
        return True
    if card['k'] == 'between':
        return card['n'] <= k <= card['m']
    return {'EXACTLY': k == card['n'], 'AT_MOST': k <= card['n'], 'AT_LEAST': k >= card['n']}[card['q']]


def sentence_vars(s):
    vs = []
    if s['k'] in ('choice', 'derived'):
        vs += clause_vars({'k': 'verb', 'v': s['v']})
        for c in s['conds']:
            vs += clause_vars(c)
    elif s['k'] == 'prohibited':
        for c in s['cs']:
            vs += clause_vars(c)
    elif s['k'] == 'required':
        vs += clause_vars(s['main'])
        for c in s['conds']:
            vs += clause_vars(c)
    return sorted(set(vs))


def outer_vars(s):
    vs = [t['v'] for t in s['v']['subj']['a'] if 'v' in t]
    for c in s['conds']:
        vs += clause_vars(c)
    return sorted(set(vs))


def ref_models(spec_ast, order, limit=20000):
    """all models of the direct reading, built stratum by stratum (facts; then each relation in the order of its defining sentence)"""
    universe = set()
    facts = set()
    for s in spec_ast:
        if s['k'] == 'facts':
            for t in s['tuples']:
                facts.add((s['pred'],) + tuple(t))
                universe.update(t)
    universe = sorted(universe, key=lambda v: (isinstance(v, str), v))
    defs = [s for s in spec_ast if s['k'] in ('choice', 'derived')]
    cons = [s for s in spec_ast if s['k'] in ('prohibited', 'required')]
    models = [set(facts)]
    for s in defs:
        new = []
        for M in models:
            if s['k'] == 'derived':
                add = set()
                for env in envs(sentence_vars(s), universe):
                    v = s['v']
                    if ent_atom(v['subj'], env) in M and all(ent_atom(o, env) in M for o in v['objs']) and \
                            all(clause_holds(c, env, M) for c in s['conds']):
                        add.add(verb_atom(v, env))
                new.append(M | add)
            else:
                v = s['v']
                ov = outer_vars(s)
                local = [x for x in sentence_vars(s) if x not in ov]
                # admissible picks per outer environment
                groups = []
                for env in envs(ov, universe):
                    if ent_atom(v['subj'], env) in M and all(clause_holds(c, env, M) for c in s['conds']):
                        adm = set()
                        for loc in envs(local, universe):
                            e2 = dict(env)
                            e2.update(loc)
                            if all(ent_atom(o, e2) in M for o in v['objs']):
                                adm.add(verb_atom(v, e2))
                        groups.append(frozenset(adm))
                allowed = set().union(*groups) if groups else set()
                allowed = sorted(allowed)
                if len(allowed) > 12 or len(models) * (2 ** len(allowed)) > 400000:
                    return None          # too many candidates for the enumeration: undecided
                for k in range(len(allowed) + 1):
                    for pick in itertools.combinations(allowed, k):
                        P = set(pick)
                        if all(card_ok(s['card'], len(P & g)) for g in groups):
                            new.append(M | P)
                            if len(new) > limit:
                                return None
        models = new
        if len(models) > limit:
            return None
    out = []
    for M in models:
        ok = True
        for s in cons:
            for env in envs(sentence_vars(s), universe):
                if s['k'] == 'prohibited':
                    if all(clause_holds(c, env, M) for c in s['cs']):
                        ok = False
                        break
                else:
                    if guards_hold(s['main'], env, M) and all(clause_holds(c, env, M) for c in s['conds']) and \
                            not core_holds(s['main'], env, M):
                        ok = False
                        break
            if not ok:
                break
        if ok:
            out.append(M)
    return out


# ---------------------------------------------------------------------------
# C02: aggregate constraints
# ---------------------------------------------------------------------------
AGG_WORDS = {'count': 'number', 'sum': 'total', 'max': 'highest', 'min': 'lowest'}
# what each aggregate word MEANS (hand-written, like Props/C02.lean aggPhraseMeaning); the words themselves come from the live grammar
AGG_MEANING = {'the number': 'count', 'the total': 'sum', 'the highest': 'max', 'the biggest': 'max', 'the lowest': 'min', 'the smallest': 'min'}
_AGG_PHRASES = None


def agg_word(rng, fn):
    """a word of the live AGGREGATE_OPERATOR terminal that means `fn` (without the leading 'the ')"""
    global _AGG_PHRASES
    if _AGG_PHRASES is None:
        import json, os
        path = os.path.join(os.path.dirname(__file__), '..', 'lean', 'Cnl2aspModel', 'Generated', 'tables.json')
        try:
            live = list(json.load(open(path))['aggregate'].keys())
        except Exception:
            live = list(AGG_MEANING)
        _AGG_PHRASES = [p for p in live if p in AGG_MEANING]
    cands = [p for p in _AGG_PHRASES if AGG_MEANING[p] == fn] or ['the ' + AGG_WORDS[fn]]
    return rng.choice(cands)[4:]


INVENTED_LOOKALIKES = ['D', 'D1', 'D2', 'CNT', 'CNT1', 'X']
NEG_OP = {'eq': 'ne', 'ne': 'eq', 'lt': 'ge', 'ge': 'lt', 'gt': 'le', 'le': 'gt'}


def atom_j(pred, args):
    return {'p': pred, 'args': args}


def agg_part(rng, sp, ctx, allow_global=True):
    """one aggregate: returns (text, fn, tuple, cond, whenever texts, whenever clause ASTs, size hint) or None"""
    forms = []
    bin_verbs = [v for v in sp.verbs if v.obj]
    un_verbs = [v for v in sp.verbs if not v.obj]
    attr_concepts = [c for c in sp.concepts if c.attr]
    if bin_verbs:
        forms += ['active', 'active', 'passive', 'active-any']
    if un_verbs:
        forms += ['unary', 'unary']
    if attr_concepts:
        forms += ['attr', 'attr']
    forms += ['key']
    form = rng.choice(forms)
    d = ctx.fresh()
    if form in ('active', 'active-any'):
        v = rng.choice(bin_verbs)
        if form == 'active' and allow_global:
            y = ctx.label(v.obj.name)
            oterm = ctx.var(y)
            otxt = f'{v.obj.name} {y}'
            wh = [f'whenever there is {art(v.obj.name)} {v.obj.name} {y}']
            wast = [{'k': 'ent', 'neg': False, 'e': ent(v.obj, ctx.var(y), ctx=ctx)}]
        else:
            oterm = ctx.fresh()
            otxt = f'{art(v.obj.name)} {v.obj.name}'
            wh, wast = [], []
        oargs = [oterm] + ([ctx.fresh()] if v.obj.attr else [])
        cond = [{'k': 'pos', 'a': atom_j(v.pred, [d, oterm])}, {'k': 'pos', 'a': atom_j(v.obj.name, oargs)}]
        lab = ''
        txt = f'the number of {v.subj.name}{lab} that are {v.words} {otxt}'
        return txt, 'count', [d], cond, wh, wast, len(v.subj.tuples), form
    if form == 'passive':
        v = rng.choice(bin_verbs)
        x = ctx.label(v.subj.name)
        wh = [f'whenever there is {art(v.subj.name)} {v.subj.name} {x}']
        wast = [{'k': 'ent', 'neg': False, 'e': ent(v.subj, ctx.var(x), ctx=ctx)}]
        cond = [{'k': 'pos', 'a': atom_j(v.pred, [ctx.var(x), d])}]
        idw = ' id' if rng.random() < 0.4 else ''
        txt = f'the number of {v.obj.name}{idw} where {art(v.subj.name)} {v.subj.name} {x} is {v.words}'
        return txt, 'count', [d], cond, wh, wast, len(v.obj.tuples), form
    if form == 'unary':
        v = rng.choice(un_verbs)
        cond = [{'k': 'pos', 'a': atom_j(v.pred, [d])}]
        txt = f'the number of {v.subj.name} that are {v.words}'
        return txt, 'count', [d], cond, [], [], len(v.subj.tuples), form
    if form == 'attr':
        c = rng.choice(attr_concepts)
        fn = rng.choice(['sum', 'max', 'min'])
        word = agg_word(rng, fn)
        hosts = [h for h in sp.concepts if h is not c and h.kind == 'num' and not h.attr]
        if hosts and allow_global and rng.random() < 0.5:
            h = rng.choice(hosts)
            x = ctx.label(h.name)
            cond = [{'k': 'pos', 'a': atom_j(c.name, [ctx.var(x), d])}]
            txt = f'the {word} {c.attr} of {art(c.name)} {c.name} with id {x}'
            return (txt, fn, [d], cond, [f'whenever there is {art(h.name)} {h.name} {x}'],
                    [{'k': 'ent', 'neg': False, 'e': ent(h, ctx.var(x), ctx=ctx)}], 6, 'attr-host')
        cond = [{'k': 'pos', 'a': atom_j(c.name, [ctx.fresh(), d])}]
        txt = f'the {word} {c.attr} of {art(c.name)} {c.name}'
        return txt, fn, [d], cond, [], [], 6, form
    # key
    nums = [c for c in sp.concepts if c.kind == 'num']
    if not nums:
        return None
    c = rng.choice(nums)
    fn = rng.choice(['max', 'min', 'sum'])
    cond = [{'k': 'pos', 'a': atom_j(c.name, [d] + ([ctx.fresh()] if c.attr else []))}]
    txt = f'the {agg_word(rng, fn)} id of {art(c.name)} {c.name}'
    return txt, fn, [d], cond, [], [], 6, form


def agg_sentence(rng, sp):
    ctx = Ctx(rng, sp.pref)
    lookalike = rng.random() < 0.3
    if lookalike:
        # the author's labels are spelled like the names the compiler invents for counted terms and results
        ctx.pool = list(INVENTED_LOOKALIKES)
        rng.shuffle(ctx.pool)
        ctx.pref = {}
    pol = rng.choice(['prohibited', 'required'])
    part = agg_part(rng, sp, ctx)
    if part is None:
        return None
    txt, fn, tup, cond, wh, wast, size, form1 = part
    if rng.random() < (0.7 if lookalike else 0.25) and ctx.pool:
        # one more whenever clause (possibly over the same concept), and a comparison between two labels
        c = rng.choice(sp.concepts)
        z = ctx.label(None if lookalike else c.name)
        wh = wh + [f'whenever there is {art(c.name)} {c.name} {z}']
        wast = wast + [{'k': 'ent', 'neg': False, 'e': ent(c, ctx.var(z), ctx=ctx)}]
        others = [(l, i) for l, i in ctx.labels.items() if l != z]
        same = [(l, i) for l, i in others if any(w['k'] == 'ent' and w['e']['c'] == c.name and w['e']['a'][0] == {'v': i} for w in wast)]
        if same and rng.random() < 0.7:
            l, i = rng.choice(same)
            ph, op = rng.choice(CMP)
            wh = wh + [f'where {l} is {ph} {z}']
            wast = wast + [{'k': 'cmp', 'op': op, 'l': {'v': i}, 'r': ctx.var(z)}]
    r = rng.random()
    if r < 0.22 and fn == 'count':
        # aggregate against aggregate
        p2 = agg_part(rng, sp, ctx, allow_global=rng.random() < 0.5)
        if p2 is None or p2[1] != 'count':
            return None
        ph, op = rng.choice(CMP)
        r1, r2 = ctx.fresh(), ctx.fresh()
        a1 = {'fn': fn, 'tuple': tup, 'cond': cond, 'op': 'eq', 'bound': r1}
        a2 = {'fn': p2[1], 'tuple': p2[2], 'cond': p2[3], 'op': 'eq', 'bound': r2}
        # the subject of a passive aggregate is in the body whether or not a whenever clause repeats it
        wh2 = p2[4] if rng.random() < 0.5 else []
        if wh2 or p2[7] == 'passive':
            wast = wast + p2[5]
        t = f'It is {pol} that {txt} is {ph} {p2[0]}' + ''.join(', ' + w for w in wh + wh2) + '.'
        cmp = {'k': 'cmp', 'op': op, 'l': r1, 'r': r2}
        if pol == 'prohibited':
            ast = {'k': 'aggProhibited', 'aggs': [a1, a2], 'cmps': [cmp], 'conds': wast}
        else:
            ast = {'k': 'aggRequired2', 'aggs': [a1, a2], 'cmp': cmp, 'conds': wast}
        return Sentence(t, ast, 'agg-vs-agg')
    if r < 0.36:
        lo = rng.randrange(0, size + 1)
        hi = rng.randrange(lo, size + 2)
        t = f'It is {pol} that {txt} is between {lo} and {hi}' + ''.join(', ' + w for w in wh) + '.'
        a1 = {'fn': fn, 'tuple': tup, 'cond': cond, 'op': 'ge', 'bound': val(lo)}
        a2 = {'fn': fn, 'tuple': tup, 'cond': cond, 'op': 'le', 'bound': val(hi)}
        if pol == 'prohibited':
            return Sentence(t, {'k': 'aggProhibited', 'aggs': [a1, a2], 'cmps': [], 'conds': wast}, 'agg-between')
        # required … between: the direct reading is a conjunction; cnl2asp prints `lo > agg > hi` (finding F1)
        s = Sentence(t, {'k': 'aggRequiredBetween', 'agg': {'fn': fn, 'tuple': tup, 'cond': cond}, 'lo': lo, 'hi': hi, 'conds': wast},
                     'agg-between-required')
        return s
    ph, op = rng.choice(CMP)
    n = rng.randrange(0, size + 2)
    t = f'It is {pol} that {txt} is {ph} {n}' + ''.join(', ' + w for w in wh) + '.'
    a = {'fn': fn, 'tuple': tup, 'cond': cond, 'op': op, 'bound': val(n)}
    if pol == 'prohibited':
        return Sentence(t, {'k': 'aggProhibited', 'aggs': [a], 'cmps': [], 'conds': wast}, 'agg')
    return Sentence(t, {'k': 'aggRequired', 'agg': a, 'conds': wast}, 'agg')


def lit_vars_j(l):
    out = []
    ts = l['a']['args'] if l['k'] in ('pos', 'neg') else [l['l'], l['r']]
    for t in ts:
        if 'v' in t:
            out.append(t['v'])
    return out


def lit_holds_j(l, env, M):
    if l['k'] == 'cmp':
        return cmp_eval(l['op'], term_val(l['l'], env), term_val(l['r'], env))
    at = (l['a']['p'],) + tuple(term_val(t, env) for t in l['a']['args'])
    return (at in M) != (l['k'] == 'neg')


def agg_value(a, env, M, universe):
    """(function, value) of the aggregate under the outer assignment `env` (variables not in env are local)"""
    local = sorted({v for l in a['cond'] for v in lit_vars_j(l)} | {t['v'] for t in a['tuple'] if 'v' in t})
    local = [v for v in local if v not in env]
    tuples = set()
    for loc in envs(local, universe):
        e2 = dict(env)
        e2.update(loc)
        if all(lit_holds_j(l, e2, M) for l in a['cond']):
            tuples.add(tuple(term_val(t, e2) for t in a['tuple']))
    ws = [t[0] if isinstance(t[0], int) else 0 for t in tuples]
    fn = a['fn']
    if fn == 'count':
        return len(tuples)
    if fn == 'sum':
        return sum(ws)
    if not ws:
        return None
    return max(ws) if fn == 'max' else min(ws)


def agg_cmp(fn, op, v, b):
    if v is None:
        if fn == 'min':
            return op in ('gt', 'ge', 'ne')
        return op in ('lt', 'le', 'ne')
    return cmp_eval(op, v, b)


def agg_holds(a, env, M, universe):
    """truth of `agg op bound`; an unbound variable bound with op '=' is assigned (returns extended env or None)"""
    v = agg_value(a, env, M, universe)
    b = a['bound']
    if 'v' in b and b['v'] not in env:
        if a['op'] != 'eq' or v is None:
            raise ValueError('unbound aggregate bound')
        e2 = dict(env)
        e2[b['v']] = v
        return e2
    bv = term_val(b, env)
    if not isinstance(bv, int):
        return None
    return env if agg_cmp(a['fn'], a['op'], v, bv) else None


def agg_sentence_ok(s, M, universe):
    """the direct reading of an aggregate sentence on M"""
    outer = sorted({v for c in s['conds'] for v in clause_vars(c)})
    for env in envs(outer, universe):
        if not all(clause_holds(c, env, M) for c in s['conds']):
            continue
        if s['k'] == 'aggProhibited':
            e = env
            for a in s['aggs']:
                e = agg_holds(a, e, M, universe)
                if e is None:
                    break
            if e is not None and all(lit_holds_j(l, e, M) for l in s['cmps']):
                return False
        elif s['k'] == 'aggRequired':
            if agg_holds(s['agg'], env, M, universe) is None:
                return False
        elif s['k'] == 'aggRequired2':
            e = env
            for a in s['aggs']:
                e = agg_holds(a, e, M, universe)
                if e is None:
                    break
            if e is not None and not lit_holds_j(s['cmp'], e, M):
                return False
        elif s['k'] == 'aggRequiredBetween':
            v = agg_value(dict(s['agg'], op='eq', bound=val(0)), env, M, universe)
            a = s['agg']
            if not (agg_cmp(a['fn'], 'ge', v, s['lo']) and agg_cmp(a['fn'], 'le', v, s['hi'])):
                return False
    return True


def ref_models_agg(spec_ast, order, limit=20000):
    base = [s for s in spec_ast if not s['k'].startswith('agg')]
    aggs = [s for s in spec_ast if s['k'].startswith('agg')]
    ms = ref_models(base, order, limit)
    if ms is None:
        return None
    universe = set()
    for s in spec_ast:
        if s['k'] == 'facts':
            for t in s['tuples']:
                universe.update(t)
    universe = sorted(universe, key=lambda v: (isinstance(v, str), v))
    return [M for M in ms if all(agg_sentence_ok(s, M, universe) for s in aggs)]


# ---------------------------------------------------------------------------
# C04: preferences
# ---------------------------------------------------------------------------
DIR_MEANING = {'is minimized': +1, 'is maximized': -1, 'as little as possible': +1, 'as much as possible': -1}
PRIO_WORDS = {'low': 1, 'medium': 2, 'high': 3}


def prio_phrase(rng, level):
    """text and AST of a priority phrase that MEANS `level`"""
    names = [w for w, l in PRIO_WORDS.items() if l == level]
    if names and rng.random() < 0.6:
        return f'with {names[0]} priority', {'k': 'named', 'w': names[0]}
    return f'with priority {level}', {'k': 'number', 'n': level}


def pref_sentence(rng, sp, level):
    ctx = Ctx(rng, sp.pref)
    if rng.random() < 0.3:
        ctx.pool = ['X1', 'Y2', 'B1', 'I2', 'K9'] + list(LABELS[:3])     # labels with digits are labels too
        rng.shuffle(ctx.pool)
        ctx.pref = {}
    ptxt, past = prio_phrase(rng, level)
    comma = rng.random() < 0.7
    forms = ['agg', 'agg', 'situation', 'situation']
    un_num = [v for v in sp.verbs if not v.obj and v.subj.kind == 'num']
    if un_num or any(v.obj for v in sp.verbs):
        forms.append('var')
    form = rng.choice(forms)
    if form == 'agg':
        for _ in range(10):
            part = agg_part(rng, sp, ctx, allow_global=False)
            if part and not part[4]:
                break
        else:
            return None
        txt, fn, tup, cond, wh, wast, size, f1 = part
        phrase = rng.choice(['is minimized', 'is maximized'])
        r = ctx.fresh()
        t = f'It is preferred{"," if comma else ""} {ptxt}{"," if comma else ""} that {txt} {phrase}.'
        return Sentence(t, {'k': 'aggOpt', 'phrase': phrase, 'prio': past, 'fn': fn, 'tuple': tup, 'cond': cond, 'r': r['v']}, 'pref-agg')
    if form == 'situation':
        if not sp.verbs:
            return None
        v = rng.choice(sp.verbs)
        phrase = rng.choice(['as little as possible', 'as little as possible', 'as much as possible'])
        x = ctx.label(v.subj.name)
        se = ent(v.subj, ctx.var(x), ctx=ctx)
        params = [ctx.var(x)]
        neg = (v.obj is None) and rng.random() < 0.3
        txt = f'{art(v.subj.name)} {v.subj.name} with id {x} is {"not " if neg else ""}{v.words}'
        oe = None
        if v.obj:
            y = ctx.label(v.obj.name)
            oe = ent(v.obj, ctx.var(y), ctx=ctx)
            params.append(ctx.var(y))
            txt += f' {art(v.obj.name)} {v.obj.name} with id {y}'
        cs = [{'k': 'verb', 'v': verbuse(v, neg, se, oe)}]
        tail = ''
        if neg:
            tail = f', whenever there is {art(v.subj.name)} {v.subj.name} with id {x}'
            cs.append({'k': 'ent', 'neg': False, 'e': ent(v.subj, ctx.var(x), ctx=ctx)})
        if rng.random() < 0.35:
            # the direction written after the situation: `that <situation> is maximized[, whenever …]`
            phrase = rng.choice(['is minimized', 'is maximized'])
            t = f'It is preferred{"," if comma else ""} {ptxt}{"," if comma else ""} that {txt} {phrase}{tail}.'
            return Sentence(t, {'k': 'situation', 'phrase': phrase, 'prio': past, 'cs': cs, 'params': params}, 'pref-situation-suffix')
        t = f'It is preferred {phrase}{"," if comma else ""} {ptxt}{"," if comma else ""} that {txt}{tail}.'
        return Sentence(t, {'k': 'situation', 'phrase': phrase, 'prio': past, 'cs': cs, 'params': params}, 'pref-situation')
    # variable
    phrase = rng.choice(['is minimized', 'is maximized'])
    cands = [v for v in sp.verbs if (not v.obj and v.subj.kind == 'num') or (v.obj and (v.subj.kind == 'num' or v.obj.kind == 'num' or v.obj.attr))]
    if not cands:
        return None
    v = rng.choice(cands)
    x = ctx.label(v.subj.name)
    if not v.obj:
        cs = [{'k': 'ent', 'neg': False, 'e': {'c': v.pred, 'a': [ctx.var(x)], 'k': 1}}]
        t = (f'It is preferred{"," if comma else ""} {ptxt}{"," if comma else ""} that whenever there is {art(v.pred)} {v.pred} with '
             f'{v.subj.name} id {x}, {x} {phrase}.')
        return Sentence(t, {'k': 'varOpt', 'phrase': phrase, 'prio': past, 'v': ctx.var(x), 'cs': cs, 'params': [ctx.var(x)]}, 'pref-var')
    y = ctx.label(v.obj.name)
    cs = [{'k': 'ent', 'neg': False, 'e': {'c': v.pred, 'a': [ctx.var(x), ctx.var(y)], 'k': 2}}]
    whs = f'whenever there is {art(v.pred)} {v.pred} with {v.subj.name} id {x}, with {v.obj.name} id {y}'
    params = [ctx.var(x), ctx.var(y)]
    if v.obj.attr:
        k = ctx.label()
        cs.append({'k': 'ent', 'neg': False, 'e': ent(v.obj, ctx.var(y), ctx.var(k))})
        whs += f', whenever there is {art(v.obj.name)} {v.obj.name} with id {y}, and with {v.obj.attr} {k}'
        params.append(ctx.var(k))
        target, tt = k, ctx.var(k)
    elif v.subj.kind == 'num':
        target, tt = x, ctx.var(x)
    else:
        target, tt = y, ctx.var(y)
    t = f'It is preferred{"," if comma else ""} {ptxt}{"," if comma else ""} that {whs}, {target} {phrase}.'
    if rng.random() < 0.35 and v.subj.tuples:
        # one preference per listed value (`where X is one of a, b`): every copy keeps quantity, direction and priority
        us = [u[0] for u in rng.sample(v.subj.tuples, min(len(v.subj.tuples), 2))]
        t = t[:-1] + f', where {x} is one of {", ".join(str(u) for u in us)}.'
        asts = [{'k': 'varOpt', 'phrase': phrase, 'prio': past, 'v': tt, 'params': params,
                 'cs': cs + [{'k': 'cmp', 'op': 'eq', 'l': ctx.var(x), 'r': val(u)}]} for u in us]
        return Sentence(t, asts, 'pref-var-enum')
    return Sentence(t, {'k': 'varOpt', 'phrase': phrase, 'prio': past, 'v': tt, 'cs': cs, 'params': params}, 'pref-var')


def pref_level(p):
    pr = p['prio']
    return PRIO_WORDS[pr['w']] if pr['k'] == 'named' else pr['n'] if pr['k'] == 'number' else 1


def pref_quantity(p, M, universe):
    """the signed quantity the sentence asks to make small (the direct reading)"""
    sign = DIR_MEANING[p['phrase']]
    if p['k'] == 'aggOpt':
        v = agg_value({'fn': p['fn'], 'tuple': p['tuple'], 'cond': p['cond']}, {}, M, universe)
        if v is None:
            raise ValueError('empty max / min')
        return sign * v
    vs = sorted({x for c in p['cs'] for x in clause_vars(c)})
    tuples = set()
    for env in envs(vs, universe):
        if all(clause_holds(c, env, M) for c in p['cs']):
            tup = tuple(term_val(t, env) for t in p['params'])
            if p['k'] == 'situation':
                tuples.add((1, tup))
            else:
                w = term_val(p['v'], env)
                if not isinstance(w, int):
                    raise ValueError('non-numeric weight')
                tuples.add((w, tup))
    return sign * sum(w for w, _ in tuples)


def ref_optimal(spec_ast, prefs, order, limit=20000):
    ms = ref_models(spec_ast, order, limit)
    if ms is None:
        return None
    universe = set()
    for s in spec_ast:
        if s['k'] == 'facts':
            for t in s['tuples']:
                universe.update(t)
    universe = sorted(universe, key=lambda v: (isinstance(v, str), v))
    levels = sorted({pref_level(p) for p in prefs}, reverse=True)
    scored = []
    for M in ms:
        vec = tuple(sum(pref_quantity(p, M, universe) for p in prefs if pref_level(p) == l) for l in levels)
        scored.append((vec, M))
    if not scored:
        return []
    best = min(v for v, _ in scored)
    return [M for v, M in scored if v == best]
