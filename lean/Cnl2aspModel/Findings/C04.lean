/-
Finding F3 (C04): "as much as possible" is given the direction MINIMIZATION by the live callbacks
(parser.py optimization_statement compares a list with an enum member, so the maximisation branch is never taken).
-/
import Cnl2aspModel.Cnl.Pref

namespace Cnl2aspModel.Core
open Generated (PrefType)

theorem C04_as_much_as_possible_fails :
    dirOf "as much as possible" = .MINIMIZATION ∧ dirMeaning "as much as possible" = some .MAXIMIZATION := by decide

end Cnl2aspModel.Core
