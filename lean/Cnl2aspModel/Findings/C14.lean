/-
Kernel-checked negation witness for the known finding F20 of C14:
when the attributes a concept inherits from another concept are *not contiguous* in its signature
(`A transfer is identified by a room, by a day, and by a room …`), function-term mode groups them
into one term, so flattening reorders the arguments.  (Grouping all attributes of one origin is the
tool's design — `Symbol.get_arity(print_with_functions=True)` counts groups as a set.)
-/
import Cnl2aspModel.Asp.PrintAtomLemmas

namespace Cnl2aspModel.PrintAtom

def f20atom : Atom :=
  ⟨"t", [⟨"id", "A", ["room"]⟩, ⟨"id", "B", ["day"]⟩, ⟨"id", "C", ["room"]⟩], false, false, false, false, false⟩

theorem C14_flatten_fails : ¬ (∀ a : Atom, flattenFn (· == ·) a = printFlat a) := by
  intro h
  have := h f20atom
  revert this
  decide

end Cnl2aspModel.PrintAtom
