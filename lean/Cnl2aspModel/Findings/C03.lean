/-
Kernel-checked negation witnesses for the known findings of C03.
F1: `It is required that X is between lo and hi` is compiled to `:- lo > X, X > hi`, the
literal-wise negation of a conjunction; it never fires when lo ≤ hi, so values outside the
interval are accepted.  If this file stops building because /repo was repaired, the finding no
longer reproduces (reported as information, never as a violation).
-/
import Cnl2aspModel.Compiler.Cmp

namespace Cnl2aspModel

/-- The full statement of `C03_between_required` is false of the model (and of the code):
x = 5, lo = 2, hi = 3 is outside the interval, yet the emitted constraint does not fire. -/
theorem C03_between_required_fails :
    ¬ (∀ (x lo hi : Term) (ρ : String → Int), ∃ lr,
        compileCmp .required (.between x lo hi) = some lr ∧
        (fires ρ lr ↔ ¬ (lo.eval ρ ≤ x.eval ρ ∧ x.eval ρ ≤ hi.eval ρ))) := by
  intro h
  obtain ⟨lr, hc, hiff⟩ := h (.num 5) (.num 2) (.num 3) (fun _ => 0)
  have hlr : lr = [⟨.num 2, ">", .num 5⟩, ⟨.num 5, ">", .num 3⟩] := by
    have : compileCmp .required (.between (.num 5) (.num 2) (.num 3)) =
        some [⟨.num 2, ">", .num 5⟩, ⟨.num 5, ">", .num 3⟩] := rfl
    rw [this] at hc
    exact (Option.some.inj hc).symm
  subst hlr
  have hf : fires (fun _ => 0) [⟨.num 2, ">", .num 5⟩, ⟨.num 5, ">", .num 3⟩] :=
    hiff.mpr (by simp [Term.eval])
  have := hf ⟨.num 2, ">", .num 5⟩ (by simp)
  simp [CmpLit.holds, symRel, Rel.holds, Term.eval] at this

end Cnl2aspModel
