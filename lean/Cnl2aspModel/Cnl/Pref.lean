/-
Preference sentences (C04): the weak constraint printed for each, over the regenerated direction / priority / sign tables.

Transcribes parser.py cnl_it_is_preferred / optimization_statement / optimization_operator / PRIORITY_LEVEL / priority_level_number,
preference_with_aggregate_clause / preference_with_variable_minimization, proposition_builder.py PreferencePropositionBuilder
(add_weight / add_discriminant), asp_converter.py convert_preference_proposition, asp_rule.py ASPWeakConstraint.__str__.
-/
import Cnl2aspModel.Cnl.Core
import Cnl2aspModel.Asp.Opt

namespace Cnl2aspModel.Core
open Asp
open Generated (PrefType)

/-- the optimisation direction the live callbacks give a phrase -/
def dirOf (phrase : String) : PrefType := (Generated.directionPhrases.lookup phrase).getD Generated.directionDefault

/-- what the phrase asks for (the specification side; hand-written on purpose) -/
def dirMeaning : String → Option PrefType
  | "is minimized" => some .MINIMIZATION
  | "is maximized" => some .MAXIMIZATION
  | "as little as possible" => some .MINIMIZATION
  | "as much as possible" => some .MAXIMIZATION
  | _ => none

inductive Priority where
  | named (w : String)        -- low / medium / high
  | number (n : Nat)          -- priority N
  | unstated
  deriving Repr

def Priority.level : Priority → Nat
  | .named w => (Generated.priorityLevelPhrases.lookup w).getD Generated.priorityDefault
  | .number n => n
  | .unstated => Generated.priorityDefault

inductive PrefSentence where
  /-- It is preferred, with <priority>, that <aggregate> <is minimized | is maximized>.  (`r` is the result variable) -/
  | aggOpt (phrase : String) (p : Priority) (fn : AggFn) (tuple : List Term) (cond : List SLit) (r : Nat)
  /-- It is preferred <as little | as much as possible>, with <priority>, that <clauses>.  (`params`: the parameters written with `with`) -/
  | situation (phrase : String) (p : Priority) (cs : List Clause) (params : List Term)
  /-- It is preferred, with <priority>, that whenever …, V <is minimized | is maximized>. -/
  | varOpt (phrase : String) (p : Priority) (v : Term) (cs : List Clause) (params : List Term)
  deriving Repr

def PrefSentence.weak : PrefSentence → Weak
  | .aggOpt ph p fn t c r =>
      { body := [], aggs := [⟨fn, t, c, .eq, .var r⟩], neg := Generated.prefWeightNegated (dirOf ph), weight := .var r, level := p.level, terms := [] }
  | .situation ph p cs ps =>
      { body := litsOf cs, neg := Generated.prefWeightNegated (dirOf ph), weight := .val (.num 1), level := p.level, terms := ps }
  | .varOpt ph p v cs ps =>
      { body := litsOf cs, neg := Generated.prefWeightNegated (dirOf ph), weight := v, level := p.level, terms := ps }

def compilePrefs (ps : List PrefSentence) : List Weak := ps.map PrefSentence.weak

end Cnl2aspModel.Core
