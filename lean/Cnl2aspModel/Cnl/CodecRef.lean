/-
Driver op `c01.ref`: evaluate the executable twin of the direct reading on given finite interpretations.
-/
import Cnl2aspModel.Cnl.Codec
import Cnl2aspModel.Cnl.RefExecSound

namespace Cnl2aspModel.Core.Codec
open Lean Asp Core

def gatomOf (j : Json) : Option GAtom := do
  let args ← (getArr j "args").mapM valOf
  pure ⟨(getStr j "p").toList, args⟩

/-- `c01.ref`: {spec, universe: [value], models: [[{p, args}]]} -> {ok: [bool]} -/
def refOp (j : Json) : Json :=
  match specOf j, (getArr j "universe").mapM valOf with
  | some s, some U =>
    let answers := (getArr j "models").map (fun m =>
      match m with
      | .arr a => match a.toList.mapM gatomOf with
        | some M => Json.bool (Exec.refCheckB s U M)
        | none => Json.null
      | _ => Json.null)
    let covered := (getArr j "models").all (fun m =>
      match m with
      | .arr a => match a.toList.mapM gatomOf with
        | some M => Exec.coversB U M
        | none => false
      | _ => false)
    -- `exact`: the hypotheses of Exec.refCheckB_iff hold (every sentence range-restricted and aggregate-free, values covered)
    Json.mkObj [("ok", Json.arr answers.toArray), ("exact", Json.bool (s.all Exec.Sentence.safeB && covered))]
  | _, _ => Json.mkObj [("err", "bad-spec")]

/-- `c01.safe`: is every sentence of the specification range-restricted and aggregate-free (hypothesis of C01_decide and
C06_core_safe)?  Also: which sentences are not. -/
def safeOp (j : Json) : Json :=
  match specOf j with
  | some s => Json.mkObj [("safe", Json.bool (s.all Exec.Sentence.safeB)),
                          ("unsafe_sentences", Json.arr ((s.zipIdx.filter (fun p => !Exec.Sentence.safeB p.1)).map
                              (fun p => Json.num (JsonNumber.fromNat p.2))).toArray)]
  | none => Json.mkObj [("err", "bad-spec")]

end Cnl2aspModel.Core.Codec
