/-
Per-sentence lemmas: the rules printed for a sentence demand / justify exactly what the sentence's direct reading does.
-/
import Cnl2aspModel.Cnl.Core
import Cnl2aspModel.Asp.SemLemmas

namespace Cnl2aspModel.Core
open Asp
open Generated (QOp)

theorem plain_bodyHolds (M : Interp) (e : Env) (h : Head) (b : List SLit) :
    ({ head := h, body := b } : Rule).bodyHolds M e ↔ ∀ l ∈ b, l.holds M e := by
  simp [Rule.bodyHolds]

theorem Clause.lits_holds (M : Interp) (e : Env) (c : Clause) : (∀ l ∈ c.lits, l.holds M e) ↔ c.holds M e := by
  unfold Clause.lits Clause.holds
  constructor
  · intro h
    exact ⟨fun l hl => h l (List.mem_append_left _ hl), h _ (List.mem_append_right _ (List.mem_singleton.mpr rfl))⟩
  · rintro ⟨hg, hc⟩ l hl
    rcases List.mem_append.mp hl with h | h
    · exact hg l h
    · rw [List.mem_singleton.mp h]; exact hc

theorem litsOf_holds (M : Interp) (e : Env) (cs : List Clause) :
    (∀ l ∈ litsOf cs, l.holds M e) ↔ ∀ c ∈ cs, c.holds M e := by
  unfold litsOf
  constructor
  · intro h c hc
    rw [← Clause.lits_holds]
    intro l hl
    exact h l (List.mem_flatMap.mpr ⟨c, hc, hl⟩)
  · intro h l hl
    obtain ⟨c, hc, hl'⟩ := List.mem_flatMap.mp hl
    exact (Clause.lits_holds M e c).mpr (h c hc) l hl'

theorem posObjs_holds (M : Interp) (e : Env) (objs : List Ent) :
    (∀ l ∈ objs.map (fun o => SLit.pos o.atom), l.holds M e) ↔ ∀ o ∈ objs, M (o.atom.inst e) := by
  constructor
  · intro h o ho
    exact h _ (List.mem_map.mpr ⟨o, ho, rfl⟩)
  · intro h l hl
    obtain ⟨o, ho, rfl⟩ := List.mem_map.mp hl
    exact h o ho

theorem choiceBody_holds (M : Interp) (e : Env) (conds : List Clause) (v : VerbUse) :
    (∀ l ∈ choiceBody conds v, l.holds M e) ↔ M (v.subj.atom.inst e) ∧ ∀ c ∈ conds, c.holds M e := by
  unfold choiceBody
  rw [List.forall_mem_cons, litsOf_holds]
  rfl

theorem derivedBody_holds (M : Interp) (e : Env) (conds : List Clause) (v : VerbUse) :
    (∀ l ∈ derivedBody v conds, l.holds M e) ↔
      M (v.subj.atom.inst e) ∧ (∀ o ∈ v.objs, M (o.atom.inst e)) ∧ ∀ c ∈ conds, c.holds M e := by
  unfold derivedBody
  constructor
  · intro h
    refine ⟨h _ (List.mem_append_left _ (List.mem_cons_self ..)), ?_, ?_⟩
    · rw [← posObjs_holds]
      intro l hl
      exact h l (List.mem_append_left _ (List.mem_cons_of_mem _ hl))
    · rw [← litsOf_holds]
      intro l hl
      exact h l (List.mem_append_right _ hl)
  · rintro ⟨hs, ho, hc⟩ l hl
    rcases List.mem_append.mp hl with h | h
    · rcases List.mem_cons.mp h with h | h
      · rw [h]; exact hs
      · exact (posObjs_holds M e v.objs).mpr ho l h
    · exact (litsOf_holds M e conds).mpr hc l h

/-- the bounds printed for a cardinality phrase mean what the phrase says (over the regenerated table) -/
theorem Card.bounds_meaning (card : Card) (k : Nat) :
    withinBounds card.bounds.1 card.bounds.2 k ↔ card.meaning k := by
  cases card with
  | any => simp [Card.bounds, withinBounds, Card.meaning]
  | single q n =>
    cases q <;> simp [Card.bounds, withinBounds, Card.meaning, Generated.quantityBounds] <;> omega
  | between n m => simp [Card.bounds, withinBounds, Card.meaning, Generated.rangeBoundsInOrder]

theorem choice_instAt (M : Interp) (conds : List Clause) (v : VerbUse) (e : Env) (g : GAtom) :
    (choiceElem v).instAt M (outerLabels conds v) e g ↔ M g ∧ admissiblePick M conds v e g := by
  unfold Elem.instAt admissiblePick choiceElem
  constructor
  · rintro ⟨hg, e', hag, hge, hc⟩
    exact ⟨hg, e', hag, hge, (posObjs_holds M e' v.objs).mp hc⟩
  · rintro ⟨hg, e', hag, hge, hc⟩
    exact ⟨hg, e', hag, hge, (posObjs_holds M e' v.objs).mpr hc⟩

theorem val_inst (p : List Char) (t : List Val) (e : Env) : (⟨p, t.map Term.val⟩ : Atom).inst e = ⟨p, t⟩ := by
  unfold Atom.inst
  congr 1
  show List.map (Term.eval e) (t.map Term.val) = t
  induction t with
  | nil => rfl
  | cons x xs ih => rw [List.map_cons, List.map_cons, ih]; rfl

theorem agg_bodyHolds (M : Interp) (e : Env) (h : Head) (b : List SLit) (aggs : List Agg) :
    ({ head := h, body := b, aggs := aggs } : Rule).bodyHolds M e ↔
      (∀ l ∈ b, l.holds M e) ∧ ∀ a ∈ aggs, a.holds M (b.flatMap SLit.vars) e := Iff.rfl

theorem aggCmp_negate (fn : AggFn) (op : CmpOp) (v : Option Int) (b : Int) :
    aggCmp fn op.negate v b = !aggCmp fn op v b := by
  cases v with
  | some x => simp only [aggCmp]; exact CmpOp.eval_negate op _ _
  | none => cases fn <;> cases op <;> rfl

theorem SLit.vars_negate (l : SLit) : l.negate.vars = l.vars := by
  cases l <;> rfl

theorem Agg.negOp_holds_iff (M : Interp) (gl : List Nat) (e : Env) (a : Agg) :
    ¬ ({ a with op := a.op.negate } : Agg).holds M gl e ↔ a.always M gl e := by
  unfold Agg.holds Agg.always Agg.tupleAt
  constructor
  · intro h L hnd hL b hb
    apply Classical.byContradiction
    intro hc
    apply h
    refine ⟨L, hnd, hL, b, hb, ?_⟩
    show aggCmp a.fn a.op.negate (a.fn.value L) b = true
    rw [aggCmp_negate]
    simpa using hc
  · rintro h ⟨L, hnd, hL, b, hb, hc⟩
    have h1 := h L hnd hL b hb
    have h2 : aggCmp a.fn a.op.negate (a.fn.value L) b = true := hc
    rw [aggCmp_negate, h1] at h2
    exact Bool.noConfusion h2

/-- the rules of a sentence are satisfied exactly when the sentence is respected -/
theorem rules_sat (M : Interp) (σ : Sentence) : (∀ r ∈ σ.rules, RuleSat M r) ↔ σ.sat M := by
  cases σ with
  | facts p ts =>
    simp only [Sentence.rules, Sentence.sat, List.mem_map, forall_exists_index, and_imp, forall_apply_eq_imp_iff₂]
    constructor
    · intro h t ht
      have := h t ht
      simp only [RuleSat, plain_bodyHolds] at this
      have := this (fun _ => default) (by simp)
      rwa [val_inst] at this
    · intro h t ht
      simp only [RuleSat, plain_bodyHolds]
      intro e _
      rw [val_inst]; exact h t ht
  | choice conds v card =>
    simp only [Sentence.rules, Sentence.sat, List.mem_singleton, forall_eq, RuleSat, plain_bodyHolds, choiceBody_holds]
    constructor
    · intro h e hs hc
      obtain ⟨L, hnd, hL, hb⟩ := h e ⟨hs, hc⟩
      refine ⟨L, hnd, fun g => ?_, (Card.bounds_meaning card _).mp hb⟩
      rw [hL g]; exact choice_instAt M conds v e g
    · rintro h e ⟨hs, hc⟩
      obtain ⟨L, hnd, hL, hb⟩ := h e hs hc
      refine ⟨L, hnd, fun g => ?_, (Card.bounds_meaning card _).mpr hb⟩
      rw [hL g]; exact (choice_instAt M conds v e g).symm
  | derived v conds =>
    simp only [Sentence.rules, Sentence.sat, List.mem_singleton, forall_eq, RuleSat, plain_bodyHolds, derivedBody_holds]
    constructor
    · intro h e hs ho hc; exact h e ⟨hs, ho, hc⟩
    · rintro h e ⟨hs, ho, hc⟩; exact h e hs ho hc
  | prohibited cs =>
    simp only [Sentence.rules, Sentence.sat, List.mem_singleton, forall_eq, RuleSat, plain_bodyHolds, litsOf_holds]
  | required m conds =>
    simp only [Sentence.rules, Sentence.sat, List.mem_singleton, forall_eq, RuleSat, plain_bodyHolds]
    constructor
    · intro h e hg hc
      apply Classical.byContradiction
      intro hn
      apply h e
      intro l hl
      rcases List.mem_append.mp hl with hl | hl
      · unfold Clause.negLits at hl
        rcases List.mem_append.mp hl with hl | hl
        · exact hg l hl
        · rw [List.mem_singleton.mp hl, SLit.holds_negate]; exact hn
      · exact (litsOf_holds M e conds).mpr hc l hl
    · intro h e hb
      have hg : ∀ l ∈ m.guards, l.holds M e := fun l hl =>
        hb l (List.mem_append_left _ (List.mem_append_left _ hl))
      have hc : ∀ c ∈ conds, c.holds M e := (litsOf_holds M e conds).mp (fun l hl => hb l (List.mem_append_right _ hl))
      have hneg : m.core.negate.holds M e :=
        hb _ (List.mem_append_left _ (List.mem_append_right _ (List.mem_singleton.mpr rfl)))
      rw [SLit.holds_negate] at hneg
      exact hneg (h e hg hc)
  | aggProhibited aggs cmps conds =>
    simp only [Sentence.rules, Sentence.sat, List.mem_singleton, forall_eq, RuleSat, agg_bodyHolds]
    constructor
    · intro h e hc hm ha
      apply h e
      refine ⟨fun l hl => ?_, ha⟩
      rcases List.mem_append.mp hl with hl | hl
      · exact (litsOf_holds M e conds).mpr hc l hl
      · exact hm l hl
    · rintro h e ⟨hb, ha⟩
      exact h e ((litsOf_holds M e conds).mp (fun l hl => hb l (List.mem_append_left _ hl)))
        (fun l hl => hb l (List.mem_append_right _ hl)) ha
  | aggRequired a conds =>
    simp only [Sentence.rules, Sentence.sat, List.mem_singleton, forall_eq, RuleSat, agg_bodyHolds, litsOf_holds]
    constructor
    · intro h e hc
      rw [← Agg.negOp_holds_iff]
      intro hn
      exact h e ⟨hc, hn⟩
    · rintro h e ⟨hc, hn⟩
      exact (Agg.negOp_holds_iff M _ e a).mpr (h e hc) hn
  | aggRequired2 aggs c conds =>
    simp only [Sentence.rules, Sentence.sat, List.mem_singleton, forall_eq, RuleSat, agg_bodyHolds]
    have hv : (litsOf conds ++ [c.negate]).flatMap SLit.vars = (litsOf conds ++ [c]).flatMap SLit.vars := by
      simp [List.flatMap_append, SLit.vars_negate]
    rw [hv]
    constructor
    · intro h e hc ha
      apply Classical.byContradiction
      intro hn
      apply h e
      refine ⟨fun l hl => ?_, ha⟩
      rcases List.mem_append.mp hl with hl | hl
      · exact (litsOf_holds M e conds).mpr hc l hl
      · rw [List.mem_singleton.mp hl, SLit.holds_negate]; exact hn
    · rintro h e ⟨hb, ha⟩
      have hc := (litsOf_holds M e conds).mp (fun l hl => hb l (List.mem_append_left _ hl))
      have hneg : c.negate.holds M e := hb _ (List.mem_append_right _ (List.mem_singleton.mpr rfl))
      rw [SLit.holds_negate] at hneg
      exact hneg (h e hc ha)

/-- the rules of a sentence justify exactly what the sentence gives a reason for -/
theorem rules_just (M : Interp) (g : GAtom) (σ : Sentence) : (∃ r ∈ σ.rules, RuleJust M r g) ↔ σ.justifies M g := by
  cases σ with
  | facts p ts =>
    simp only [Sentence.rules, Sentence.justifies, List.mem_map]
    constructor
    · rintro ⟨r, ⟨t, ht, rfl⟩, hj⟩
      simp only [RuleJust] at hj
      obtain ⟨e, hge, _⟩ := hj
      rw [val_inst] at hge
      exact ⟨t, ht, hge⟩
    · rintro ⟨t, ht, rfl⟩
      refine ⟨_, ⟨t, ht, rfl⟩, ?_⟩
      simp only [RuleJust, plain_bodyHolds]
      exact ⟨fun _ => default, (val_inst p t _).symm, by simp⟩
  | choice conds v card =>
    simp only [Sentence.rules, Sentence.justifies, List.mem_singleton, exists_eq_left, RuleJust, plain_bodyHolds,
      choiceBody_holds]
    constructor
    · rintro ⟨e, e', hag, hge, ⟨hs, hc⟩, ho⟩
      exact ⟨e, hs, hc, e', hag, hge, (posObjs_holds M e' v.objs).mp ho⟩
    · rintro ⟨e, hs, hc, e', hag, hge, ho⟩
      exact ⟨e, e', hag, hge, ⟨hs, hc⟩, (posObjs_holds M e' v.objs).mpr ho⟩
  | derived v conds =>
    simp only [Sentence.rules, Sentence.justifies, List.mem_singleton, exists_eq_left, RuleJust, plain_bodyHolds,
      derivedBody_holds]
  | prohibited cs => simp [Sentence.rules, Sentence.justifies, RuleJust]
  | required m conds => simp [Sentence.rules, Sentence.justifies, RuleJust]
  | aggProhibited aggs cmps conds => simp [Sentence.rules, Sentence.justifies, RuleJust]
  | aggRequired a conds => simp [Sentence.rules, Sentence.justifies, RuleJust]
  | aggRequired2 aggs c conds => simp [Sentence.rules, Sentence.justifies, RuleJust]

/-- the direct reading of a specification is the supported-model reading of its compiled program -/
theorem supp_compile_iff (s : Spec) (M : Interp) : Supp (compile s) M ↔ RefModel s M := by
  rw [supp_iff]
  unfold compile
  constructor
  · rintro ⟨hs, hj⟩
    refine ⟨fun σ hσ => (rules_sat M σ).mp (fun r hr => hs r (List.mem_flatMap.mpr ⟨σ, hσ, hr⟩)), fun g hg => ?_⟩
    obtain ⟨r, hr, hrj⟩ := hj g hg
    obtain ⟨σ, hσ, hrσ⟩ := List.mem_flatMap.mp hr
    exact ⟨σ, hσ, (rules_just M g σ).mp ⟨r, hrσ, hrj⟩⟩
  · rintro ⟨hs, hc⟩
    refine ⟨fun r hr => ?_, fun g hg => ?_⟩
    · obtain ⟨σ, hσ, hrσ⟩ := List.mem_flatMap.mp hr
      exact (rules_sat M σ).mpr (hs σ hσ) r hrσ
    · obtain ⟨σ, hσ, hj⟩ := hc g hg
      obtain ⟨r, hrσ, hrj⟩ := (rules_just M g σ).mpr hj
      exact ⟨r, List.mem_flatMap.mpr ⟨σ, hσ, hrσ⟩, hrj⟩

end Cnl2aspModel.Core
