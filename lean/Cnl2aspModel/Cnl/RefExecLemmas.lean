/-
Towards `refCheckB = true ↔ RefModel`: infrastructure (dependence on variables, range restriction, finite assignments).
-/
import Cnl2aspModel.Cnl.RefExec
import Cnl2aspModel.Cnl.CoreLemmas

namespace Cnl2aspModel.Core.Exec
open Asp Core

theorem mem_dedup {α : Type} [DecidableEq α] {a : α} {l : List α} : a ∈ dedup l ↔ a ∈ l := by
  induction l with
  | nil => simp [dedup]
  | cons x xs ih =>
    simp only [dedup]
    split
    · rename_i h
      rw [ih, List.mem_cons]
      constructor
      · exact Or.inr
      · rintro (rfl | h')
        · exact ih.mp h
        · exact h'
    · rw [List.mem_cons, List.mem_cons, ih]

theorem nodup_dedup {α : Type} [DecidableEq α] (l : List α) : (dedup l).Nodup := by
  induction l with
  | nil => simp [dedup]
  | cons x xs ih =>
    simp only [dedup]
    split
    · exact ih
    · rename_i h
      exact List.nodup_cons.mpr ⟨h, ih⟩

theorem Term.eval_congr {e e' : Env} {t : Term} (h : ∀ i ∈ t.vars, e i = e' i) : t.eval e = t.eval e' := by
  cases t with
  | var i => exact h i (by simp [Term.vars])
  | val v => rfl

theorem args_congr {e e' : Env} {ts : List Term} (h : ∀ i ∈ ts.flatMap Term.vars, e i = e' i) :
    ts.map (Term.eval e) = ts.map (Term.eval e') := by
  apply List.map_congr_left
  intro t ht
  exact Term.eval_congr (fun i hi => h i (List.mem_flatMap.mpr ⟨t, ht, hi⟩))

theorem Atom.inst_congr {e e' : Env} {a : Atom} (h : ∀ i ∈ a.vars, e i = e' i) : a.inst e = a.inst e' := by
  unfold Atom.inst
  rw [args_congr h]

theorem SLit.holds_congr {M : Interp} {e e' : Env} {l : SLit} (h : ∀ i ∈ l.vars, e i = e' i) : l.holds M e ↔ l.holds M e' := by
  cases l with
  | pos a => simp only [SLit.holds]; rw [Atom.inst_congr h]
  | neg a => simp only [SLit.holds]; rw [Atom.inst_congr h]
  | cmp op l r =>
    simp only [SLit.holds]
    rw [Term.eval_congr (t := l) (fun i hi => h i (by simp [SLit.vars, hi])),
        Term.eval_congr (t := r) (fun i hi => h i (by simp [SLit.vars, hi]))]

def interp (M : List GAtom) : Interp := fun g => g ∈ M

theorem holdsB_iff (M : List GAtom) (e : Env) (l : SLit) : holdsB M e l = true ↔ l.holds (interp M) e := by
  cases l <;> simp [holdsB, SLit.holds, interp]

theorem allB_iff (M : List GAtom) (e : Env) (ls : List SLit) : ls.all (holdsB M e) = true ↔ ∀ l ∈ ls, l.holds (interp M) e := by
  simp [List.all_eq_true, holdsB_iff]

theorem clauseHoldsB_iff (M : List GAtom) (e : Env) (c : Clause) : clauseHoldsB M e c = true ↔ c.holds (interp M) e := by
  simp [clauseHoldsB, Clause.holds, allB_iff, holdsB_iff]

theorem mem_assignments {U : List Val} {vs : List Nat} {vals : List Val} :
    vals ∈ assignments U vs ↔ vals.length = vs.length ∧ ∀ v ∈ vals, v ∈ U := by
  induction vs generalizing vals with
  | nil => simp [assignments]; intro h; subst h; simp
  | cons x xs ih =>
    simp only [assignments, List.mem_flatMap, List.mem_map]
    constructor
    · rintro ⟨r, hr, u, hu, rfl⟩
      obtain ⟨hl, hm⟩ := ih.mp hr
      refine ⟨by simp [hl], ?_⟩
      intro v hv
      rcases List.mem_cons.mp hv with rfl | hv
      · exact hu
      · exact hm v hv
    · rintro ⟨hl, hm⟩
      cases vals with
      | nil => simp at hl
      | cons u r =>
        refine ⟨r, ih.mpr ⟨by simpa using hl, fun v hv => hm v (List.mem_cons_of_mem _ hv)⟩, u, hm u (List.mem_cons_self ..), rfl⟩

theorem envOf_map (vs : List Nat) (e : Env) : ∀ i ∈ vs, envOf vs (vs.map e) i = e i := by
  intro i hi
  unfold envOf
  induction vs with
  | nil => cases hi
  | cons x xs ih =>
    simp only [List.map_cons, List.zip_cons_cons, List.lookup_cons]
    by_cases hx : i = x
    · subst hx; simp
    · have : (i == x) = false := by simpa using hx
      rw [this]
      rcases List.mem_cons.mp hi with h | h
      · exact absurd h hx
      · exact ih h

/-- a statement about all environments that only looks at the variables `vs`, and that can only fail on environments whose
`vs`-values lie in `U`, is decided on the finite assignments -/
theorem forall_env_iff (U : List Val) (vs : List Nat) (P : Env → Prop)
    (hdep : ∀ e e', (∀ i ∈ vs, e i = e' i) → (P e ↔ P e'))
    (hrange : ∀ e, ¬ P e → ∀ i ∈ vs, e i ∈ U) :
    (∀ e, P e) ↔ ∀ vals ∈ assignments U vs, P (envOf vs vals) := by
  constructor
  · intro h vals _; exact h _
  · intro h e
    apply Classical.byContradiction
    intro hn
    have hm : vs.map e ∈ assignments U vs := mem_assignments.mpr ⟨by simp, by
      intro v hv
      obtain ⟨i, hi, rfl⟩ := List.mem_map.mp hv
      exact hrange e hn i hi⟩
    exact hn ((hdep _ _ (envOf_map vs e)).mp (h _ hm))

theorem exists_env_iff (U : List Val) (vs : List Nat) (Q : Env → Prop)
    (hdep : ∀ e e', (∀ i ∈ vs, e i = e' i) → (Q e ↔ Q e'))
    (hrange : ∀ e, Q e → ∀ i ∈ vs, e i ∈ U) :
    (∃ e, Q e) ↔ ∃ vals ∈ assignments U vs, Q (envOf vs vals) := by
  constructor
  · rintro ⟨e, he⟩
    have hm : vs.map e ∈ assignments U vs := mem_assignments.mpr ⟨by simp, by
      intro v hv
      obtain ⟨i, hi, rfl⟩ := List.mem_map.mp hv
      exact hrange e he i hi⟩
    exact ⟨_, hm, (hdep _ _ (envOf_map vs e)).mpr he⟩
  · rintro ⟨vals, _, h⟩; exact ⟨_, h⟩

/-- every value of an atom of `M` is in the universe -/
def Covers (U : List Val) (M : List GAtom) : Prop := ∀ g ∈ M, ∀ v ∈ g.args, v ∈ U

theorem pos_range {U : List Val} {M : List GAtom} (hU : Covers U M) {a : Atom} {e : Env} (h : a.inst e ∈ M) :
    ∀ i ∈ a.vars, e i ∈ U := by
  intro i hi
  obtain ⟨t, ht, hit⟩ := List.mem_flatMap.mp hi
  cases t with
  | val v => simp [Term.vars] at hit
  | var j =>
    have : i = j := by simpa [Term.vars] using hit
    subst this
    apply hU _ h
    show e i ∈ (a.args.map (Term.eval e))
    exact List.mem_map.mpr ⟨_, ht, rfl⟩

/-- every variable of the literals occurs in one of their positive atoms -/
def RangeRestricted (ls : List SLit) : Prop := ∀ i ∈ ls.flatMap SLit.vars, ∃ a, SLit.pos a ∈ ls ∧ i ∈ a.vars

theorem rr_range {U : List Val} {M : List GAtom} (hU : Covers U M) {ls : List SLit} (hrr : RangeRestricted ls) {e : Env}
    (h : ∀ l ∈ ls, l.holds (interp M) e) : ∀ i ∈ varsOf ls, e i ∈ U := by
  intro i hi
  obtain ⟨a, ha, hia⟩ := hrr i (mem_dedup.mp hi)
  exact pos_range hU (h _ ha) i hia

theorem holds_dep (M : Interp) (ls : List SLit) (e e' : Env) (h : ∀ i ∈ varsOf ls, e i = e' i) :
    (∀ l ∈ ls, l.holds M e) ↔ (∀ l ∈ ls, l.holds M e') := by
  have key : ∀ l ∈ ls, (l.holds M e ↔ l.holds M e') := fun l hl =>
    SLit.holds_congr (fun i hi => h i (mem_dedup.mpr (List.mem_flatMap.mpr ⟨l, hl, hi⟩)))
  constructor
  · intro h1 l hl; exact (key l hl).mp (h1 l hl)
  · intro h1 l hl; exact (key l hl).mpr (h1 l hl)

end Cnl2aspModel.Core.Exec
