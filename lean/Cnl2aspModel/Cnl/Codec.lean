/-
JSON codec for the core fragment (driver side of harness/props/c01.py, c02.py, c04.py).
-/
import Lean.Data.Json
import Cnl2aspModel.Cnl.Stratify
import Cnl2aspModel.Cnl.Pref

namespace Cnl2aspModel.Core.Codec
open Lean Asp Core
open Generated (QOp)

def getArr (j : Json) (k : String) : List Json :=
  match j.getObjVal? k with
  | .ok (Json.arr a) => a.toList
  | _ => []
def getStr (j : Json) (k : String) : String := (j.getObjValAs? String k).toOption.getD ""
def getNat (j : Json) (k : String) : Nat := (j.getObjValAs? Nat k).toOption.getD 0
def getBool (j : Json) (k : String) : Bool := (j.getObjValAs? Bool k).toOption.getD false
def getObj (j : Json) (k : String) : Json := (j.getObjVal? k).toOption.getD Json.null

def valOf (j : Json) : Option Val :=
  match j with
  | .num n => if n.exponent = 0 then some (.num n.mantissa) else none
  | .str s => some (.str s.toList)
  | _ => none

def termOf (j : Json) : Option Asp.Term :=
  match j.getObjVal? "v" with
  | .ok v => (v.getNat?.toOption).map Asp.Term.var
  | .error _ =>
    match j.getObjVal? "n" with
    | .ok n => (valOf n).map Asp.Term.val
    | .error _ =>
      match j.getObjVal? "s" with
      | .ok s => (valOf s).map Asp.Term.val
      | .error _ => none

def entOf (j : Json) : Option Ent := do
  let args ← (getArr j "a").mapM termOf
  pure ⟨(getStr j "c").toList, args, getNat j "k"⟩

def verbOf (j : Json) : Option VerbUse := do
  let subj ← entOf (getObj j "subj")
  let objs ← (getArr j "objs").mapM entOf
  pure ⟨(getStr j "verb").toList, getBool j "neg", subj, objs⟩

def opOf : String → Option CmpOp
  | "eq" => some .eq | "ne" => some .ne | "lt" => some .lt | "le" => some .le | "gt" => some .gt | "ge" => some .ge
  | _ => none
def opName : CmpOp → String
  | .eq => "eq" | .ne => "ne" | .lt => "lt" | .le => "le" | .gt => "gt" | .ge => "ge"

def clauseOf (j : Json) : Option Clause :=
  match getStr j "k" with
  | "ent" => (entOf (getObj j "e")).map (Clause.ent (getBool j "neg"))
  | "verb" => (verbOf (getObj j "v")).map Clause.verb
  | "cmp" => do
      let op ← opOf (getStr j "op")
      let l ← termOf (getObj j "l")
      let r ← termOf (getObj j "r")
      pure (.cmp op l r)
  | _ => none

def atomOf (j : Json) : Option Atom := do
  let args ← (getArr j "args").mapM termOf
  pure ⟨(getStr j "p").toList, args⟩

def litOf (j : Json) : Option SLit :=
  match getStr j "k" with
  | "pos" => (atomOf (getObj j "a")).map SLit.pos
  | "neg" => (atomOf (getObj j "a")).map SLit.neg
  | "cmp" => do
      let op ← opOf (getStr j "op")
      let l ← termOf (getObj j "l")
      let r ← termOf (getObj j "r")
      pure (.cmp op l r)
  | _ => none

def fnOf : String → Option AggFn
  | "count" => some .count | "sum" => some .sum | "max" => some .max | "min" => some .min | _ => none

def aggOf (j : Json) : Option Agg := do
  let fn ← fnOf (getStr j "fn")
  let tuple ← (getArr j "tuple").mapM termOf
  let cond ← (getArr j "cond").mapM litOf
  let op ← opOf (getStr j "op")
  let bound ← termOf (getObj j "bound")
  pure ⟨fn, tuple, cond, op, bound⟩

def qopOf (s : String) : Option QOp := QOp.all.find? (fun q => q.name == s)

def cardOf (j : Json) : Option Card :=
  match getStr j "k" with
  | "any" => some .any
  | "single" => (qopOf (getStr j "q")).map (fun q => Card.single q (getNat j "n"))
  | "between" => some (.between (getNat j "n") (getNat j "m"))
  | _ => none

def sentenceOf (j : Json) : Option Sentence :=
  match getStr j "k" with
  | "facts" => do
      let ts ← (getArr j "tuples").mapM (fun t => match t with | .arr a => a.toList.mapM valOf | _ => none)
      pure (.facts (getStr j "pred").toList ts)
  | "choice" => do
      let conds ← (getArr j "conds").mapM clauseOf
      let v ← verbOf (getObj j "v")
      let card ← cardOf (getObj j "card")
      pure (.choice conds v card)
  | "derived" => do
      let conds ← (getArr j "conds").mapM clauseOf
      let v ← verbOf (getObj j "v")
      pure (.derived v conds)
  | "prohibited" => (getArr j "cs").mapM clauseOf |>.map Sentence.prohibited
  | "required" => do
      let m ← clauseOf (getObj j "main")
      let conds ← (getArr j "conds").mapM clauseOf
      pure (.required m conds)
  | "aggProhibited" => do
      let aggs ← (getArr j "aggs").mapM aggOf
      let cmps ← (getArr j "cmps").mapM litOf
      let conds ← (getArr j "conds").mapM clauseOf
      pure (.aggProhibited aggs cmps conds)
  | "aggRequired" => do
      let a ← aggOf (getObj j "agg")
      let conds ← (getArr j "conds").mapM clauseOf
      pure (.aggRequired a conds)
  | "aggRequired2" => do
      let aggs ← (getArr j "aggs").mapM aggOf
      let c ← litOf (getObj j "cmp")
      let conds ← (getArr j "conds").mapM clauseOf
      pure (.aggRequired2 aggs c conds)
  | _ => none

def specOf (j : Json) : Option Spec := (getArr j "spec").mapM sentenceOf

def valJ : Val → Json
  | .num n => Json.num (JsonNumber.fromInt n)
  | .str s => Json.str (String.ofList s)
def termJ : Asp.Term → Json
  | .var i => Json.mkObj [("v", Json.num (JsonNumber.fromNat i))]
  | .val (.num n) => Json.mkObj [("n", Json.num (JsonNumber.fromInt n))]
  | .val (.str s) => Json.mkObj [("s", Json.str (String.ofList s))]
def atomJ (a : Atom) : Json := Json.mkObj [("p", Json.str (String.ofList a.pred)), ("args", Json.arr (a.args.map termJ).toArray)]
def litJ : SLit → Json
  | .pos a => Json.mkObj [("k", "pos"), ("a", atomJ a)]
  | .neg a => Json.mkObj [("k", "neg"), ("a", atomJ a)]
  | .cmp op l r => Json.mkObj [("k", "cmp"), ("op", opName op), ("l", termJ l), ("r", termJ r)]
def optNatJ : Option Nat → Json
  | none => Json.null
  | some n => Json.num (JsonNumber.fromNat n)
def headJ : Head → Json
  | .none => Json.mkObj [("k", "none")]
  | .atom a => Json.mkObj [("k", "atom"), ("a", atomJ a)]
  | .choice lo hi el => Json.mkObj [("k", "choice"), ("lo", optNatJ lo), ("hi", optNatJ hi), ("a", atomJ el.atom),
      ("cond", Json.arr (el.cond.map litJ).toArray)]
def fnName : AggFn → String
  | .count => "count" | .sum => "sum" | .max => "max" | .min => "min"
def aggJ (a : Agg) : Json := Json.mkObj [("fn", fnName a.fn), ("tuple", Json.arr (a.tuple.map termJ).toArray),
  ("cond", Json.arr (a.cond.map litJ).toArray), ("op", opName a.op), ("bound", termJ a.bound)]
def ruleJ (r : Rule) : Json := Json.mkObj [("head", headJ r.head), ("body", Json.arr (r.body.map litJ).toArray),
  ("aggs", Json.arr (r.aggs.map aggJ).toArray)]

/-- `c01.compile`: the rules of every sentence, and the stratification check for the given predicate order -/
def compileOp (j : Json) : Json :=
  match specOf j with
  | none => Json.mkObj [("err", "bad-spec")]
  | some s =>
    let order := (getArr j "order").filterMap (fun x => x.getStr?.toOption) |>.map String.toList
    Json.mkObj [("rules", Json.arr (s.map (fun σ => Json.arr (σ.rules.map ruleJ).toArray)).toArray),
                ("stratified", Json.bool (stratifiedB s order))]

def prioOf (j : Json) : Priority :=
  match getStr j "k" with
  | "named" => .named (getStr j "w")
  | "number" => .number (getNat j "n")
  | _ => .unstated

def prefOf (j : Json) : Option PrefSentence :=
  match getStr j "k" with
  | "aggOpt" => do
      let fn ← fnOf (getStr j "fn")
      let tuple ← (getArr j "tuple").mapM termOf
      let cond ← (getArr j "cond").mapM litOf
      pure (.aggOpt (getStr j "phrase") (prioOf (getObj j "prio")) fn tuple cond (getNat j "r"))
  | "situation" => do
      let cs ← (getArr j "cs").mapM clauseOf
      let ps ← (getArr j "params").mapM termOf
      pure (.situation (getStr j "phrase") (prioOf (getObj j "prio")) cs ps)
  | "varOpt" => do
      let v ← termOf (getObj j "v")
      let cs ← (getArr j "cs").mapM clauseOf
      let ps ← (getArr j "params").mapM termOf
      pure (.varOpt (getStr j "phrase") (prioOf (getObj j "prio")) v cs ps)
  | _ => none

def weakJ (w : Weak) : Json := Json.mkObj [("body", Json.arr (w.body.map litJ).toArray), ("aggs", Json.arr (w.aggs.map aggJ).toArray),
  ("neg", Json.bool w.neg), ("weight", termJ w.weight), ("level", Json.num (JsonNumber.fromNat w.level)),
  ("terms", Json.arr (w.terms.map termJ).toArray)]

/-- `c04.compile`: the rules of the core sentences and the weak constraint of every preference -/
def compilePrefsOp (j : Json) : Json :=
  match specOf j, (getArr j "prefs").mapM prefOf with
  | some s, some ps =>
    let order := (getArr j "order").filterMap (fun x => x.getStr?.toOption) |>.map String.toList
    Json.mkObj [("rules", Json.arr (s.map (fun σ => Json.arr (σ.rules.map ruleJ).toArray)).toArray),
                ("stratified", Json.bool (stratifiedB s order)),
                ("weak", Json.arr ((compilePrefs ps).map weakJ).toArray)]
  | _, _ => Json.mkObj [("err", "bad-spec")]

end Cnl2aspModel.Core.Codec
