/-
The core fragment of the controlled language (C01): resolved sentences, their direct (set-theoretic) reading, and the
rules cnl2asp prints for them.

A sentence is given in RESOLVED form: every occurrence of a concept lists one term per attribute (keys first) — a label
(variable), a value, or a fresh variable where the author says nothing — and every use of a verb names its subject and
object occurrences.  (Which surface words give which occurrence, and which positions the compiler links, is what the
parser and the linker decide; C07 / C08 / C09 state their properties, and the correspondence of harness/props/c01.py
checks on every run that the real compiler prints, for the surface text of a resolved sentence, exactly `Sentence.rules`.)

Transcribes, for these shapes: parser.py quantified_choice_proposition / whenever_then_clause_proposition /
then_clause / simple_clause* / constraint_proposition (negate), single_quantity_cardinality / range_quantity_cardinality,
proposition_builder.py, asp_converter.py convert_proposition / convert_new_knowledge / convert_entity / convert_cardinality.
-/
import Cnl2aspModel.Asp.Sem
import Cnl2aspModel.Generated.Tables

namespace Cnl2aspModel.Core
open Asp
open Generated (QOp)

/-- an occurrence of a concept: one term per attribute, the first `nkeys` being its keys -/
structure Ent where
  concept : List Char
  args : List Term
  nkeys : Nat
  deriving Repr

def Ent.atom (x : Ent) : Atom := ⟨x.concept, x.args⟩
def Ent.keys (x : Ent) : List Term := x.args.take x.nkeys

/-- `<subject> is [not] <verb> [prep] <objects>`: the relation atom carries the keys of the subject, then of the objects -/
structure VerbUse where
  verb : List Char
  neg : Bool
  subj : Ent
  objs : List Ent
  deriving Repr

def VerbUse.atom (v : VerbUse) : Atom := ⟨v.verb, v.subj.keys ++ v.objs.flatMap Ent.keys⟩

inductive Clause where
  | ent (neg : Bool) (x : Ent)                  -- there is [not] a <concept> …
  | verb (v : VerbUse)                          -- <subject> is [not] <verb> <objects>
  | cmp (op : CmpOp) (l r : Term)               -- <term> is <comparison> <term>
  deriving Repr

/-- the concept memberships a clause presupposes (its subject and objects are instances of their concepts) -/
def Clause.guards : Clause → List SLit
  | .ent _ _ => []
  | .verb v => .pos v.subj.atom :: v.objs.map (fun o => .pos o.atom)
  | .cmp _ _ _ => []

/-- what the clause itself says -/
def Clause.core : Clause → SLit
  | .ent false x => .pos x.atom
  | .ent true x => .neg x.atom
  | .verb v => if v.neg then .neg v.atom else .pos v.atom
  | .cmp op l r => .cmp op l r

/-- literals printed for a clause, and for its negation under `It is required that` (parser.py `negate()`) -/
def Clause.lits (c : Clause) : List SLit := c.guards ++ [c.core]
def Clause.negLits (c : Clause) : List SLit := c.guards ++ [c.core.negate]

/-- direct reading of a clause under an assignment of the labels -/
def Clause.holds (M : Interp) (e : Env) (c : Clause) : Prop :=
  (∀ l ∈ c.guards, l.holds M e) ∧ c.core.holds M e

inductive Card where
  | any
  | single (q : QOp) (n : Nat)
  | between (n m : Nat)
  deriving Repr

/-- `single_quantity_cardinality` / `range_quantity_cardinality`: which bound each phrase sets (regenerated table) -/
def Card.bounds : Card → Option Nat × Option Nat
  | .any => (none, none)
  | .single q n =>
    ((if (Generated.quantityBounds q).1 = true then some n else none), (if (Generated.quantityBounds q).2 = true then some n else none))
  | .between n m => if Generated.rangeBoundsInOrder = true then (some n, some m) else (some m, some n)

/-- what the English phrase says (the specification side; hand-written on purpose) -/
def Card.meaning : Card → Nat → Prop
  | .any, _ => True
  | .single .EXACTLY n, k => k = n
  | .single .AT_MOST n, k => k ≤ n
  | .single .AT_LEAST n, k => n ≤ k
  | .between n m, k => n ≤ k ∧ k ≤ m

inductive Sentence where
  | facts (pred : List Char) (tuples : List (List Val))            -- goes from … to … / is one of … / There is a …
  | choice (conds : List Clause) (v : VerbUse) (card : Card)       -- Every <subject> can <verb> [card] <objects> [when …] / Whenever …, then X can …
  | derived (v : VerbUse) (conds : List Clause)                    -- <subject> is <verb> <objects> when / whenever …;  …, then X must <verb>
  | prohibited (cs : List Clause)                                  -- It is prohibited that …
  | required (main : Clause) (conds : List Clause)                 -- It is required that <main>, when / whenever …
  -- C02: It is prohibited that <aggregate> is <comparison> <bound> / is between a and b / … <aggregate>, whenever …
  | aggProhibited (aggs : List Agg) (cmps : List SLit) (conds : List Clause)
  -- C02: It is required that <aggregate> is <comparison> <bound>, whenever …
  | aggRequired (a : Agg) (conds : List Clause)
  -- C02: It is required that <aggregate> is <comparison> <aggregate>, whenever …  (the aggregates bind result variables)
  | aggRequired2 (aggs : List Agg) (cmp : SLit) (conds : List Clause)
  deriving Repr

abbrev Spec := List Sentence

def litsOf (cs : List Clause) : List SLit := cs.flatMap Clause.lits

/-- body of a choice sentence: the subject is an instance of its concept and the conditions hold -/
def choiceBody (conds : List Clause) (v : VerbUse) : List SLit := .pos v.subj.atom :: litsOf conds
def choiceElem (v : VerbUse) : Elem := ⟨v.atom, v.objs.map (fun o => .pos o.atom)⟩
def derivedBody (v : VerbUse) (conds : List Clause) : List SLit :=
  (.pos v.subj.atom :: v.objs.map (fun o => .pos o.atom)) ++ litsOf conds

/-- the rules printed for a sentence -/
def Sentence.rules : Sentence → List Rule
  | .facts p ts => ts.map (fun t => { head := .atom ⟨p, t.map Term.val⟩, body := [] })
  | .choice conds v card => [{ head := .choice card.bounds.1 card.bounds.2 (choiceElem v), body := choiceBody conds v }]
  | .derived v conds => [{ head := .atom v.atom, body := derivedBody v conds }]
  | .prohibited cs => [{ head := .none, body := litsOf cs }]
  | .required m conds => [{ head := .none, body := m.negLits ++ litsOf conds }]
  | .aggProhibited aggs cmps conds => [{ head := .none, body := litsOf conds ++ cmps, aggs := aggs }]
  | .aggRequired a conds => [{ head := .none, body := litsOf conds, aggs := [{ a with op := a.op.negate }] }]
  | .aggRequired2 aggs c conds => [{ head := .none, body := litsOf conds ++ [c.negate], aggs := aggs }]

def compile (s : Spec) : Program := s.flatMap Sentence.rules

/-! ### the direct reading -/

/-- labels fixed by the subject and the conditions of a choice sentence ("per qualifying subject") -/
def outerLabels (conds : List Clause) (v : VerbUse) : List Nat := (choiceBody conds v).flatMap SLit.vars

/-- a relation instance `g` is an admissible pick for the subject fixed by `e`: it relates that subject to objects that are
instances of the object concepts -/
def admissiblePick (M : Interp) (conds : List Clause) (v : VerbUse) (e : Env) (g : GAtom) : Prop :=
  ∃ e', Agree (outerLabels conds v) e e' ∧ g = v.atom.inst e' ∧ ∀ o ∈ v.objs, M (o.atom.inst e')

/-- what a sentence demands of an interpretation -/
def Sentence.sat (M : Interp) : Sentence → Prop
  | .facts p ts => ∀ t ∈ ts, M ⟨p, t⟩
  | .choice conds v card =>
      ∀ e, M (v.subj.atom.inst e) → (∀ c ∈ conds, c.holds M e) →
        ∃ picks : List GAtom, picks.Nodup ∧ (∀ g, g ∈ picks ↔ M g ∧ admissiblePick M conds v e g) ∧ card.meaning picks.length
  | .derived v conds =>
      ∀ e, M (v.subj.atom.inst e) → (∀ o ∈ v.objs, M (o.atom.inst e)) → (∀ c ∈ conds, c.holds M e) → M (v.atom.inst e)
  | .prohibited cs => ∀ e, ¬ ∀ c ∈ cs, c.holds M e
  | .required m conds => ∀ e, (∀ l ∈ m.guards, l.holds M e) → (∀ c ∈ conds, c.holds M e) → m.core.holds M e
  | .aggProhibited aggs cmps conds =>
      ∀ e, (∀ c ∈ conds, c.holds M e) → (∀ l ∈ cmps, l.holds M e) →
        ¬ ∀ a ∈ aggs, a.holds M ((litsOf conds ++ cmps).flatMap SLit.vars) e
  | .aggRequired a conds =>
      ∀ e, (∀ c ∈ conds, c.holds M e) → a.always M ((litsOf conds).flatMap SLit.vars) e
  | .aggRequired2 aggs c conds =>
      ∀ e, (∀ c ∈ conds, c.holds M e) → (∀ a ∈ aggs, a.holds M ((litsOf conds ++ [c]).flatMap SLit.vars) e) → c.holds M e

/-- what a sentence offers as a reason for a relation or concept instance to hold -/
def Sentence.justifies (M : Interp) (g : GAtom) : Sentence → Prop
  | .facts p ts => ∃ t ∈ ts, g = ⟨p, t⟩
  | .choice conds v _ => ∃ e, M (v.subj.atom.inst e) ∧ (∀ c ∈ conds, c.holds M e) ∧ admissiblePick M conds v e g
  | .derived v conds =>
      ∃ e, g = v.atom.inst e ∧ M (v.subj.atom.inst e) ∧ (∀ o ∈ v.objs, M (o.atom.inst e)) ∧ ∀ c ∈ conds, c.holds M e
  | .prohibited _ => False
  | .required _ _ => False
  | .aggProhibited _ _ _ => False
  | .aggRequired _ _ => False
  | .aggRequired2 _ _ _ => False

/-- `M` is a model of the direct set-theoretic reading of the specification: every sentence is respected, and nothing holds
that no sentence gives a reason for -/
structure RefModel (s : Spec) (M : Interp) : Prop where
  sat : ∀ σ ∈ s, σ.sat M
  closed : ∀ g, M g → ∃ σ ∈ s, σ.justifies M g

/-- no positive recursion: relations can be ranked so that what a definition or a choice depends on positively ranks below
the relation it defines -/
def Spec.Stratified (s : Spec) (rank : List Char → Nat) : Prop := Ranked (compile s) rank

end Cnl2aspModel.Core
