/-
An executable twin of the direct reading (`Core.RefModel`) on a finite universe of values.

`refCheckB s U M` evaluates, for a finite interpretation `M` and the finite universe `U`, exactly the clauses of `RefModel`
with every quantifier over environments restricted to assignments of the sentence's variables in `U`.  `Cnl/RefExecSound.lean` proves it equivalent to `RefModel` for range-restricted specifications without aggregate sentences
(`refCheckB_iff`); for aggregate sentences it is an unproved twin.  The harness runs it on clingo's answer sets of the real
output and on perturbed non-answer-sets (harness/props/c01.py, c02.py), next to the Python enumeration used by the search.
-/
import Cnl2aspModel.Cnl.Core

namespace Cnl2aspModel.Core.Exec
open Asp Core
open Generated (QOp)

/-- remove repeated elements (keeps the last occurrence); own definition so that its lemmas are one-line inductions -/
def dedup {α : Type} [DecidableEq α] : List α → List α
  | [] => []
  | a :: as => if a ∈ dedup as then dedup as else a :: dedup as

def envOf (vs : List Nat) (vals : List Val) : Env := fun i =>
  match (vs.zip vals).lookup i with
  | some v => v
  | none => default

def assignments (U : List Val) : List Nat → List (List Val)
  | [] => [[]]
  | _ :: vs => (assignments U vs).flatMap (fun r => U.map (fun u => u :: r))

/-- extend an environment on fresh variables -/
def extend (e : Env) (vs : List Nat) (vals : List Val) : Env := fun i =>
  match (vs.zip vals).lookup i with
  | some v => v
  | none => e i

def holdsB (M : List GAtom) (e : Env) : SLit → Bool
  | .pos a => M.contains (a.inst e)
  | .neg a => !M.contains (a.inst e)
  | .cmp op l r => op.eval (l.eval e) (r.eval e)

def clauseHoldsB (M : List GAtom) (e : Env) (c : Clause) : Bool :=
  c.guards.all (holdsB M e) && holdsB M e c.core

def varsOf (ls : List SLit) : List Nat := dedup (ls.flatMap SLit.vars)

def cardMeaningB : Card → Nat → Bool
  | .any, _ => true
  | .single .EXACTLY n, k => k == n
  | .single .AT_MOST n, k => k ≤ n
  | .single .AT_LEAST n, k => n ≤ k
  | .between n m, k => n ≤ k && k ≤ m

/-- distinct tuples of an aggregate under the outer environment `e` (variables not in `outer` are local) -/
def aggTuples (U : List Val) (M : List GAtom) (outer : List Nat) (e : Env) (a : Agg) : List (List Val) :=
  let loc := (dedup (a.cond.flatMap SLit.vars ++ a.tuple.flatMap Term.vars)).filter (fun v => !outer.contains v)
  dedup ((assignments U loc).filterMap (fun vals =>
    let e' := extend e loc vals
    if a.cond.all (holdsB M e') then some (a.tuple.map (Term.eval e')) else none))

/-- evaluate the aggregates in order; `fn{…} = R` with `R` not yet bound assigns it -/
def aggsHoldB (U : List Val) (M : List GAtom) (outer : List Nat) : Env → List Nat → List Agg → Option Env
  | e, _, [] => some e
  | e, bound, a :: rest =>
    let v := a.fn.value (aggTuples U M outer e a)
    match a.bound with
    | .var r =>
      if bound.contains r then
        match e r with
        | .num b => if aggCmp a.fn a.op v b then aggsHoldB U M outer e bound rest else none
        | _ => none
      else
        match a.op, v with
        | .eq, some x => aggsHoldB U M outer (extend e [r] [.num x]) (r :: bound) rest
        | _, _ => none
    | .val (.num b) => if aggCmp a.fn a.op v b then aggsHoldB U M outer e bound rest else none
    | .val _ => none

def Sentence.satB (U : List Val) (M : List GAtom) : Sentence → Bool
  | .facts p ts => ts.all (fun t => M.contains ⟨p, t⟩)
  | .choice conds v card =>
      let outer := varsOf (choiceBody conds v)
      let loc := (dedup (v.atom.vars ++ (v.objs.flatMap (fun o => o.atom.vars)))).filter (fun x => !outer.contains x)
      (assignments U outer).all (fun vals =>
        let e := envOf outer vals
        if M.contains (v.subj.atom.inst e) && conds.all (clauseHoldsB M e) then
          let picks := dedup (M.filter (fun g => (assignments U loc).any (fun lv =>
            let e' := extend e loc lv
            g == v.atom.inst e' && v.objs.all (fun o => M.contains (o.atom.inst e')))))
          cardMeaningB card picks.length
        else true)
  | .derived v conds =>
      let vs := varsOf (derivedBody v conds ++ [.pos v.atom])
      (assignments U vs).all (fun vals =>
        let e := envOf vs vals
        if M.contains (v.subj.atom.inst e) && v.objs.all (fun o => M.contains (o.atom.inst e)) && conds.all (clauseHoldsB M e)
        then M.contains (v.atom.inst e) else true)
  | .prohibited cs =>
      let vs := varsOf (litsOf cs)
      (assignments U vs).all (fun vals => !(cs.all (clauseHoldsB M (envOf vs vals))))
  | .required m conds =>
      let vs := varsOf (m.lits ++ litsOf conds)
      (assignments U vs).all (fun vals =>
        let e := envOf vs vals
        if m.guards.all (holdsB M e) && conds.all (clauseHoldsB M e) then holdsB M e m.core else true)
  | .aggProhibited aggs cmps conds =>
      let vs := varsOf (litsOf conds)
      (assignments U vs).all (fun vals =>
        let e := envOf vs vals
        if conds.all (clauseHoldsB M e) then
          match aggsHoldB U M (varsOf (litsOf conds ++ cmps)) e vs aggs with
          | some e' => !(cmps.all (holdsB M e'))
          | none => true
        else true)
  | .aggRequired a conds =>
      let vs := varsOf (litsOf conds)
      (assignments U vs).all (fun vals =>
        let e := envOf vs vals
        if conds.all (clauseHoldsB M e) then (aggsHoldB U M vs e vs [a]).isSome else true)
  | .aggRequired2 aggs c conds =>
      let vs := varsOf (litsOf conds)
      (assignments U vs).all (fun vals =>
        let e := envOf vs vals
        if conds.all (clauseHoldsB M e) then
          match aggsHoldB U M (varsOf (litsOf conds ++ [c])) e vs aggs with
          | some e' => holdsB M e' c
          | none => true
        else true)

def Sentence.justifiesB (U : List Val) (M : List GAtom) (g : GAtom) : Sentence → Bool
  | .facts p ts => ts.any (fun t => g == ⟨p, t⟩)
  | .choice conds v _ =>
      let vs := varsOf (choiceBody conds v ++ [.pos v.atom] ++ v.objs.map (fun o => .pos o.atom))
      (assignments U vs).any (fun vals =>
        let e := envOf vs vals
        M.contains (v.subj.atom.inst e) && conds.all (clauseHoldsB M e) && g == v.atom.inst e &&
          v.objs.all (fun o => M.contains (o.atom.inst e)))
  | .derived v conds =>
      let vs := varsOf (derivedBody v conds ++ [.pos v.atom])
      (assignments U vs).any (fun vals =>
        let e := envOf vs vals
        g == v.atom.inst e && M.contains (v.subj.atom.inst e) && v.objs.all (fun o => M.contains (o.atom.inst e)) &&
          conds.all (clauseHoldsB M e))
  | _ => false

def refCheckB (s : Spec) (U : List Val) (M : List GAtom) : Bool :=
  s.all (Sentence.satB U M) && M.all (fun g => s.any (Sentence.justifiesB U M g))

end Cnl2aspModel.Core.Exec
