/-
Range restriction of a core sentence implies the solver's safety condition for every rule printed for it (C06).

`RuleSafe` is gringo's safety requirement on the rule shapes of `Asp/Sem.lean`, in its sufficient form: every variable of a
rule (head, negative literals, comparisons) occurs in a positive body atom; the variables of a choice element occur in a
positive atom of the body or of the element's condition.
-/
import Cnl2aspModel.Cnl.RefExecSound

namespace Cnl2aspModel.Core.Exec
open Asp Core

def RuleSafe (r : Rule) : Prop :=
  match r.head with
  | .none => Covered (varsOf r.body) r.body
  | .atom a => Covered (varsOf (r.body ++ [.pos a])) r.body
  | .choice _ _ el => Covered (varsOf r.body) r.body ∧ Covered (varsOf ([.pos el.atom] ++ el.cond)) (r.body ++ el.cond)

theorem covered_mono {vs vs' : List Nat} {ls ls' : List SLit} (hv : ∀ i ∈ vs', i ∈ vs) (hl : ∀ l ∈ ls, l ∈ ls')
    (h : Covered vs ls) : Covered vs' ls' := by
  intro i hi
  obtain ⟨a, ha, hia⟩ := h i (hv i hi)
  exact ⟨a, hl _ ha, hia⟩

theorem varsOf_sub {ls ls' : List SLit} (h : ∀ l ∈ ls, l ∈ ls') : ∀ i ∈ varsOf ls, i ∈ varsOf ls' := by
  intro i hi
  rw [varsOf, mem_dedup] at hi ⊢
  obtain ⟨l, hl, hil⟩ := List.mem_flatMap.mp hi
  exact List.mem_flatMap.mpr ⟨l, h l hl, hil⟩

theorem vals_no_vars (t : List Val) : (t.map Term.val).flatMap Term.vars = [] := by
  induction t with
  | nil => rfl
  | cons x xs ih => simp [Term.vars, ih]

/-- every rule printed for a range-restricted core sentence is safe -/
theorem rules_safe (σ : Sentence) (hs : Sentence.Safe σ) : ∀ r ∈ σ.rules, RuleSafe r := by
  cases σ with
  | facts p ts =>
    intro r hr
    simp only [Sentence.rules, List.mem_map] at hr
    obtain ⟨t, _, rfl⟩ := hr
    intro i hi
    simp only [varsOf, List.nil_append, mem_dedup, List.flatMap_cons, List.flatMap_nil, List.append_nil, SLit.vars, Atom.vars,
      vals_no_vars] at hi
    cases hi
  | choice conds v card =>
    intro r hr
    simp only [Sentence.rules, List.mem_singleton] at hr
    subst hr
    refine ⟨hs.1, ?_⟩
    apply covered_mono _ _ hs.2
    · apply varsOf_sub
      intro l hl
      rcases List.mem_append.mp hl with h | h
      · exact List.mem_append_left _ (List.mem_append_right _ h)
      · exact List.mem_append_right _ h
    · intro l hl; exact hl
  | derived v conds =>
    intro r hr
    simp only [Sentence.rules, List.mem_singleton] at hr
    subst hr
    exact hs
  | prohibited cs =>
    intro r hr
    simp only [Sentence.rules, List.mem_singleton] at hr
    subst hr
    exact hs
  | required m conds =>
    intro r hr
    simp only [Sentence.rules, List.mem_singleton] at hr
    subst hr
    show Covered (varsOf (m.negLits ++ litsOf conds)) (m.negLits ++ litsOf conds)
    apply covered_mono _ _ hs
    · intro i hi
      rw [varsOf, mem_dedup] at hi ⊢
      obtain ⟨l, hl, hil⟩ := List.mem_flatMap.mp hi
      rcases List.mem_append.mp hl with h | h
      · rcases List.mem_append.mp h with h | h
        · exact List.mem_flatMap.mpr ⟨l, List.mem_append_left _ (List.mem_append_left _ h), hil⟩
        · rw [List.mem_singleton.mp h, SLit.vars_negate] at hil
          exact List.mem_flatMap.mpr ⟨m.core, List.mem_append_left _ (List.mem_append_right _ (List.mem_singleton.mpr rfl)), hil⟩
      · exact List.mem_flatMap.mpr ⟨l, List.mem_append_right _ h, hil⟩
    · intro l hl
      rcases List.mem_append.mp hl with h | h
      · exact List.mem_append_left _ (List.mem_append_left _ h)
      · exact List.mem_append_right _ h
  | aggProhibited aggs cmps conds => exact hs.elim
  | aggRequired a conds => exact hs.elim
  | aggRequired2 aggs c conds => exact hs.elim

end Cnl2aspModel.Core.Exec
