/-
A decidable sufficient check for `Spec.Stratified`: an order of the predicates in which every positive dependency points backwards.
-/
import Cnl2aspModel.Cnl.Core

namespace Cnl2aspModel.Core
open Asp

def posPreds (b : List SLit) : List (List Char) :=
  b.filterMap (fun l => match l with | .pos a => some a.pred | _ => none)

theorem mem_posPreds {b : List SLit} {a : Atom} (h : SLit.pos a ∈ b) : a.pred ∈ posPreds b :=
  List.mem_filterMap.mpr ⟨_, h, rfl⟩

def rankOf (order : List (List Char)) (p : List Char) : Nat := order.idxOf p

def ruleRankedB (order : List (List Char)) (r : Rule) : Bool :=
  match r.head with
  | .none => true
  | .atom a => (posPreds r.body).all (fun p => rankOf order p < rankOf order a.pred)
  | .choice _ _ el => (posPreds r.body ++ posPreds el.cond).all (fun p => rankOf order p < rankOf order el.atom.pred)

def stratifiedB (s : Spec) (order : List (List Char)) : Bool := (compile s).all (ruleRankedB order)

theorem stratifiedB_sound (s : Spec) (order : List (List Char)) (h : stratifiedB s order = true) :
    s.Stratified (rankOf order) := by
  intro r hr
  have hr' := List.all_eq_true.mp h r hr
  unfold ruleRankedB at hr'
  refine ⟨fun a hh b hb => ?_, fun lo hi el hh => ⟨fun b hb => ?_, fun b hb => ?_⟩⟩
  · rw [hh] at hr'
    simpa using List.all_eq_true.mp hr' _ (mem_posPreds hb)
  · rw [hh] at hr'
    simpa using List.all_eq_true.mp hr' _ (List.mem_append_left _ (mem_posPreds hb))
  · rw [hh] at hr'
    simpa using List.all_eq_true.mp hr' _ (List.mem_append_right _ (mem_posPreds hb))

end Cnl2aspModel.Core
