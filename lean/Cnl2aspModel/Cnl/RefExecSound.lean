/-
`Sentence.satB` / `justifiesB` decide `Sentence.sat` / `justifies` on finite interpretations, under range restriction.
-/
import Cnl2aspModel.Cnl.RefExecLemmas

namespace Cnl2aspModel.Core.Exec
open Asp Core

theorem ite_true_iff (b c : Bool) (B C : Prop) (hb : b = true ↔ B) (hc : c = true ↔ C) :
    ((if b = true then c else true) = true) ↔ (B → C) := by
  cases b with
  | true => simp only [if_true]; exact ⟨fun h _ => hc.mp h, fun h => hc.mpr (h (hb.mp rfl))⟩
  | false =>
    simp only [Bool.false_eq_true, if_false, true_iff]
    intro hB
    exact absurd (hb.mpr hB) (by simp)

theorem contains_iff (M : List GAtom) (g : GAtom) : M.contains g = true ↔ interp M g := by
  simp [interp]

theorem facts_iff (U : List Val) (M : List GAtom) (p : List Char) (ts : List (List Val)) :
    Sentence.satB U M (.facts p ts) = true ↔ (Sentence.facts p ts).sat (interp M) := by
  simp [Sentence.satB, Sentence.sat, interp]

theorem prohibited_iff {U : List Val} {M : List GAtom} (hU : Covers U M) (cs : List Clause) (hrr : RangeRestricted (litsOf cs)) :
    Sentence.satB U M (.prohibited cs) = true ↔ (Sentence.prohibited cs).sat (interp M) := by
  simp only [Sentence.satB, Sentence.sat, List.all_eq_true, Bool.not_eq_true', Bool.eq_false_iff]
  have h1 : ∀ e, (cs.all (clauseHoldsB M e) = true) ↔ ∀ l ∈ litsOf cs, l.holds (interp M) e := by
    intro e
    rw [List.all_eq_true, litsOf_holds]
    exact ⟨fun h c hc => (clauseHoldsB_iff M e c).mp (h c hc), fun h c hc => (clauseHoldsB_iff M e c).mpr (h c hc)⟩
  have := forall_env_iff U (varsOf (litsOf cs)) (fun e => ¬ ∀ l ∈ litsOf cs, l.holds (interp M) e)
    (fun e e' h => not_congr (holds_dep _ _ e e' h))
    (fun e hn => rr_range hU hrr (Classical.not_not.mp hn))
  constructor
  · intro h e
    rw [← litsOf_holds]
    exact this.mpr (fun vals hv => by rw [← h1]; exact h vals hv) e
  · intro h vals hv
    intro hc
    exact this.mp (fun e => by rw [litsOf_holds]; exact h e) vals hv ((h1 _).mp hc)

/-- `∀ e, body e → C e` is decided on the assignments of `vs`, when `vs` contains the body's variables, every variable of `vs`
occurs in a positive atom of the body, and `C` only looks at `vs` -/
theorem forall_imp_iff {U : List Val} {M : List GAtom} (hU : Covers U M) (ls : List SLit) (vs : List Nat) (C : Env → Prop)
    (hvs : ∀ i, i ∈ varsOf ls → i ∈ vs)
    (hrr : ∀ i ∈ vs, ∃ a, SLit.pos a ∈ ls ∧ i ∈ a.vars)
    (hC : ∀ e e', (∀ i ∈ vs, e i = e' i) → (C e ↔ C e')) :
    (∀ e, (∀ l ∈ ls, l.holds (interp M) e) → C e) ↔
      ∀ vals ∈ assignments U vs, (∀ l ∈ ls, l.holds (interp M) (envOf vs vals)) → C (envOf vs vals) := by
  apply forall_env_iff U vs (fun e => (∀ l ∈ ls, l.holds (interp M) e) → C e)
  · intro e e' h
    have hb := holds_dep (interp M) ls e e' (fun i hi => h i (hvs i hi))
    rw [hb, hC e e' h]
  · intro e hn i hi
    have hb : ∀ l ∈ ls, l.holds (interp M) e := by
      apply Classical.byContradiction
      intro hnb
      exact hn (fun hb => absurd hb hnb)
    obtain ⟨a, ha, hia⟩ := hrr i hi
    exact pos_range hU (hb _ ha) i hia

theorem required_iff {U : List Val} {M : List GAtom} (hU : Covers U M) (m : Clause) (conds : List Clause)
    (hrr : ∀ i ∈ varsOf (m.lits ++ litsOf conds), ∃ a, SLit.pos a ∈ m.guards ++ litsOf conds ∧ i ∈ a.vars) :
    Sentence.satB U M (.required m conds) = true ↔ (Sentence.required m conds).sat (interp M) := by
  simp only [Sentence.satB, Sentence.sat, List.all_eq_true]
  have key := forall_imp_iff hU (m.guards ++ litsOf conds) (varsOf (m.lits ++ litsOf conds)) (fun e => m.core.holds (interp M) e)
    (fun i hi => by
      rw [varsOf, mem_dedup] at hi ⊢
      obtain ⟨l, hl, hil⟩ := List.mem_flatMap.mp hi
      refine List.mem_flatMap.mpr ⟨l, ?_, hil⟩
      rcases List.mem_append.mp hl with h | h
      · exact List.mem_append_left _ (List.mem_append_left _ h)
      · exact List.mem_append_right _ h)
    hrr
    (fun e e' h => SLit.holds_congr (fun i hi => h i (mem_dedup.mpr (List.mem_flatMap.mpr
      ⟨m.core, List.mem_append_left _ (List.mem_append_right _ (List.mem_singleton.mpr rfl)), hi⟩))))
  have split : ∀ e, (∀ l ∈ m.guards ++ litsOf conds, l.holds (interp M) e) ↔
      (∀ l ∈ m.guards, l.holds (interp M) e) ∧ ∀ c ∈ conds, c.holds (interp M) e := by
    intro e
    rw [← litsOf_holds]
    constructor
    · intro h; exact ⟨fun l hl => h l (List.mem_append_left _ hl), fun l hl => h l (List.mem_append_right _ hl)⟩
    · rintro ⟨h1, h2⟩ l hl
      rcases List.mem_append.mp hl with h | h
      · exact h1 l h
      · exact h2 l h
  have bool : ∀ e, ((if (m.guards.all (holdsB M e) && conds.all (clauseHoldsB M e)) = true then holdsB M e m.core else true) = true) ↔
      ((∀ l ∈ m.guards ++ litsOf conds, l.holds (interp M) e) → m.core.holds (interp M) e) := by
    intro e
    rw [split]
    have hg := allB_iff M e m.guards
    have hc : conds.all (clauseHoldsB M e) = true ↔ ∀ c ∈ conds, c.holds (interp M) e := by
      rw [List.all_eq_true]
      exact ⟨fun h c hc => (clauseHoldsB_iff M e c).mp (h c hc), fun h c hc => (clauseHoldsB_iff M e c).mpr (h c hc)⟩
    split
    · rename_i hcond
      rw [Bool.and_eq_true] at hcond
      rw [holdsB_iff]
      exact ⟨fun h _ => h, fun h => h ⟨hg.mp hcond.1, hc.mp hcond.2⟩⟩
    · rename_i hcond
      constructor
      · rintro _ ⟨h1, h2⟩
        exact absurd (by rw [Bool.and_eq_true]; exact ⟨hg.mpr h1, hc.mpr h2⟩) hcond
      · intro _; rfl
  constructor
  · intro h e hg hc
    exact key.mpr (fun vals hv => (bool _).mp (h vals hv)) e ((split e).mpr ⟨hg, hc⟩)
  · intro h vals hv
    exact (bool _).mpr (key.mp (fun e hb => h e ((split e).mp hb).1 ((split e).mp hb).2) vals hv)

theorem condsB_iff (M : List GAtom) (e : Env) (conds : List Clause) :
    conds.all (clauseHoldsB M e) = true ↔ ∀ c ∈ conds, c.holds (interp M) e := by
  rw [List.all_eq_true]
  exact ⟨fun h c hc => (clauseHoldsB_iff M e c).mp (h c hc), fun h c hc => (clauseHoldsB_iff M e c).mpr (h c hc)⟩

theorem objsB_iff (M : List GAtom) (e : Env) (objs : List Ent) :
    objs.all (fun o => M.contains (o.atom.inst e)) = true ↔ ∀ o ∈ objs, interp M (o.atom.inst e) := by
  simp [List.all_eq_true, interp]

theorem derivedB_body (M : List GAtom) (e : Env) (v : VerbUse) (conds : List Clause) :
    (M.contains (v.subj.atom.inst e) && v.objs.all (fun o => M.contains (o.atom.inst e)) && conds.all (clauseHoldsB M e)) = true ↔
      ∀ l ∈ derivedBody v conds, l.holds (interp M) e := by
  rw [derivedBody_holds, Bool.and_eq_true, Bool.and_eq_true, objsB_iff, condsB_iff]
  simp [interp, and_assoc]

theorem derived_iff {U : List Val} {M : List GAtom} (hU : Covers U M) (v : VerbUse) (conds : List Clause)
    (hrr : ∀ i ∈ varsOf (derivedBody v conds ++ [.pos v.atom]), ∃ a, SLit.pos a ∈ derivedBody v conds ∧ i ∈ a.vars) :
    Sentence.satB U M (.derived v conds) = true ↔ (Sentence.derived v conds).sat (interp M) := by
  simp only [Sentence.satB, Sentence.sat, List.all_eq_true]
  have key := forall_imp_iff hU (derivedBody v conds) (varsOf (derivedBody v conds ++ [.pos v.atom]))
    (fun e => interp M (v.atom.inst e))
    (fun i hi => by
      rw [varsOf, mem_dedup] at hi ⊢
      obtain ⟨l, hl, hil⟩ := List.mem_flatMap.mp hi
      exact List.mem_flatMap.mpr ⟨l, List.mem_append_left _ hl, hil⟩)
    hrr
    (fun e e' h => by
      rw [Atom.inst_congr (a := v.atom) (fun i hi => h i (mem_dedup.mpr (List.mem_flatMap.mpr
        ⟨.pos v.atom, List.mem_append_right _ (List.mem_singleton.mpr rfl), hi⟩)))])
  have bool : ∀ e, ((if (M.contains (v.subj.atom.inst e) && v.objs.all (fun o => M.contains (o.atom.inst e)) &&
        conds.all (clauseHoldsB M e)) = true then M.contains (v.atom.inst e) else true) = true) ↔
      ((∀ l ∈ derivedBody v conds, l.holds (interp M) e) → interp M (v.atom.inst e)) :=
    fun e => ite_true_iff _ _ _ _ (derivedB_body M e v conds) (contains_iff M _)
  constructor
  · intro h e hs ho hc
    exact key.mpr (fun vals hv => (bool _).mp (h vals hv)) e ((derivedBody_holds _ e conds v).mpr ⟨hs, ho, hc⟩)
  · intro h vals hv
    refine (bool _).mpr (key.mp (fun e hb => ?_) vals hv)
    obtain ⟨hs, ho, hc⟩ := (derivedBody_holds _ e conds v).mp hb
    exact h e hs ho hc

theorem derived_just_iff {U : List Val} {M : List GAtom} (hU : Covers U M) (v : VerbUse) (conds : List Clause) (g : GAtom)
    (hrr : ∀ i ∈ varsOf (derivedBody v conds ++ [.pos v.atom]), ∃ a, SLit.pos a ∈ derivedBody v conds ∧ i ∈ a.vars) :
    Sentence.justifiesB U M g (.derived v conds) = true ↔ (Sentence.derived v conds).justifies (interp M) g := by
  simp only [Sentence.justifiesB, Sentence.justifies, List.any_eq_true]
  have key := exists_env_iff U (varsOf (derivedBody v conds ++ [.pos v.atom]))
    (fun e => g = v.atom.inst e ∧ ∀ l ∈ derivedBody v conds, l.holds (interp M) e)
    (fun e e' h => by
      have ha : v.atom.inst e = v.atom.inst e' := Atom.inst_congr (fun i hi => h i (mem_dedup.mpr (List.mem_flatMap.mpr
        ⟨.pos v.atom, List.mem_append_right _ (List.mem_singleton.mpr rfl), hi⟩)))
      have hb := holds_dep (interp M) (derivedBody v conds) e e' (fun i hi => h i (by
        rw [varsOf, mem_dedup] at hi ⊢
        obtain ⟨l, hl, hil⟩ := List.mem_flatMap.mp hi
        exact List.mem_flatMap.mpr ⟨l, List.mem_append_left _ hl, hil⟩))
      rw [ha, hb])
    (fun e ⟨_, hb⟩ i hi => by
      obtain ⟨a, ha, hia⟩ := hrr i hi
      exact pos_range hU (hb _ ha) i hia)
  have bool : ∀ e, ((g == v.atom.inst e && M.contains (v.subj.atom.inst e) && v.objs.all (fun o => M.contains (o.atom.inst e)) &&
        conds.all (clauseHoldsB M e)) = true) ↔ (g = v.atom.inst e ∧ ∀ l ∈ derivedBody v conds, l.holds (interp M) e) := by
    intro e
    rw [← derivedB_body]
    simp only [Bool.and_eq_true, beq_iff_eq]
    constructor
    · rintro ⟨⟨⟨h1, h2⟩, h3⟩, h4⟩; exact ⟨h1, ⟨h2, h3⟩, h4⟩
    · rintro ⟨h1, ⟨h2, h3⟩, h4⟩; exact ⟨⟨⟨h1, h2⟩, h3⟩, h4⟩
  constructor
  · rintro ⟨vals, hv, hq⟩
    obtain ⟨e, hge, hb⟩ := key.mpr ⟨vals, hv, (bool _).mp hq⟩
    obtain ⟨hs, ho, hc⟩ := (derivedBody_holds _ e conds v).mp hb
    exact ⟨e, hge, hs, ho, hc⟩
  · rintro ⟨e, hge, hs, ho, hc⟩
    obtain ⟨vals, hv, hq⟩ := key.mp ⟨e, hge, (derivedBody_holds _ e conds v).mpr ⟨hs, ho, hc⟩⟩
    exact ⟨vals, hv, (bool _).mpr hq⟩

theorem facts_just_iff (U : List Val) (M : List GAtom) (p : List Char) (ts : List (List Val)) (g : GAtom) :
    Sentence.justifiesB U M g (.facts p ts) = true ↔ (Sentence.facts p ts).justifies (interp M) g := by
  simp [Sentence.justifiesB, Sentence.justifies]

def objLits (v : VerbUse) : List SLit := v.objs.map (fun o => SLit.pos o.atom)

theorem choiceB_body (M : List GAtom) (e : Env) (v : VerbUse) (conds : List Clause) :
    (M.contains (v.subj.atom.inst e) && conds.all (clauseHoldsB M e)) = true ↔ ∀ l ∈ choiceBody conds v, l.holds (interp M) e := by
  rw [choiceBody_holds, Bool.and_eq_true, condsB_iff, contains_iff]

theorem agree_body {M : Interp} (conds : List Clause) (v : VerbUse) (e e' : Env) (h : Agree (outerLabels conds v) e e') :
    (∀ l ∈ choiceBody conds v, l.holds M e) ↔ (∀ l ∈ choiceBody conds v, l.holds M e') := by
  have key : ∀ l ∈ choiceBody conds v, (l.holds M e ↔ l.holds M e') := fun l hl =>
    SLit.holds_congr (fun i hi => (h i (List.mem_flatMap.mpr ⟨l, hl, hi⟩)).symm)
  exact ⟨fun h1 l hl => (key l hl).mp (h1 l hl), fun h1 l hl => (key l hl).mpr (h1 l hl)⟩

/-- a pick is justified by ONE environment that makes the body, the head instance and the object memberships true -/
theorem choice_just_single (M : Interp) (conds : List Clause) (v : VerbUse) (g : GAtom) :
    (∃ e, M (v.subj.atom.inst e) ∧ (∀ c ∈ conds, c.holds M e) ∧ admissiblePick M conds v e g) ↔
      ∃ e, (∀ l ∈ choiceBody conds v, l.holds M e) ∧ g = v.atom.inst e ∧ ∀ l ∈ objLits v, l.holds M e := by
  constructor
  · rintro ⟨e, hs, hc, e', hag, hge, ho⟩
    refine ⟨e', (agree_body conds v e e' hag).mp ((choiceBody_holds M e conds v).mpr ⟨hs, hc⟩), hge, ?_⟩
    exact (posObjs_holds M e' v.objs).mpr ho
  · rintro ⟨e, hb, hge, ho⟩
    obtain ⟨hs, hc⟩ := (choiceBody_holds M e conds v).mp hb
    exact ⟨e, hs, hc, e, Agree.refl _ e, hge, (posObjs_holds M e v.objs).mp ho⟩

theorem choice_just_iff {U : List Val} {M : List GAtom} (hU : Covers U M) (conds : List Clause) (v : VerbUse) (card : Card) (g : GAtom)
    (hrr : ∀ i ∈ varsOf (choiceBody conds v ++ [.pos v.atom] ++ objLits v),
      ∃ a, SLit.pos a ∈ choiceBody conds v ++ objLits v ∧ i ∈ a.vars) :
    Sentence.justifiesB U M g (.choice conds v card) = true ↔ (Sentence.choice conds v card).justifies (interp M) g := by
  simp only [Sentence.justifiesB, Sentence.justifies, List.any_eq_true]
  rw [choice_just_single]
  let vs := varsOf (choiceBody conds v ++ [.pos v.atom] ++ objLits v)
  have sub : ∀ (ls : List SLit), (∀ l ∈ ls, l ∈ choiceBody conds v ++ [.pos v.atom] ++ objLits v) → ∀ i, i ∈ varsOf ls → i ∈ vs := by
    intro ls hls i hi
    rw [varsOf, mem_dedup] at hi
    obtain ⟨l, hl, hil⟩ := List.mem_flatMap.mp hi
    exact mem_dedup.mpr (List.mem_flatMap.mpr ⟨l, hls l hl, hil⟩)
  have key := exists_env_iff U vs
    (fun e => (∀ l ∈ choiceBody conds v, l.holds (interp M) e) ∧ g = v.atom.inst e ∧ ∀ l ∈ objLits v, l.holds (interp M) e)
    (fun e e' h => by
      have hb := holds_dep (interp M) (choiceBody conds v) e e'
        (fun i hi => h i (sub _ (fun l hl => List.mem_append_left _ (List.mem_append_left _ hl)) i hi))
      have ho := holds_dep (interp M) (objLits v) e e'
        (fun i hi => h i (sub _ (fun l hl => List.mem_append_right _ hl) i hi))
      have ha : v.atom.inst e = v.atom.inst e' := Atom.inst_congr (fun i hi => h i (mem_dedup.mpr (List.mem_flatMap.mpr
        ⟨.pos v.atom, List.mem_append_left _ (List.mem_append_right _ (List.mem_singleton.mpr rfl)), hi⟩)))
      rw [hb, ho, ha])
    (fun e ⟨hb, _, ho⟩ i hi => by
      obtain ⟨a, ha, hia⟩ := hrr i hi
      rcases List.mem_append.mp ha with h | h
      · exact pos_range hU (hb _ h) i hia
      · exact pos_range hU (ho _ h) i hia)
  have bool : ∀ e, ((M.contains (v.subj.atom.inst e) && conds.all (clauseHoldsB M e) && g == v.atom.inst e &&
        v.objs.all (fun o => M.contains (o.atom.inst e))) = true) ↔
      ((∀ l ∈ choiceBody conds v, l.holds (interp M) e) ∧ g = v.atom.inst e ∧ ∀ l ∈ objLits v, l.holds (interp M) e) := by
    intro e
    rw [← choiceB_body, objLits, posObjs_holds, ← objsB_iff]
    simp only [Bool.and_eq_true, beq_iff_eq]
    constructor
    · rintro ⟨⟨⟨h1, h2⟩, h3⟩, h4⟩; exact ⟨⟨h1, h2⟩, h3, h4⟩
    · rintro ⟨⟨h1, h2⟩, h3, h4⟩; exact ⟨⟨⟨h1, h2⟩, h3⟩, h4⟩
  constructor
  · rintro ⟨vals, hv, hq⟩
    exact key.mpr ⟨vals, hv, (bool _).mp hq⟩
  · intro h
    obtain ⟨vals, hv, hq⟩ := key.mp h
    exact ⟨vals, hv, (bool _).mpr hq⟩

theorem extend_map (e e' : Env) (vs : List Nat) : ∀ i ∈ vs, extend e vs (vs.map e') i = e' i := by
  intro i hi
  unfold extend
  induction vs with
  | nil => cases hi
  | cons x xs ih =>
    simp only [List.map_cons, List.zip_cons_cons, List.lookup_cons]
    by_cases hx : i = x
    · subst hx; simp
    · have : (i == x) = false := by simpa using hx
      rw [this]
      rcases List.mem_cons.mp hi with h | h
      · exact absurd h hx
      · exact ih h

theorem extend_notin (e : Env) (vs : List Nat) (vals : List Val) (i : Nat) (h : i ∉ vs) : extend e vs vals i = e i := by
  unfold extend
  induction vs generalizing vals with
  | nil => simp
  | cons x xs ih =>
    cases vals with
    | nil => simp
    | cons u us =>
      simp only [List.zip_cons_cons, List.lookup_cons]
      have hx : (i == x) = false := by
        simp only [beq_eq_false_iff_ne, ne_eq]
        intro hix; exact h (hix ▸ List.mem_cons_self ..)
      rw [hx]
      exact ih us (fun hi => h (List.mem_cons_of_mem _ hi))

def choiceOuter (conds : List Clause) (v : VerbUse) : List Nat := varsOf (choiceBody conds v)
def choiceLoc (conds : List Clause) (v : VerbUse) : List Nat :=
  (dedup (v.atom.vars ++ (v.objs.flatMap (fun o => o.atom.vars)))).filter (fun x => !(choiceOuter conds v).contains x)

def admB (U : List Val) (M : List GAtom) (conds : List Clause) (v : VerbUse) (e : Env) (g : GAtom) : Bool :=
  (assignments U (choiceLoc conds v)).any (fun lv =>
    let e' := extend e (choiceLoc conds v) lv
    g == v.atom.inst e' && v.objs.all (fun o => M.contains (o.atom.inst e')))

theorem mem_outer_iff (conds : List Clause) (v : VerbUse) (i : Nat) : i ∈ choiceOuter conds v ↔ i ∈ outerLabels conds v := by
  unfold choiceOuter varsOf outerLabels
  exact mem_dedup

theorem admB_iff {U : List Val} {M : List GAtom} (hU : Covers U M) (conds : List Clause) (v : VerbUse) (e : Env) (g : GAtom)
    (hg : g ∈ M) : admB U M conds v e g = true ↔ admissiblePick (interp M) conds v e g := by
  unfold admB admissiblePick
  simp only [List.any_eq_true, Bool.and_eq_true, beq_iff_eq]
  constructor
  · rintro ⟨lv, _, hge, ho⟩
    refine ⟨extend e (choiceLoc conds v) lv, ?_, hge, (objsB_iff M _ v.objs).mp ho⟩
    intro i hi
    apply extend_notin
    intro hloc
    have := (List.mem_filter.mp hloc).2
    have hin : i ∈ choiceOuter conds v := (mem_outer_iff conds v i).mpr hi
    simp at this
    exact this hin
  · rintro ⟨e', hag, hge, ho⟩
    have inloc : ∀ i, i ∈ v.atom.vars ++ (v.objs.flatMap (fun o => o.atom.vars)) →
        extend e (choiceLoc conds v) ((choiceLoc conds v).map e') i = e' i := by
      intro i hi
      by_cases hl : i ∈ choiceLoc conds v
      · exact extend_map e e' _ i hl
      · rw [extend_notin _ _ _ _ hl]
        have hout : i ∈ choiceOuter conds v := by
          apply Classical.byContradiction
          intro hno
          apply hl
          refine List.mem_filter.mpr ⟨mem_dedup.mpr hi, ?_⟩
          simpa using hno
        exact (hag i ((mem_outer_iff conds v i).mp hout)).symm
    have ha : v.atom.inst (extend e (choiceLoc conds v) ((choiceLoc conds v).map e')) = v.atom.inst e' :=
      Atom.inst_congr (fun i hi => inloc i (List.mem_append_left _ hi))
    have hobj : ∀ o ∈ v.objs, o.atom.inst (extend e (choiceLoc conds v) ((choiceLoc conds v).map e')) = o.atom.inst e' :=
      fun o ho' => Atom.inst_congr (fun i hi => inloc i (List.mem_append_right _ (List.mem_flatMap.mpr ⟨o, ho', hi⟩)))
    refine ⟨(choiceLoc conds v).map e', ?_, ?_, ?_⟩
    · refine mem_assignments.mpr ⟨by simp, ?_⟩
      intro u hu
      obtain ⟨i, hi, rfl⟩ := List.mem_map.mp hu
      have hi' := mem_dedup.mp (List.mem_filter.mp hi).1
      rcases List.mem_append.mp hi' with h | h
      · exact pos_range hU (a := v.atom) (e := e') (hge ▸ hg) i h
      · obtain ⟨o, ho', hio⟩ := List.mem_flatMap.mp h
        exact pos_range hU (a := o.atom) (e := e') (ho o ho') i hio
    · rw [ha]; exact hge
    · rw [objsB_iff]
      intro o ho'
      rw [hobj o ho']
      exact ho o ho'

theorem cardMeaningB_iff (card : Card) (k : Nat) : cardMeaningB card k = true ↔ card.meaning k := by
  cases card with
  | any => simp [cardMeaningB, Card.meaning]
  | single q n => cases q <;> simp [cardMeaningB, Card.meaning]
  | between n m => simp [cardMeaningB, Card.meaning]

/-- the picks of one subject, as a list -/
def picksB (U : List Val) (M : List GAtom) (conds : List Clause) (v : VerbUse) (e : Env) : List GAtom :=
  dedup (M.filter (admB U M conds v e))

theorem picks_iff {U : List Val} {M : List GAtom} (hU : Covers U M) (conds : List Clause) (v : VerbUse) (card : Card) (e : Env) :
    (∃ picks : List GAtom, picks.Nodup ∧ (∀ g, g ∈ picks ↔ interp M g ∧ admissiblePick (interp M) conds v e g) ∧
        card.meaning picks.length) ↔ cardMeaningB card (picksB U M conds v e).length = true := by
  have hmem : ∀ g, g ∈ picksB U M conds v e ↔ interp M g ∧ admissiblePick (interp M) conds v e g := by
    intro g
    unfold picksB
    rw [mem_dedup, List.mem_filter]
    constructor
    · rintro ⟨hg, ha⟩; exact ⟨hg, (admB_iff hU conds v e g hg).mp ha⟩
    · rintro ⟨hg, ha⟩; exact ⟨hg, (admB_iff hU conds v e g hg).mpr ha⟩
  rw [cardMeaningB_iff]
  constructor
  · rintro ⟨picks, hnd, hp, hm⟩
    have : picks.Perm (picksB U M conds v e) :=
      (List.perm_ext_iff_of_nodup hnd (nodup_dedup _)).mpr (fun g => (hp g).trans (hmem g).symm)
    rw [← this.length_eq]; exact hm
  · intro hm
    exact ⟨_, nodup_dedup _, hmem, hm⟩

theorem choice_iff {U : List Val} {M : List GAtom} (hU : Covers U M) (conds : List Clause) (v : VerbUse) (card : Card)
    (hrr : RangeRestricted (choiceBody conds v)) :
    Sentence.satB U M (.choice conds v card) = true ↔ (Sentence.choice conds v card).sat (interp M) := by
  have key := forall_imp_iff hU (choiceBody conds v) (choiceOuter conds v)
    (fun e => ∃ picks : List GAtom, picks.Nodup ∧ (∀ g, g ∈ picks ↔ interp M g ∧ admissiblePick (interp M) conds v e g) ∧
        card.meaning picks.length)
    (fun i hi => hi)
    (fun i hi => hrr i (mem_dedup.mp hi))
    (fun e e' h => by
      have hadm : ∀ g, admissiblePick (interp M) conds v e g ↔ admissiblePick (interp M) conds v e' g := by
        intro g
        unfold admissiblePick
        constructor
        · rintro ⟨x, hag, r⟩
          exact ⟨x, fun i hi => (hag i hi).trans (h i ((mem_outer_iff conds v i).mpr hi)), r⟩
        · rintro ⟨x, hag, r⟩
          exact ⟨x, fun i hi => (hag i hi).trans (h i ((mem_outer_iff conds v i).mpr hi)).symm, r⟩
      constructor
      · rintro ⟨p, hnd, hp, hm⟩; exact ⟨p, hnd, fun g => by rw [hp g, hadm g], hm⟩
      · rintro ⟨p, hnd, hp, hm⟩; exact ⟨p, hnd, fun g => by rw [hp g, hadm g], hm⟩)
  have bool : ∀ e, ((if (M.contains (v.subj.atom.inst e) && conds.all (clauseHoldsB M e)) = true then
        cardMeaningB card (picksB U M conds v e).length else true) = true) ↔
      ((∀ l ∈ choiceBody conds v, l.holds (interp M) e) → ∃ picks : List GAtom, picks.Nodup ∧
        (∀ g, g ∈ picks ↔ interp M g ∧ admissiblePick (interp M) conds v e g) ∧ card.meaning picks.length) :=
    fun e => ite_true_iff _ _ _ _ (choiceB_body M e v conds) (picks_iff hU conds v card e).symm
  have unfoldB : Sentence.satB U M (.choice conds v card) = true ↔
      ∀ vals ∈ assignments U (choiceOuter conds v),
        (if (M.contains (v.subj.atom.inst (envOf (choiceOuter conds v) vals)) &&
              conds.all (clauseHoldsB M (envOf (choiceOuter conds v) vals))) = true then
          cardMeaningB card (picksB U M conds v (envOf (choiceOuter conds v) vals)).length else true) = true := by
    simp only [Sentence.satB, List.all_eq_true]
    rfl
  rw [unfoldB]
  simp only [Sentence.sat]
  constructor
  · intro h e hs hc
    exact key.mpr (fun vals hv => (bool _).mp (h vals hv)) e ((choiceBody_holds _ e conds v).mpr ⟨hs, hc⟩)
  · intro h vals hv
    refine (bool _).mpr (key.mp (fun e hb => ?_) vals hv)
    obtain ⟨hs, hc⟩ := (choiceBody_holds _ e conds v).mp hb
    exact h e hs hc

/-- every variable of `vs` occurs in a positive atom of `ls` -/
def Covered (vs : List Nat) (ls : List SLit) : Prop := ∀ i ∈ vs, ∃ a, SLit.pos a ∈ ls ∧ i ∈ a.vars

def coveredB (vs : List Nat) (ls : List SLit) : Bool :=
  vs.all (fun i => ls.any (fun l => match l with | .pos a => a.vars.contains i | _ => false))

theorem coveredB_sound {vs : List Nat} {ls : List SLit} (h : coveredB vs ls = true) : Covered vs ls := by
  intro i hi
  have := List.all_eq_true.mp h i hi
  obtain ⟨l, hl, hla⟩ := List.any_eq_true.mp this
  cases l with
  | pos a => exact ⟨a, hl, by simpa using hla⟩
  | neg a => simp at hla
  | cmp op x y => simp at hla

/-- range restriction of a core sentence (what makes the finite evaluation exact); aggregate sentences are not covered -/
def Sentence.Safe : Sentence → Prop
  | .facts _ _ => True
  | .choice conds v _ =>
      Covered (varsOf (choiceBody conds v)) (choiceBody conds v) ∧
      Covered (varsOf (choiceBody conds v ++ [.pos v.atom] ++ objLits v)) (choiceBody conds v ++ objLits v)
  | .derived v conds => Covered (varsOf (derivedBody v conds ++ [.pos v.atom])) (derivedBody v conds)
  | .prohibited cs => Covered (varsOf (litsOf cs)) (litsOf cs)
  | .required m conds => Covered (varsOf (m.lits ++ litsOf conds)) (m.guards ++ litsOf conds)
  | _ => False

def Sentence.safeB : Sentence → Bool
  | .facts _ _ => true
  | .choice conds v _ =>
      coveredB (varsOf (choiceBody conds v)) (choiceBody conds v) &&
      coveredB (varsOf (choiceBody conds v ++ [.pos v.atom] ++ objLits v)) (choiceBody conds v ++ objLits v)
  | .derived v conds => coveredB (varsOf (derivedBody v conds ++ [.pos v.atom])) (derivedBody v conds)
  | .prohibited cs => coveredB (varsOf (litsOf cs)) (litsOf cs)
  | .required m conds => coveredB (varsOf (m.lits ++ litsOf conds)) (m.guards ++ litsOf conds)
  | _ => false

theorem Sentence.safeB_sound (σ : Sentence) (h : Sentence.safeB σ = true) : Sentence.Safe σ := by
  cases σ with
  | facts p ts => trivial
  | choice conds v card =>
    simp only [Sentence.safeB, Bool.and_eq_true] at h
    exact ⟨coveredB_sound h.1, coveredB_sound h.2⟩
  | derived v conds => exact coveredB_sound h
  | prohibited cs => exact coveredB_sound h
  | required m conds => exact coveredB_sound h
  | aggProhibited aggs cmps conds => simp [Sentence.safeB] at h
  | aggRequired a conds => simp [Sentence.safeB] at h
  | aggRequired2 aggs c conds => simp [Sentence.safeB] at h

theorem rr_of_covered {ls : List SLit} (h : Covered (varsOf ls) ls) : RangeRestricted ls :=
  fun i hi => h i (mem_dedup.mpr hi)

theorem satB_iff {U : List Val} {M : List GAtom} (hU : Covers U M) (σ : Sentence) (hs : Sentence.Safe σ) :
    Sentence.satB U M σ = true ↔ σ.sat (interp M) := by
  cases σ with
  | facts p ts => exact facts_iff U M p ts
  | choice conds v card => exact choice_iff hU conds v card (rr_of_covered hs.1)
  | derived v conds => exact derived_iff hU v conds hs
  | prohibited cs => exact prohibited_iff hU cs (rr_of_covered hs)
  | required m conds => exact required_iff hU m conds hs
  | aggProhibited aggs cmps conds => exact hs.elim
  | aggRequired a conds => exact hs.elim
  | aggRequired2 aggs c conds => exact hs.elim

theorem justifiesB_iff {U : List Val} {M : List GAtom} (hU : Covers U M) (σ : Sentence) (hs : Sentence.Safe σ) (g : GAtom) :
    Sentence.justifiesB U M g σ = true ↔ σ.justifies (interp M) g := by
  cases σ with
  | facts p ts => exact facts_just_iff U M p ts g
  | choice conds v card => exact choice_just_iff hU conds v card g hs.2
  | derived v conds => exact derived_just_iff hU v conds g hs
  | prohibited cs => simp [Sentence.justifiesB, Sentence.justifies]
  | required m conds => simp [Sentence.justifiesB, Sentence.justifies]
  | aggProhibited aggs cmps conds => exact hs.elim
  | aggRequired a conds => exact hs.elim
  | aggRequired2 aggs c conds => exact hs.elim

/-- on a finite interpretation whose values lie in `U`, the executable reading decides the direct reading -/
theorem refCheckB_iff {U : List Val} {M : List GAtom} (hU : Covers U M) (s : Spec) (hs : ∀ σ ∈ s, Sentence.Safe σ) :
    refCheckB s U M = true ↔ RefModel s (interp M) := by
  unfold refCheckB
  rw [Bool.and_eq_true, List.all_eq_true, List.all_eq_true]
  constructor
  · rintro ⟨h1, h2⟩
    refine ⟨fun σ hσ => (satB_iff hU σ (hs σ hσ)).mp (h1 σ hσ), fun g hg => ?_⟩
    obtain ⟨σ, hσ, hj⟩ := List.any_eq_true.mp (h2 g hg)
    exact ⟨σ, hσ, (justifiesB_iff hU σ (hs σ hσ) g).mp hj⟩
  · rintro ⟨h1, h2⟩
    refine ⟨fun σ hσ => (satB_iff hU σ (hs σ hσ)).mpr (h1 σ hσ), fun g hg => ?_⟩
    obtain ⟨σ, hσ, hj⟩ := h2 g hg
    exact List.any_eq_true.mpr ⟨σ, hσ, (justifiesB_iff hU σ (hs σ hσ) g).mpr hj⟩

def coversB (U : List Val) (M : List GAtom) : Bool := M.all (fun g => g.args.all (fun v => U.contains v))

theorem coversB_sound {U : List Val} {M : List GAtom} (h : coversB U M = true) : Covers U M := by
  intro g hg v hv
  have := List.all_eq_true.mp (List.all_eq_true.mp h g hg) v hv
  simpa using this

end Cnl2aspModel.Core.Exec
