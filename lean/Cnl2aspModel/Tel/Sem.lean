/-
Temporal formulas as telingo reads them inside `&tel{…}` and their semantics on finite traces.

The operator set and the meaning of each operator follow telingo 2.1.3
(telingo/theory/body.py `create_formula`, `TelFormula._translate`, `Previous`, `Next`, `Initially`):
  lhs <? rhs   since:    rhs at some j ≤ i and lhs at every k with j < k ≤ i        (unary: eventually in the past, reflexive)
  lhs <* rhs   trigger:  dual of since                                               (unary: always in the past, reflexive)
  lhs >? rhs   until;  lhs >* rhs   release                                          (unary: eventually / always in the future, reflexive)
  <  / <:      (weak) previous;   > / >:   (weak) next;   << initially;   >> finally
  a <; b  =  (< a) & b;     a ;> b  =  a & (> b);     a <- b  =  a if b;    &initial / &final / &true / &false
A rule body `not not &tel{φ}` / a constraint `:- [not] &tel{φ}` is read classically (trusted base, validated against
the real telingo by the search of harness/props/c05.py on all traces up to the property's bound).
-/
namespace Cnl2aspModel.Tel

inductive F where
  | atom (a : Nat)
  | tt | ff | initial | final
  | neg (f : F)
  | and (f g : F) | or (f g : F) | limp (f g : F) | rimp (f g : F) | equiv (f g : F)
  | prev (f : F) | wprev (f : F) | next (f : F) | wnext (f : F)
  | alwaysP (f : F) | eventuallyP (f : F) | alwaysF (f : F) | eventuallyF (f : F)
  | initially (f : F) | finally_ (f : F)
  | since (f g : F) | trigger (f g : F) | until_ (f g : F) | release (f g : F)
  | seqPrev (f g : F) | wseqPrev (f g : F) | seqNext (f g : F) | wseqNext (f g : F)
  deriving DecidableEq, Repr

/-- a finite trace: the list of states, each state the set of atoms true in it -/
abbrev Trace := List (List Nat)

def holdsAt (σ : Trace) (i a : Nat) : Bool := (σ.getD i []).contains a

def upto (n : Nat) : List Nat := List.range (n + 1)          -- 0..n
def fromTo (i n : Nat) : List Nat := (List.range n).filter (fun j => i ≤ j)   -- i..n-1

/-- truth of a formula at position `i` of trace `σ` (positions 0 … σ.length-1) -/
def eval (σ : Trace) : F → Nat → Bool
  | .atom a, i => holdsAt σ i a
  | .tt, _ => true
  | .ff, _ => false
  | .initial, i => i == 0
  | .final, i => i + 1 == σ.length
  | .neg f, i => !eval σ f i
  | .and f g, i => eval σ f i && eval σ g i
  | .or f g, i => eval σ f i || eval σ g i
  | .limp f g, i => eval σ f i || !eval σ g i
  | .rimp f g, i => !eval σ f i || eval σ g i
  | .equiv f g, i => eval σ f i == eval σ g i
  | .prev f, i => i > 0 && eval σ f (i - 1)
  | .wprev f, i => i == 0 || eval σ f (i - 1)
  | .next f, i => i + 1 < σ.length && eval σ f (i + 1)
  | .wnext f, i => !(i + 1 < σ.length) || eval σ f (i + 1)
  | .alwaysP f, i => (upto i).all fun j => eval σ f j
  | .eventuallyP f, i => (upto i).any fun j => eval σ f j
  | .alwaysF f, i => (fromTo i σ.length).all fun j => eval σ f j
  | .eventuallyF f, i => (fromTo i σ.length).any fun j => eval σ f j
  | .initially f, _ => eval σ f 0
  | .finally_ f, _ => eval σ f (σ.length - 1)
  | .since f g, i => (upto i).any fun j => eval σ g j && (upto i).all fun k => !(j < k) || eval σ f k
  | .trigger f g, i => (upto i).all fun j => eval σ g j || (upto i).any fun k => j < k && eval σ f k
  | .until_ f g, i => (fromTo i σ.length).any fun j => eval σ g j && (fromTo i σ.length).all fun k => !(k < j) || eval σ f k
  | .release f g, i => (fromTo i σ.length).all fun j => eval σ g j || (fromTo i σ.length).any fun k => k < j && eval σ f k
  | .seqPrev f g, i => (i > 0 && eval σ f (i - 1)) && eval σ g i
  | .wseqPrev f g, i => (i == 0 || eval σ f (i - 1)) && eval σ g i
  | .seqNext f g, i => eval σ f i && (i + 1 < σ.length && eval σ g (i + 1))
  | .wseqNext f g, i => eval σ f i && (!(i + 1 < σ.length) || eval σ g (i + 1))

end Cnl2aspModel.Tel
