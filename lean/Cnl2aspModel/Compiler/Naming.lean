/-
Fresh-name generation (C07).

Transcribes
  asp_converter.py  ASPConverter.create_new_field_value / get_trailing_number   (`pyConverterNamer`)
  parser.py         CNLTransformer._new_field_value                              (`pyParserNamer`)
on ASCII strings (`re.sub('[AEIOU]', '', name, IGNORECASE).upper()`, `\d+$`, `str.replace`, `rstrip(digits)`).
Both recursions are fuel-bounded here; the correspondence runs them with ample fuel.
-/
namespace Cnl2aspModel.Naming

def isVowel (c : Char) : Bool := "aeiouAEIOU".toList.contains c
def upperChar (c : Char) : Char := if 'a' ≤ c ∧ c ≤ 'z' then Char.ofNat (c.toNat - 32) else c
def isDigit (c : Char) : Bool := '0' ≤ c ∧ c ≤ '9'

/-- `re.sub(r'[AEIOU]', '', name, flags=re.IGNORECASE).upper()` -/
def stripUpper (s : List Char) : List Char := (s.filter (fun c => !isVowel c)).map upperChar

/-- the stem of an invented name: vowels dropped, upper case, and — so that it still starts like a variable when the concept name
is e.g. `a1` — an `X` in front of a leading digit (fix F43) -/
def stem (s : List Char) : List Char :=
  match stripUpper s with
  | c :: r => if isDigit c then 'X' :: c :: r else c :: r
  | [] => []

/-- the maximal run of trailing digits (`\d+$`) -/
def trailingDigits (s : List Char) : List Char := (s.reverse.takeWhile isDigit).reverse

def digitsToNat (ds : List Char) : Nat := ds.foldl (fun acc c => 10 * acc + (c.toNat - 48)) 0

def natToChars (n : Nat) : List Char := (toString n).toList

/-- `str.replace(old, new)` (all non-overlapping occurrences, left to right; `old` non-empty) -/
def replaceAll (old new : List Char) : Nat → List Char → List Char
  | 0, s => s
  | _, [] => []
  | fuel + 1, c :: cs =>
    if old ≠ [] ∧ old.isPrefixOf (c :: cs) then new ++ replaceAll old new fuel ((c :: cs).drop old.length)
    else c :: replaceAll old new fuel cs

/-- `create_new_field_value`: returns the name and the updated `_created_fields`
(the name is appended once per recursion level, as the code does). `none` = out of fuel. -/
def converterNamer : Nat → List (List Char) → List Char → Option (List Char × List (List Char))
  | 0, _, _ => none
  | fuel + 1, created, name =>
    let result := stem name
    if created.contains result then
      let td := trailingDigits result
      let n := digitsToNat td
      let next :=
        if td ≠ [] ∧ n ≠ 0 then replaceAll (natToChars n) (natToChars (n + 1)) (result.length + 1) result
        else result ++ ['1']
      match converterNamer fuel created next with
      | none => none
      | some (r, created') => some (r, created' ++ [r])
    else some (result, created ++ [result])

/-- the last maximal run of digits of a string (`re.findall(r'\d+', name)[-1]`; [] if there is none) -/
def lastDigitRun (s : List Char) : List Char :=
  ((s.reverse.dropWhile (fun c => !isDigit c)).takeWhile isDigit).reverse

def rstripDigits (s : List Char) : List Char := (s.reverse.dropWhile isDigit).reverse

/-- `_new_field_value` (for a non-empty name): returns the name and the updated `_defined_variables` -/
def parserNamer : Nat → List (List Char) → List Char → Option (List Char × List (List Char))
  | 0, _, _ => none
  | fuel + 1, defined, name =>
    let result := stem name
    if defined.contains result then
      let last := lastDigitRun name
      let next :=
        if last ≠ [] then rstripDigits name ++ natToChars (digitsToNat last + 1)
        else name ++ ['1']
      parserNamer fuel defined next
    else some (result, defined ++ [result])

/-- the property-carrying relation: the invented name is not one of the names to avoid -/
def Fresh (avoid : List (List Char)) (r : List Char) : Prop := r ∉ avoid

end Cnl2aspModel.Naming
