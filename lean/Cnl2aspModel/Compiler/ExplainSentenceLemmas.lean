/-
The explanation sentence mentions every argument of its atom exactly once (C15) — helper lemmas.
-/
import Cnl2aspModel.Compiler.ExplainSentence

namespace Cnl2aspModel.ExplainS

variable (ne : NameEq)

theorem removeFirst_none {x : Attr} : ∀ {l : List Attr}, (∀ a ∈ l, attrEq ne a x = false) → removeFirst ne x l = none
  | [], _ => rfl
  | a :: as, h => by
    simp only [removeFirst, h a (by simp), Bool.false_eq_true, if_false]
    rw [removeFirst_none (fun b hb => h b (List.mem_cons_of_mem _ hb))]
    rfl

/-- what `list.remove` does: it splits the list at the first element equal (name and value) to `x` -/
theorem removeFirst_some {x : Attr} : ∀ {l l' : List Attr}, removeFirst ne x l = some l' →
    ∃ pre e post, l = pre ++ e :: post ∧ l' = pre ++ post ∧ attrEq ne e x = true ∧ ∀ a ∈ pre, attrEq ne a x = false
  | [], _, h => by simp [removeFirst] at h
  | a :: as, l', h => by
    simp only [removeFirst] at h
    by_cases ha : attrEq ne a x = true
    · simp only [ha, if_true, Option.some.injEq] at h
      exact ⟨[], a, as, rfl, by simp [h], ha, by simp⟩
    · simp only [ha, Bool.false_eq_true, if_false, Option.map_eq_some_iff] at h
      obtain ⟨l'', h1, rfl⟩ := h
      obtain ⟨pre, e, post, rfl, rfl, he, hp⟩ := removeFirst_some h1
      refine ⟨a :: pre, e, post, rfl, rfl, he, ?_⟩
      intro b hb
      rcases List.mem_cons.mp hb with rfl | hb
      · simpa using ha
      · exact hp b hb

theorem sublist_after {a : Attr} {rest post : List Attr} {e : Attr} :
    ∀ {pre : List Attr}, (a :: rest).Sublist (pre ++ e :: post) → a ∉ pre → rest.Sublist post
  | [], h, _ => by
    cases h with
    | cons _ h => exact (List.sublist_of_cons_sublist h)
    | cons_cons _ h => exact h
  | x :: pre, h, hn => by
    cases h with
    | cons _ h => exact sublist_after h (fun hm => hn (List.mem_cons_of_mem _ hm))
    | cons_cons _ h => exact absurd (List.mem_cons_self) hn

/-- consuming the printed attributes from one list -/
def consumeL (l : List Attr) (p : List Attr) : List Attr := p.foldl (fun l a => removeFirstD ne a l) l

theorem consumeL_sublist : ∀ (p l : List Attr), (consumeL ne l p).Sublist l
  | [], l => by simp [consumeL]
  | a :: p, l => by
    simp only [consumeL, List.foldl_cons]
    refine (consumeL_sublist p _).trans ?_
    unfold removeFirstD
    cases h : removeFirst ne a l with
    | none => simp
    | some l' =>
      obtain ⟨pre, e, post, rfl, rfl, _, _⟩ := removeFirst_some ne h
      simp

/-- Claim A: the printed values and the values left are together the values there were -/
theorem consumeL_perm (hr : ∀ x, ne x x = true) : ∀ (p l : List Attr), p.Sublist l →
    (p.map (·.value) ++ (consumeL ne l p).map (·.value)).Perm (l.map (·.value))
  | [], l, _ => by simp [consumeL]
  | a :: p, l, hs => by
    have hmem : a ∈ l := hs.subset (by simp)
    have haa : attrEq ne a a = true := by simp [attrEq, hr]
    cases h : removeFirst ne a l with
    | none =>
      have : ∀ {l : List Attr}, a ∈ l → removeFirst ne a l ≠ none := by
        intro l hm hn
        induction l with
        | nil => cases hm
        | cons b bs ih =>
          simp only [removeFirst] at hn
          by_cases hb : attrEq ne b a = true
          · simp [hb] at hn
          · simp only [hb, Bool.false_eq_true, if_false, Option.map_eq_none_iff] at hn
            rcases List.mem_cons.mp hm with rfl | hm
            · exact hb haa
            · exact ih hm hn
      exact absurd h (this hmem)
    | some l' =>
      obtain ⟨pre, e, post, rfl, rfl, he, hp⟩ := removeFirst_some ne h
      have hnot : a ∉ pre := fun hm => by
        have := hp a hm
        rw [haa] at this; cases this
      have hrest : p.Sublist (pre ++ post) := (sublist_after hs hnot).trans (List.sublist_append_right _ _)
      have ih := consumeL_perm hr p (pre ++ post) hrest
      have hev : e.value = a.value := by
        simp only [attrEq, Bool.and_eq_true, beq_iff_eq] at he
        exact he.2
      simp only [consumeL, List.foldl_cons, removeFirstD, h, Option.getD_some, List.map_cons, List.cons_append]
      have ih' : (a.value :: (p.map (·.value) ++ (consumeL ne (pre ++ post) p).map (·.value))).Perm (a.value :: (pre ++ post).map (·.value)) :=
        List.Perm.cons _ ih
      refine ih'.trans ?_
      simp only [List.map_append, List.map_cons, hev]
      exact (List.perm_middle).symm

/-- no key of the atom equals (name and value) one of its non-key attributes: then `remove` on both lists deletes one element -/
def NoCross (atom : Ent) : Prop := ∀ k ∈ atom.keys, ∀ b ∈ atom.attrs, attrEq ne b k = false ∧ attrEq ne k b = false

theorem select_sublist : ∀ (l : List Attr) (s : Ent), (select ne s l).Sublist l
  | [], _ => by simp [select]
  | a :: as, s => by
    simp only [select]
    split
    · exact (select_sublist as s).cons _
    · split
      · exact (select_sublist as s).cons _
      · exact (select_sublist as _).cons_cons _

theorem removeFirstD_noop {x : Attr} {l : List Attr} (h : ∀ a ∈ l, attrEq ne a x = false) : removeFirstD ne x l = l := by
  simp [removeFirstD, removeFirst_none ne h]

theorem consume_keys (n : String) : ∀ (pk K A : List Attr), (∀ a ∈ pk, ∀ b ∈ A, attrEq ne b a = false) →
    consume ne ⟨n, K, A⟩ pk = ⟨n, consumeL ne K pk, A⟩
  | [], K, A, _ => by simp [consume, consumeL]
  | a :: pk, K, A, h => by
    simp only [consume, consumeL, List.foldl_cons]
    rw [removeFirstD_noop ne (h a (by simp))]
    exact consume_keys n pk _ A (fun x hx => h x (List.mem_cons_of_mem _ hx))

theorem consume_attrs (n : String) : ∀ (pa K A : List Attr), (∀ a ∈ pa, ∀ k ∈ K, attrEq ne k a = false) →
    consume ne ⟨n, K, A⟩ pa = ⟨n, K, consumeL ne A pa⟩
  | [], K, A, _ => by simp [consume, consumeL]
  | a :: pa, K, A, h => by
    simp only [consume, consumeL, List.foldl_cons]
    rw [removeFirstD_noop ne (h a (by simp))]
    exact consume_attrs n pa K _ (fun x hx => h x (List.mem_cons_of_mem _ hx))

theorem consume_append : ∀ (p q : List Attr) (atom : Ent), consume ne atom (p ++ q) = consume ne (consume ne atom p) q
  | [], q, atom => by simp [consume]
  | a :: p, q, atom => by simp only [List.cons_append, consume]; exact consume_append p q _

/-- one subject / object entity: what it prints and what is left are together what there was; `NoCross` is kept -/
theorem step_perm (hr : ∀ x, ne x x = true) (atom : Ent) (hnc : NoCross ne atom) (p : List Attr) (hp : p.Sublist atom.all) :
    (p.map (·.value) ++ (consume ne atom p).all.map (·.value)).Perm (atom.all.map (·.value)) ∧ NoCross ne (consume ne atom p) := by
  obtain ⟨n, K, A⟩ := atom
  simp only [Ent.all] at hp
  obtain ⟨pk, pa, rfl, hk, ha⟩ := List.sublist_append_iff.mp hp
  have h1 : ∀ a ∈ pk, ∀ b ∈ A, attrEq ne b a = false := fun a ha' b hb => (hnc a (hk.subset ha') b hb).1
  have hsubK := consumeL_sublist ne pk K
  have h2 : ∀ a ∈ pa, ∀ k ∈ consumeL ne K pk, attrEq ne k a = false :=
    fun a ha' k hk' => (hnc k (hsubK.subset hk') a (ha.subset ha')).2
  rw [consume_append, consume_keys ne n pk K A h1, consume_attrs ne n pa _ A h2]
  constructor
  · simp only [Ent.all, List.map_append]
    have pk' := consumeL_perm ne hr pk K hk
    have pa' := consumeL_perm ne hr pa A ha
    have := pk'.append pa'
    refine List.Perm.trans ?_ this
    simp only [List.append_assoc]
    apply List.Perm.append_left
    rw [← List.append_assoc, ← List.append_assoc]
    apply List.Perm.append_right
    exact List.perm_append_comm
  · intro k hk' b hb
    exact hnc k (hsubK.subset hk') b ((consumeL_sublist ne pa A).subset hb)

theorem objs_perm (hr : ∀ x, ne x x = true) : ∀ (os : List Ent) (atom : Ent), NoCross ne atom →
    (((objsM ne os atom).1 ++ (objsM ne os atom).2.all).map (·.value)).Perm (atom.all.map (·.value))
  | [], atom, _ => by simp [objsM]
  | o :: os, atom, hnc => by
    obtain ⟨h1, h2⟩ := step_perm ne hr atom hnc _ (select_sublist ne atom.all o)
    have ih := objs_perm hr os _ h2
    simp only [objsM, List.map_append, List.append_assoc] at ih ⊢
    exact (List.Perm.append_left _ ih).trans h1

theorem noCrossB_sound (atom : Ent) (h : noCrossB ne atom = true) : NoCross ne atom := by
  intro k hk b hb
  simp only [noCrossB, List.all_eq_true, Bool.and_eq_true, Bool.not_eq_true'] at h
  exact h k hk b hb

theorem mentioned_perm (hr : ∀ x, ne x x = true) (entity : Ent) (subject : Option Ent) (objects : List Ent) (args : List String)
    (hnc : NoCross ne (parseSymbol entity args)) :
    (mentioned ne entity subject objects args).Perm ((parseSymbol entity args).all.map (·.value)) := by
  simp only [mentioned]
  generalize parseSymbol entity args = atom at hnc ⊢
  cases subject with
  | none =>
    simp only [consume, List.nil_append]
    exact objs_perm ne hr objects atom hnc
  | some s =>
    obtain ⟨h1, h2⟩ := step_perm ne hr atom hnc _ (select_sublist ne atom.all s)
    have ih := objs_perm ne hr objects _ h2
    simp only [List.map_append, List.append_assoc] at ih ⊢
    exact (List.Perm.append_left _ ih).trans h1

theorem assign_values : ∀ (as : List Attr) (vs : List String), as.length ≤ vs.length →
    (assign as vs).1.map (·.value) = vs.take as.length ∧ (assign as vs).2 = vs.drop as.length
  | [], vs, _ => by simp [assign]
  | a :: as, [], h => by simp at h
  | a :: as, v :: vs, h => by
    have := assign_values as vs (by simpa using h)
    simp [assign, this.1, this.2]

/-- the arguments of the symbol are the values of the atom, in order -/
theorem parseSymbol_values (e : Ent) (args : List String) (h : args.length = e.all.length) :
    (parseSymbol e args).all.map (·.value) = args := by
  simp only [Ent.all, List.length_append] at h
  have hk := assign_values e.keys args (by omega)
  have ha := assign_values e.attrs (args.drop e.keys.length) (by simp; omega)
  simp only [parseSymbol, Ent.all, List.map_append, hk.2, hk.1, ha.1]
  rw [show e.attrs.length = (args.drop e.keys.length).length by simp; omega, List.take_length, List.take_append_drop]

end Cnl2aspModel.ExplainS
