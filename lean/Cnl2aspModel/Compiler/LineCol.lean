/-
Positions: offset ↔ (line, column) as Lark reports them with `propagate_positions=True`
(line = 1 + number of newlines before the offset; column = 1 + distance from the last newline).
Used by C17 (line citations, padding shift) and C18 (diagnostic position).
-/
namespace Cnl2aspModel.LineCol

/-- (line, column), both 1-based, of offset `k` in `s` -/
def lineCol : List Char → Nat → Nat × Nat
  | _, 0 => (1, 1)
  | [], _ + 1 => (1, 1)
  | c :: cs, k + 1 =>
    let p := lineCol cs k
    if c = '\n' then (p.1 + 1, p.2) else if p.1 = 1 then (1, p.2 + 1) else p

/-- offset of (line, column) in `s` -/
def offsetOf : List Char → Nat → Nat → Nat
  | [], _, col => col - 1
  | c :: cs, line, col =>
    if line ≤ 1 then col - 1
    else if c = '\n' then 1 + offsetOf cs (line - 1) col else 1 + offsetOf cs line col

def newlines (s : List Char) : Nat := s.count '\n'

/-- the text of (1-based) line `l` (what `splitlines()[l-1]` returns for `\n`-separated text) -/
def lineText : List Char → Nat → List Char
  | s, 0 => s.takeWhile (· ≠ '\n')
  | s, 1 => s.takeWhile (· ≠ '\n')
  | s, l + 2 => lineText ((s.dropWhile (· ≠ '\n')).drop 1) (l + 1)

theorem lineCol_pos (s : List Char) (k : Nat) : 1 ≤ (lineCol s k).1 ∧ 1 ≤ (lineCol s k).2 := by
  induction s generalizing k with
  | nil => cases k <;> simp [lineCol]
  | cons c cs ih =>
    cases k with
    | zero => simp [lineCol]
    | succ k =>
      have := ih k
      simp only [lineCol]
      split
      · exact ⟨by simp, this.2⟩
      · split
        · exact ⟨by simp, by simp⟩
        · exact this

/-- round trip: the (line, column) of an offset leads back to the offset -/
theorem offsetOf_lineCol (s : List Char) (k : Nat) (hk : k ≤ s.length) :
    offsetOf s (lineCol s k).1 (lineCol s k).2 = k := by
  induction s generalizing k with
  | nil => simp at hk; subst hk; simp [lineCol, offsetOf]
  | cons c cs ih =>
    cases k with
    | zero => simp [lineCol, offsetOf]
    | succ k =>
      have hk' : k ≤ cs.length := by simpa using hk
      have ihk := ih k hk'
      have hp := lineCol_pos cs k
      simp only [lineCol]
      by_cases hc : c = '\n'
      · simp only [hc, if_true, offsetOf]
        have : ¬ (lineCol cs k).1 + 1 ≤ 1 := by omega
        simp only [this, if_false, Nat.add_sub_cancel]
        omega
      · simp only [hc, if_false]
        by_cases h1 : (lineCol cs k).1 = 1
        · simp only [h1, if_true, offsetOf, Nat.le_refl, Nat.add_sub_cancel]
          -- the offset is still on the first line of `cs`
          have : offsetOf cs 1 (lineCol cs k).2 = (lineCol cs k).2 - 1 := by
            cases cs <;> simp [offsetOf]
          rw [h1, this] at ihk
          omega
        · simp only [h1, if_false, offsetOf]
          have : ¬ (lineCol cs k).1 ≤ 1 := by omega
          simp only [this, if_false, hc]
          omega

/-- padding made of complete lines shifts the cited line by the number of its newlines and leaves
the column alone -/
theorem lineCol_pad (pad s : List Char) (k : Nat) (hpad : pad = [] ∨ pad.getLast? = some '\n') :
    lineCol (pad ++ s) (pad.length + k) = ((lineCol s k).1 + newlines pad, (lineCol s k).2) := by
  induction pad with
  | nil => simp [newlines]
  | cons c cs ih =>
    have hcs : cs = [] ∨ cs.getLast? = some '\n' := by
      cases cs with
      | nil => left; rfl
      | cons d ds =>
        right
        rcases hpad with h | h
        · simp at h
        · simpa [List.getLast?_cons_cons] using h
    have e : (c :: cs).length + k = (cs.length + k) + 1 := by simp; omega
    rw [List.cons_append, e]
    simp only [lineCol]
    rw [ih hcs]
    have hp := lineCol_pos s k
    by_cases hc : c = '\n'
    · subst hc
      simp [newlines]
      omega
    · -- a non-newline first character of the padding: then cs is non-empty and contains the final newline
      have hcs' : cs ≠ [] := by
        intro h; subst h
        rcases hpad with h | h
        · simp at h
        · simp at h; exact hc h
      have hn : 1 ≤ newlines cs := by
        rcases hcs with h | h
        · exact absurd h hcs'
        · unfold newlines
          have : '\n' ∈ cs := by
            have := List.mem_of_getLast? h
            exact this
          exact List.count_pos_iff.mpr this
      have : ¬ ((lineCol s k).1 + List.count '\n' cs = 1) := by unfold newlines at hn; omega
      simp [hc, this, newlines]

end Cnl2aspModel.LineCol
