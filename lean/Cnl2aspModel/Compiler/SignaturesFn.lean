/-
The nested arity `get_symbols` reports for function-term mode is the number of top-level arguments the function-mode printer
produces (C13 ∘ C14): `Signatures.fnArity` (the size of the set of own attribute names and foreign concept names) equals the
length of `PrintAtom.group` on an instance of the signature — whenever the concept's own attribute names are pairwise distinct
and none of them is the name of a concept it inherits from (decidable; evaluated by the driver on every real signature).
-/
import Cnl2aspModel.Compiler.Signatures
import Cnl2aspModel.Asp.PrintAtomLemmas

namespace Cnl2aspModel.Signatures
open PrintAtom

abbrev seq : String → String → Bool := fun a b => a == b

/-- the printer's top-level arguments, counted by one left-to-right scan with the foreign concepts seen so far -/
def countScan (self : String) : List String → List Attr → Nat
  | _, [] => 0
  | seen, a :: rest =>
    match opensGroup seq self a with
    | none => 1 + countScan self seen rest
    | some h => if seen.contains h then countScan self seen rest else 1 + countScan self (h :: seen) rest

theorem opens_some_ne_self {self : String} {a : Attr} {h : String} (ho : opensGroup seq self a = some h) :
    (h == self) = false ∧ ∃ t, a.origin = h :: t := by
  unfold opensGroup at ho
  cases hoo : a.origin with
  | nil => simp [hoo] at ho
  | cons g t =>
    simp only [hoo] at ho
    by_cases hg : seq g self = true
    · simp [hg] at ho
    · simp only [hg, Bool.false_eq_true, if_false, Option.some.injEq] at ho
      subst ho
      exact ⟨by simpa [seq] using hg, t, rfl⟩

/-- attributes of an already opened group do not count -/
theorem countScan_filter (self h : String) (hs : (h == self) = false) :
    ∀ (rest : List Attr) (seen : List String), h ∈ seen →
      countScan self seen (rest.filter fun b => !sameGroup seq h b) = countScan self seen rest
  | [], _, _ => by simp [countScan]
  | b :: rest, seen, hm => by
    by_cases hb : sameGroup seq h b = true
    · -- b belongs to the group of h: it is skipped by the scan because h is in `seen`
      have hob : opensGroup seq self b = some h := by
        unfold sameGroup sameGroupO at hb
        unfold opensGroup
        cases hoo : b.origin with
        | nil => simp [hoo] at hb
        | cons g t =>
          simp only [hoo, seq, beq_iff_eq] at hb
          subst hb
          simp [seq, hs]
      simp only [List.filter_cons, hb, Bool.not_true, Bool.false_eq_true, if_false, countScan, hob,
        List.contains_iff_mem.mpr hm, if_true]
      exact countScan_filter self h hs rest seen hm
    · simp only [List.filter_cons, hb, Bool.not_false, if_true, countScan]
      cases hob : opensGroup seq self b with
      | none => simp only [countScan_filter self h hs rest seen hm]
      | some g =>
        simp only []
        split
        · exact countScan_filter self h hs rest seen hm
        · rw [countScan_filter self h hs rest (g :: seen) (List.mem_cons_of_mem _ hm)]

/-- Lemma A: the number of top-level arguments of the function-mode term -/
theorem group_length :
    ∀ (fuel : Nat) (self : String) (l : List Attr) (seen : List String), PrintAtom.measure l ≤ fuel →
      (∀ a ∈ l, ∀ h, opensGroup seq self a = some h → h ∉ seen) →
      (group seq fuel self l).length = countScan self seen l := by
  intro fuel
  induction fuel with
  | zero => intro self l seen h; simp [PrintAtom.measure] at h
  | succ fuel ih =>
    intro self l seen hm hs
    cases l with
    | nil => simp [group, countScan]
    | cons a rest =>
      simp only [group, countScan]
      cases ho : opensGroup seq self a with
      | none =>
        simp only [List.length_cons]
        rw [ih self rest seen (by simp only [PrintAtom.measure, List.map_cons, List.sum_cons, weight] at hm ⊢; omega)
          (fun b hb => hs b (List.mem_cons_of_mem _ hb))]
        omega
      | some h =>
        obtain ⟨_, m2⟩ := measure_group seq self h a rest ho
        have hns : h ∉ seen := hs a (by simp) h ho
        have hc : seen.contains h = false := by
          cases hcc : seen.contains h
          · rfl
          · exact absurd (List.contains_iff_mem.mp hcc) hns
        obtain ⟨hself, _⟩ := opens_some_ne_self ho
        simp only [List.length_cons, hc, Bool.false_eq_true, if_false]
        rw [ih self (rest.filter fun b => !sameGroup seq h b) (h :: seen) (by omega) ?_,
          countScan_filter self h hself rest (h :: seen) (by simp)]
        · omega
        · intro b hb g hg
          simp only [List.mem_filter, Bool.not_eq_true'] at hb
          intro hmem
          rcases List.mem_cons.mp hmem with rfl | hmem
          · -- g = h: then b would belong to the group of h
            obtain ⟨_, t, hbo⟩ := opens_some_ne_self hg
            have : sameGroup seq g b = true := by simp [sameGroup, sameGroupO, hbo, seq]
            rw [this] at hb; exact absurd hb.2 (by simp)
          · exact hs b (List.mem_cons_of_mem _ hb.1) g hg hmem

/-- the key `Symbol.get_arity(True)` collects for an attribute of an instance: its own name, or the concept it is inherited from -/
def keyA (self : String) (a : Attr) : String :=
  match a.origin with
  | [] => a.name
  | h :: _ => if h = self then a.name else h

theorem keyA_none {self : String} {a : Attr} (ho : opensGroup seq self a = none) : keyA self a = a.name := by
  unfold opensGroup at ho
  unfold keyA
  cases hoo : a.origin with
  | nil => rfl
  | cons g t =>
    simp only [hoo] at ho ⊢
    by_cases hg : seq g self = true
    · simp [show g = self by simpa [seq] using hg]
    · simp [hg] at ho

theorem keyA_some {self : String} {a : Attr} {h : String} (ho : opensGroup seq self a = some h) : keyA self a = h := by
  obtain ⟨hs, t, hoo⟩ := opens_some_ne_self ho
  unfold keyA
  simp only [hoo]
  have : ¬ h = self := by simpa using hs
  simp [this]

def dedupStep (acc : List String) (x : String) : List String := if acc.contains x then acc else acc ++ [x]

/-- own names pairwise distinct, and none of them the name of a concept inherited from -/
def OwnOk (self : String) (l : List Attr) : Prop :=
  (l.filter fun a => (opensGroup seq self a).isNone).Pairwise (fun a b => a.name ≠ b.name) ∧
  ∀ a ∈ l, ∀ b ∈ l, ∀ h, opensGroup seq self a = none → opensGroup seq self b = some h → a.name ≠ h

theorem OwnOk.tail {self : String} {a : Attr} {rest : List Attr} (h : OwnOk self (a :: rest)) : OwnOk self rest := by
  refine ⟨?_, fun x hx y hy => h.2 x (List.mem_cons_of_mem _ hx) y (List.mem_cons_of_mem _ hy)⟩
  have := h.1
  simp only [List.filter_cons] at this
  split at this
  · exact (List.pairwise_cons.mp this).2
  · exact this

/-- Lemma C: the scan counts exactly the new keys -/
theorem scan_dedup (self : String) : ∀ (l : List Attr) (acc seen : List String),
    (∀ a ∈ l, ∀ h, opensGroup seq self a = some h → (h ∈ acc ↔ h ∈ seen)) →
    (∀ a ∈ l, opensGroup seq self a = none → a.name ∉ acc) →
    OwnOk self l →
    ((l.map (keyA self)).foldl dedupStep acc).length = acc.length + countScan self seen l
  | [], acc, seen, _, _, _ => by simp [countScan]
  | a :: rest, acc, seen, hf, ho, hok => by
    simp only [List.map_cons, List.foldl_cons, countScan]
    cases hop : opensGroup seq self a with
    | none =>
      have hk := keyA_none hop
      have hna : a.name ∉ acc := ho a (by simp) hop
      have hc : acc.contains a.name = false := by
        cases hcc : acc.contains a.name
        · rfl
        · exact absurd (List.contains_iff_mem.mp hcc) hna
      simp only [hk, dedupStep, hc, Bool.false_eq_true, if_false]
      rw [scan_dedup self rest (acc ++ [a.name]) seen ?_ ?_ hok.tail]
      · simp; omega
      · intro b hb h hbo
        rw [List.mem_append, List.mem_singleton, hf b (List.mem_cons_of_mem _ hb) h hbo]
        constructor
        · rintro (h1 | h1)
          · exact h1
          · exact absurd h1.symm (hok.2 a (by simp) b (List.mem_cons_of_mem _ hb) h hop hbo)
        · exact Or.inl
      · intro b hb hbo
        rw [List.mem_append, List.mem_singleton]
        rintro (h1 | h1)
        · exact ho b (List.mem_cons_of_mem _ hb) hbo h1
        · have hp := hok.1
          simp only [List.filter_cons, hop, Option.isNone_none, if_true] at hp
          have := (List.pairwise_cons.mp hp).1 b (by simp [List.mem_filter, hb, hbo])
          exact this h1.symm
    | some h =>
      have hk := keyA_some hop
      simp only [hk]
      by_cases hs : h ∈ seen
      · have hacc : h ∈ acc := (hf a (by simp) h hop).mpr hs
        simp only [dedupStep, List.contains_iff_mem.mpr hacc, if_true, List.contains_iff_mem.mpr hs]
        exact scan_dedup self rest acc seen (fun b hb => hf b (List.mem_cons_of_mem _ hb))
          (fun b hb => ho b (List.mem_cons_of_mem _ hb)) hok.tail
      · have hacc : h ∉ acc := fun hm => hs ((hf a (by simp) h hop).mp hm)
        have hc1 : acc.contains h = false := by
          cases hcc : acc.contains h
          · rfl
          · exact absurd (List.contains_iff_mem.mp hcc) hacc
        have hc2 : seen.contains h = false := by
          cases hcc : seen.contains h
          · rfl
          · exact absurd (List.contains_iff_mem.mp hcc) hs
        simp only [dedupStep, hc1, hc2, Bool.false_eq_true, if_false]
        rw [scan_dedup self rest (acc ++ [h]) (h :: seen) ?_ ?_ hok.tail]
        · simp; omega
        · intro b hb g hbo
          rw [List.mem_append, List.mem_singleton, List.mem_cons, hf b (List.mem_cons_of_mem _ hb) g hbo]
          constructor
          · rintro (h1 | h1)
            · exact Or.inr h1
            · exact Or.inl h1
          · rintro (h1 | h1)
            · exact Or.inr h1
            · exact Or.inl h1
        · intro b hb hbo
          rw [List.mem_append, List.mem_singleton]
          rintro (h1 | h1)
          · exact ho b (List.mem_cons_of_mem _ hb) hbo h1
          · exact hok.2 b (List.mem_cons_of_mem _ hb) a (by simp) h hbo hop h1

/-- decidable form of `OwnOk` -/
def ownOkB (self : String) (l : List Attr) : Bool :=
  let own := (l.filter fun a => (opensGroup seq self a).isNone).map (·.name)
  let heads := l.filterMap (opensGroup seq self)
  own.Nodup && own.all fun n => !heads.contains n

theorem ownOkB_sound (self : String) (l : List Attr) (h : ownOkB self l = true) : OwnOk self l := by
  simp only [ownOkB, Bool.and_eq_true, decide_eq_true_eq, List.all_eq_true, Bool.not_eq_true'] at h
  refine ⟨?_, ?_⟩
  · have := h.1
    rw [List.nodup_iff_pairwise_ne, List.pairwise_map] at this
    exact this
  · intro a ha b hb g hoa hob hne
    have h1 : a.name ∈ (l.filter fun a => (opensGroup seq self a).isNone).map (·.name) :=
      List.mem_map.mpr ⟨a, by simp [List.mem_filter, ha, hoa], rfl⟩
    have h2 := h.2 _ h1
    have h3 : g ∈ l.filterMap (opensGroup seq self) := List.mem_filterMap.mpr ⟨b, hb, hob⟩
    rw [hne] at h2
    have := List.contains_iff_mem.mpr h3
    rw [this] at h2; cases h2

def instanceAttrs (s : Sig) : List Attr := s.all.map fun a => ⟨a.name, "_", a.origin⟩

theorem reported_eq_all (s : Sig) : s.getKeys ++ s.getAttributes = s.all := by
  unfold Sig.getKeys Sig.getAttributes Sig.all
  by_cases hk : s.keys = [] <;> simp [hk]

theorem dedup_eq_foldl (l : List String) : dedup l = l.foldl dedupStep [] := rfl

theorem keys_of_instance (s : Sig) : (instanceAttrs s).map (keyA s.name) = s.all.map (fnKey s.name) := by
  simp only [instanceAttrs, List.map_map]
  apply List.map_congr_left
  intro a _
  simp only [Function.comp, keyA, fnKey]
  cases a.origin <;> rfl

/-- the nested arity reported for function-term mode is the number of top-level arguments of a printed instance -/
theorem fn_arity_printed (s : Sig) (h : ownOkB s.name (instanceAttrs s) = true) : printedFnArity seq s = fnArity s := by
  have hA := group_length (PrintAtom.measure (instanceAttrs s)) s.name (instanceAttrs s) [] (Nat.le_refl _)
    (fun _ _ _ _ => by simp)
  have hC := scan_dedup s.name (instanceAttrs s) [] [] (fun _ _ _ _ => by simp) (fun _ _ _ => by simp)
    (ownOkB_sound _ _ h)
  have e1 : printedFnArity seq s = (group seq (PrintAtom.measure (instanceAttrs s)) s.name (instanceAttrs s)).length := rfl
  have e2 : fnArity s = (dedup ((s.getKeys ++ s.getAttributes).map (fnKey s.name))).length := rfl
  rw [e1, e2, reported_eq_all, dedup_eq_foldl, ← keys_of_instance, hA, hC]
  simp

end Cnl2aspModel.Signatures
