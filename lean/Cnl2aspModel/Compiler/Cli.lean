/-
Model of the command line (C18).

Transcribes
  cnl2asp_exceptions.py  ParserError.get_uncrecognized_word, ParserError.__init__ (message assembly)
  cnl2asp.py             main(): mode selection, the except chain (_print_diagnostic), output file handling
The compiler itself is abstract here: its behaviour on the input is the `Outcome` parameter.
-/
import Cnl2aspModel.Compiler.LineCol
import Cnl2aspModel.Generated.Tables

namespace Cnl2aspModel.Cli

/-! ### get_uncrecognized_word -/

/-- `while up < len(string) and string[up] != " ": up += 1` -/
def scanUp (s : List Char) (i : Nat) : Nat :=
  i + ((s.drop i).takeWhile (· ≠ ' ')).length

/-- `while 0 <= down < len(string) and string[down] != " ": down -= 1`, returning `down + 1` -/
def scanDown (s : List Char) : Nat → Nat
  | 0 => if s[0]? = some ' ' ∨ s[0]? = none then 1 else 0
  | i + 1 => if s[i + 1]? = some ' ' ∨ s[i + 1]? = none then i + 2 else scanDown s i

/-- `string[down+1:up]` -/
def unrecognizedWord (s : List Char) (i : Nat) : List Char :=
  let up := scanUp s i
  let lo := scanDown s i
  (s.drop lo).take (up - lo)

/-! ### the diagnostic text -/

def removePrefix (p s : List Char) : List Char := if p.isPrefixOf s then s.drop p.length else s

/-- the `Expected one of` bullet list of `ParserError.__init__` -/
def expectedTokens (allowed : List (List Char)) : List Char :=
  allowed.foldl (fun acc w =>
    if "_CNL_".toList.isPrefixOf w then acc ++ " * ".toList ++ w.drop 5 ++ ['\n']
    else if w = "SPACE".toList then acc ++ " * SPACE (\" \")\n".toList
    else acc ++ " * ".toList ++ w ++ ['\n']) []

/-- first line of the message: cites exactly the line and column handed over by the parser -/
def headline (line col : Nat) (ch : List Char) : List Char :=
  "Parser error at line ".toList ++ (toString line).toList ++ ", col ".toList ++ (toString col).toList ++
    ". Unexpected char \"".toList ++ ch ++ "\":\n".toList

/-- `str(ParserError(unexpected_char, line, col, context, line_text, allowed))` -/
def parserMessage (line col : Nat) (ch context lineText : List Char) (allowed : List (List Char)) : List Char :=
  let word := unrecognizedWord lineText (col - 1)
  let locked := Generated.lockedKeywords.map String.toList
  let hint :=
    if (locked.contains word ∧ allowed.contains "STRING".toList) ∨ allowed.contains "PARAMETER_NAME".toList then
      "Might be caused by the usage of a locked keyword \"".toList ++ word ++ "\" as a name".toList
    else []
  headline line col ch ++ context ++ "Expected one of:\n".toList ++ expectedTokens allowed ++ "\n\n".toList ++ hint

/-! ### main() -/

/-- what the selected API call does on the input text -/
inductive Outcome where
  | ok (nonEmptyOutput : Bool)
  | unexpectedCharacters
  | visitError
  | other          -- any other `Exception` (UnexpectedEOF, RecursionError, …)
  deriving DecidableEq, Repr

inductive Mode where
  | compile | checkSyntax | cnl2json | symbols
  deriving DecidableEq, Repr

structure Flags where
  checkSyntax : Bool
  cnl2json : Bool
  symbols : Bool
  printWithFunctions : Bool
  outputFile : Bool
  debug : Bool
  deriving DecidableEq, Repr

/-- the `if args.check_syntax … elif args.cnl2json … elif args.symbols … else` precedence -/
def Flags.mode (f : Flags) : Mode :=
  if f.checkSyntax then .checkSyntax else if f.cnl2json then .cnl2json else if f.symbols then .symbols else .compile

inductive Printed where
  | program            -- the compiled program on stdout
  | completed          -- "Compilation completed." (program written to the output file)
  | nothing            -- an empty program written to the output file, nothing announced
  | modeResult         -- "Input file fits the grammar." / JSON / symbol list
  | parserDiagnostic   -- "Parser error at line …"
  | compilationDiagnostic   -- the VisitError text ("Compilation error at line …")
  | conversionDiagnostic    -- "Error in asp conversion: …"
  deriving DecidableEq, Repr

structure Result where
  uncaught : Bool
  printed : Printed
  fileOpened : Bool
  deriving DecidableEq, Repr

def diagnostic : Outcome → Printed
  | .unexpectedCharacters => .parserDiagnostic
  | .visitError => .compilationDiagnostic
  | _ => .conversionDiagnostic

/-- `main()` as a function of the flags and of what the compiler does on the text.
Every mode runs inside the except chain; the output file is opened only after a successful compile. -/
def cli (f : Flags) (o : Outcome) : Result :=
  match f.mode, o with
  | .compile, .ok nonEmpty =>
      if f.outputFile then ⟨false, if nonEmpty then .completed else .nothing, true⟩
      else ⟨false, .program, false⟩
  | .compile, o => ⟨false, diagnostic o, false⟩
  | _, .ok _ => ⟨false, .modeResult, false⟩
  | _, o => ⟨false, diagnostic o, false⟩

/-! ### lemmas about the word extractor -/

theorem scanDown_spec (s : List Char) : ∀ i j, scanDown s i ≤ j → j ≤ i → ∃ c, s[j]? = some c ∧ c ≠ ' ' := by
  intro i
  induction i with
  | zero =>
    intro j h1 h2
    have hj : j = 0 := by omega
    subst hj
    unfold scanDown at h1
    split at h1
    · omega
    · rename_i h
      cases hs : s[0]? with
      | none => simp [hs] at h
      | some c => exact ⟨c, rfl, by intro e; subst e; simp [hs] at h⟩
  | succ i ih =>
    intro j h1 h2
    unfold scanDown at h1
    split at h1
    · omega
    · rename_i h
      by_cases hj : j = i + 1
      · subst hj
        cases hs : s[i + 1]? with
        | none => simp [hs] at h
        | some c => exact ⟨c, rfl, by intro e; subst e; simp [hs] at h⟩
      · exact ih j h1 (by omega)

theorem scanUp_spec (s : List Char) (i j : Nat) (h1 : i ≤ j) (h2 : j < scanUp s i) :
    ∃ c, s[j]? = some c ∧ c ≠ ' ' := by
  unfold scanUp at h2
  have hpre : ((s.drop i).takeWhile (· ≠ ' ')) <+: s.drop i := List.takeWhile_prefix _
  have hlt : j - i < ((s.drop i).takeWhile (· ≠ ' ')).length := by omega
  have hget := hpre.getElem hlt
  have hmem : ((s.drop i).takeWhile (· ≠ ' '))[j - i] ∈ (s.drop i).takeWhile (· ≠ ' ') := List.getElem_mem hlt
  have hne := List.all_eq_true.mp (List.all_takeWhile (l := s.drop i) (p := (· ≠ ' '))) _ hmem
  refine ⟨((s.drop i).takeWhile (· ≠ ' '))[j - i], ?_, by simpa using hne⟩
  have hlen : j - i < (s.drop i).length := Nat.lt_of_lt_of_le hlt hpre.length_le
  have : (s.drop i)[j - i]? = some ((s.drop i)[j - i]) := List.getElem?_eq_getElem hlen
  rw [List.getElem?_drop] at this
  have e : i + (j - i) = j := by omega
  rw [e] at this
  rw [this, hget]

theorem word_no_blank (s : List Char) (i : Nat) : ' ' ∉ unrecognizedWord s i := by
  unfold unrecognizedWord
  intro hmem
  obtain ⟨k, hk, hget⟩ := List.getElem_of_mem hmem
  simp only [List.length_take, List.length_drop] at hk
  rw [List.getElem_take, List.getElem_drop] at hget
  have hk1 : k < scanUp s i - scanDown s i := by omega
  have hj : (s[scanDown s i + k]?) = some ' ' := by
    rw [← hget]; exact List.getElem?_eq_getElem _
  by_cases hle : scanDown s i + k ≤ i
  · obtain ⟨c, hc, hne⟩ := scanDown_spec s i (scanDown s i + k) (by omega) hle
    rw [hj] at hc; exact hne (Option.some.inj hc).symm
  · obtain ⟨c, hc, hne⟩ := scanUp_spec s i (scanDown s i + k) (by omega) (by omega)
    rw [hj] at hc; exact hne (Option.some.inj hc).symm
end Cnl2aspModel.Cli
