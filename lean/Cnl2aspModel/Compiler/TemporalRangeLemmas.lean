/- Helper lemmas for C16 (kept apart from the property theorems). -/
import Cnl2aspModel.Compiler.TemporalRange

namespace Cnl2aspModel.TemporalRange

/-- number of loop iterations from `s` -/
def cnt (l e s : Nat) : Nat := if s ≤ e then (e - s) / l + 1 else 0

theorem cnt_step (l e s : Nat) (hl : 0 < l) (h : s ≤ e) : cnt l e s = cnt l e (s + l) + 1 := by
  unfold cnt
  simp only [h, if_true]
  by_cases h2 : s + l ≤ e
  · simp only [h2, if_true]
    have : e - s = (e - (s + l)) + l := by omega
    rw [this, Nat.add_div_right _ hl]
  · simp only [h2, if_false]
    have : (e - s) / l = 0 := Nat.div_eq_of_lt (by omega)
    omega

theorem loop_eq (l e : Nat) (hl : 0 < l) (s c : Nat) :
    loop l e hl s c = (List.range (cnt l e s)).map (fun k => (s + k * l, c + k)) := by
  fun_induction loop l e hl s c with
  | case1 s c h ih =>
    rw [ih, cnt_step l e s hl h, List.range_succ_eq_map]
    simp only [List.map_cons, List.map_map, Nat.zero_mul, Nat.add_zero]
    congr 1
    apply List.map_congr_left
    intro k _
    simp only [Function.comp]
    congr 1
    · rw [Nat.succ_mul]; omega
    · omega
  | case2 s c h =>
    simp [cnt, h]

end Cnl2aspModel.TemporalRange

namespace Cnl2aspModel.TemporalRange

theorem points_eq (a b l : Nat) (hl : 0 < l) (hab : a ≤ b) :
    points a b l hl = (List.range ((b - a) / l + 1)).map (fun k => (a + k * l, k)) := by
  unfold points
  rw [loop_eq, List.range_succ_eq_map]
  simp only [List.map_cons, List.map_map, Nat.zero_mul, Nat.add_zero]
  congr 1
  have hc : cnt l b (a + l) = (b - a) / l := by
    have := cnt_step l b a hl hab
    unfold cnt at this ⊢
    simp only [hab, if_true] at this
    omega
  rw [hc]
  apply List.map_congr_left
  intro k _
  simp only [Function.comp]
  congr 1
  · rw [Nat.succ_mul]; omega
  · omega

/-! digits and formatting -/

theorem digit_inj : ∀ a b : Nat, a < 10 → b < 10 → digit a = digit b → a = b := by
  intro a b ha hb h
  have : ∀ a : Fin 10, ∀ b : Fin 10, digit a.1 = digit b.1 → a = b := by decide
  have := this ⟨a, ha⟩ ⟨b, hb⟩ h
  exact Fin.mk.inj_iff.mp this

theorem digit_mod (n : Nat) : digit n = digit (n % 10) := by
  unfold digit; rw [Nat.mod_mod]

theorem pad2_inj (a b : Nat) (ha : a < 100) (hb : b < 100) (h : pad2 a = pad2 b) : a = b := by
  unfold pad2 at h
  simp only [List.cons.injEq, and_true] at h
  obtain ⟨h1, h2⟩ := h
  have e1 := digit_inj (a / 10) (b / 10) (by omega) (by omega) h1
  rw [digit_mod a, digit_mod b] at h2
  have e2 := digit_inj (a % 10) (b % 10) (by omega) (by omega) h2
  omega

theorem fmtTime_inj (m n : Nat) (hm : m < 1440) (hn : n < 1440) (h : fmtTime m = fmtTime n) : m = n := by
  unfold fmtTime at h
  simp only [pad2, List.cons_append, List.nil_append, List.cons.injEq, and_true] at h
  obtain ⟨h1, h2, -, h3, h4, -, h5⟩ := h
  -- minutes
  have em : m % 60 = n % 60 := by
    have := pad2_inj (m % 60) (n % 60) (by omega) (by omega) (by simp [pad2, h3, h4])
    exact this
  -- am/pm
  have eap : (m / 60 < 12) ↔ (n / 60 < 12) := by
    by_cases a : m / 60 < 12 <;> by_cases b : n / 60 < 12 <;> simp [a, b] at h5 <;> simp [a, b]
  -- hour on the 12-hour dial
  have eh : (if (m / 60) % 12 = 0 then 12 else (m / 60) % 12) = (if (n / 60) % 12 = 0 then 12 else (n / 60) % 12) := by
    apply pad2_inj _ _ (by split <;> omega) (by split <;> omega)
    simp [pad2, h1, h2]
  have : (m / 60) % 12 = (n / 60) % 12 := by
    split at eh <;> split at eh <;> omega
  omega

end Cnl2aspModel.TemporalRange

namespace Cnl2aspModel.TemporalRange

/-! calendar -/

theorem daysInMonth_pos (y m : Nat) : 28 ≤ daysInMonth y m ∧ daysInMonth y m ≤ 31 := by
  unfold daysInMonth; split <;> (try split) <;> omega

theorem nextDay_valid (t : Date) (h : t.Valid) : (nextDay t).Valid := by
  obtain ⟨hy, hm1, hm2, hd1, hd2⟩ := h
  unfold nextDay
  split
  · exact ⟨hy, hm1, hm2, by simp <;> omega, by simp <;> omega⟩
  · split
    · refine ⟨hy, by simp <;> omega, by simp <;> omega, by simp, ?_⟩
      have := (daysInMonth_pos t.y (t.m + 1)).1
      simp <;> omega
    · refine ⟨by simp <;> omega, by simp, by simp, by simp, ?_⟩
      have := (daysInMonth_pos (t.y + 1) 1).1
      simp <;> omega

theorem dbm_succ (y m : Nat) (h1 : 1 ≤ m) (h2 : m < 12) :
    daysBeforeMonth y (m + 1) = daysBeforeMonth y m + daysInMonth y m := by
  have : m = 1 ∨ m = 2 ∨ m = 3 ∨ m = 4 ∨ m = 5 ∨ m = 6 ∨ m = 7 ∨ m = 8 ∨ m = 9 ∨ m = 10 ∨ m = 11 := by omega
  rcases this with h | h | h | h | h | h | h | h | h | h | h <;> subst h <;>
    simp [daysBeforeMonth, daysInMonth] <;> split <;> omega

theorem isLeap_iff (y : Nat) : isLeap y = true ↔ ((y % 4 = 0 ∧ y % 100 ≠ 0) ∨ y % 400 = 0) := by
  unfold isLeap; simp

/-- days in a year, via the ordinal formula -/
theorem year_len (y : Nat) :
    ybase (y + 1) = ybase y + 365 + (if isLeap (y + 1) then 1 else 0) := by
  unfold ybase
  have h1 : y / 100 ≤ y / 4 := by omega
  have d4 : (y + 1) / 4 = y / 4 + (if (y + 1) % 4 = 0 then 1 else 0) := by split <;> omega
  have d100 : (y + 1) / 100 = y / 100 + (if (y + 1) % 100 = 0 then 1 else 0) := by split <;> omega
  have d400 : (y + 1) / 400 = y / 400 + (if (y + 1) % 400 = 0 then 1 else 0) := by split <;> omega
  have m1 : (y + 1) % 400 = 0 → (y + 1) % 100 = 0 := by omega
  have m2 : (y + 1) % 100 = 0 → (y + 1) % 4 = 0 := by omega
  rw [d4, d100, d400]
  generalize y / 4 = q4 at *
  generalize y / 100 = q100 at *
  generalize y / 400 = q400 at *
  by_cases c4 : (y + 1) % 4 = 0 <;> by_cases c100 : (y + 1) % 100 = 0 <;> by_cases c400 : (y + 1) % 400 = 0 <;>
    simp [c4, c100, c400, isLeap] <;>
    first | omega | (exfalso; omega)

theorem toOrd_nextDay (t : Date) (h : t.Valid) : toOrd (nextDay t) = toOrd t + 1 := by
  obtain ⟨hy, hm1, hm2, hd1, hd2⟩ := h
  unfold nextDay
  split
  · simp [toOrd]; omega
  · rename_i hlast
    have hd : t.d = daysInMonth t.y t.m := by omega
    split
    · rename_i hm
      simp only [toOrd]
      rw [dbm_succ t.y t.m hm1 hm]
      omega
    · have hm : t.m = 12 := by omega
      have hyl := year_len (t.y - 1)
      have hy1 : t.y - 1 + 1 = t.y := by omega
      rw [hy1] at hyl
      simp only [toOrd, Nat.add_sub_cancel]
      rw [hyl, hd, hm]
      simp [daysBeforeMonth, daysInMonth]
      omega

end Cnl2aspModel.TemporalRange

namespace Cnl2aspModel.TemporalRange

theorem addDays_ord (n : Nat) : ∀ t : Date, t.Valid → (addDays n t).Valid ∧ toOrd (addDays n t) = toOrd t + n := by
  induction n with
  | zero => intro t h; exact ⟨h, rfl⟩
  | succ n ih =>
    intro t h
    have hv := nextDay_valid t h
    have ho := toOrd_nextDay t h
    obtain ⟨h1, h2⟩ := ih (nextDay t) hv
    exact ⟨h1, by rw [addDays, h2, ho]; omega⟩

theorem ybase_mono_succ (y : Nat) : ybase y + 365 ≤ ybase (y + 1) := by
  rw [year_len]; omega

theorem ybase_mono (y k : Nat) : ybase y + 365 * k ≤ ybase (y + k) := by
  induction k with
  | zero => simp
  | succ k ih =>
    have := ybase_mono_succ (y + k)
    have e : y + (k + 1) = (y + k) + 1 := by omega
    rw [e]
    have e2 : 365 * (k + 1) = 365 * k + 365 := by rw [Nat.mul_succ]
    rw [e2, ← Nat.add_assoc]
    generalize ybase (y + k + 1) = A at *
    generalize ybase (y + k) = B at *
    generalize ybase y = C at *
    generalize 365 * k = D at *
    omega

theorem dbm_le (y m : Nat) (h1 : 1 ≤ m) (h2 : m ≤ 12) :
    daysBeforeMonth y m + daysInMonth y m ≤ 365 + (if isLeap y then 1 else 0) := by
  have : m = 1 ∨ m = 2 ∨ m = 3 ∨ m = 4 ∨ m = 5 ∨ m = 6 ∨ m = 7 ∨ m = 8 ∨ m = 9 ∨ m = 10 ∨ m = 11 ∨ m = 12 := by omega
  rcases this with h | h | h | h | h | h | h | h | h | h | h | h <;> subst h <;>
    simp [daysBeforeMonth, daysInMonth] <;> split <;> omega

theorem dbm_mono (y m m' : Nat) (h1 : 1 ≤ m) (h : m < m') (h2 : m' ≤ 12) :
    daysBeforeMonth y m + daysInMonth y m ≤ daysBeforeMonth y m' := by
  obtain ⟨k, rfl⟩ : ∃ k, m' = m + 1 + k := ⟨m' - m - 1, by omega⟩
  induction k with
  | zero => rw [Nat.add_zero, dbm_succ y m h1 (by omega)]; exact Nat.le_refl _
  | succ k ih =>
    have := ih (by omega) (by omega)
    have e : m + 1 + (k + 1) = (m + 1 + k) + 1 := by omega
    rw [e, dbm_succ y (m + 1 + k) (by omega) (by omega)]
    omega

theorem toOrd_lt_of_lt (a b : Date) (ha : a.Valid) (hb : b.Valid) (h : a.lt b) : toOrd a < toOrd b := by
  obtain ⟨hay, ham1, ham2, had1, had2⟩ := ha
  obtain ⟨hby, hbm1, hbm2, hbd1, hbd2⟩ := hb
  unfold toOrd
  rcases h with hy | ⟨hy, hm | ⟨hm, hd⟩⟩
  · -- earlier year
    have h1 := dbm_le a.y a.m ham1 ham2
    have h2 := year_len (a.y - 1)
    have e : a.y - 1 + 1 = a.y := by omega
    rw [e] at h2
    have h3 := ybase_mono a.y (b.y - 1 - a.y)
    have e2 : a.y + (b.y - 1 - a.y) = b.y - 1 := by omega
    rw [e2] at h3
    omega
  · have := dbm_mono a.y a.m b.m ham1 hm hbm2
    rw [hy] at this had2 ⊢
    omega
  · rw [hy, hm]; omega

theorem lt_iff_ord (a b : Date) (ha : a.Valid) (hb : b.Valid) : a.lt b ↔ toOrd a < toOrd b := by
  constructor
  · exact toOrd_lt_of_lt a b ha hb
  · intro h
    -- trichotomy of the lexicographic order
    by_cases h1 : a.lt b
    · exact h1
    · by_cases h2 : b.lt a
      · have := toOrd_lt_of_lt b a hb ha h2; omega
      · exfalso
        have : a = b := by
          unfold Date.lt at h1 h2
          cases a; cases b
          simp only [Date.mk.injEq] at *
          omega
        subst this; omega

theorem le_iff_ord (a b : Date) (ha : a.Valid) (hb : b.Valid) : a.le b ↔ toOrd a ≤ toOrd b := by
  unfold Date.le
  rw [lt_iff_ord a b ha hb]
  constructor
  · rintro (rfl | h) <;> omega
  · intro h
    by_cases e : toOrd a = toOrd b
    · left
      by_cases h1 : a.lt b
      · have := (lt_iff_ord a b ha hb).mp h1; omega
      · by_cases h2 : b.lt a
        · have := (lt_iff_ord b a hb ha).mp h2; omega
        · unfold Date.lt at h1 h2
          cases a; cases b
          simp only [Date.mk.injEq] at *
          omega
    · right; omega

/-- Refinement: the date loop, seen through `toOrd`, is the integer loop on ordinals. -/
theorem dateLoop_ord (l : Nat) (hl : 0 < l) (e : Date) (he : e.Valid) :
    ∀ (fuel : Nat) (s : Date) (c : Nat), s.Valid → toOrd e + 1 - toOrd s ≤ fuel →
      (dateLoop l e fuel s c).map (fun p => (toOrd p.1, p.2)) = loop l (toOrd e) hl (toOrd s) c := by
  intro fuel
  induction fuel with
  | zero =>
    intro s c hs hf
    have : ¬ toOrd s ≤ toOrd e := by omega
    rw [loop]; simp [dateLoop, this]
  | succ fuel ih =>
    intro s c hs hf
    rw [loop]
    by_cases h : toOrd s ≤ toOrd e
    · have hle := (le_iff_ord s e hs he).mpr h
      obtain ⟨hv, ho⟩ := addDays_ord l s hs
      simp only [dateLoop, hle, if_true, List.map_cons, h, dite_true]
      rw [ih (addDays l s) (c + 1) hv (by omega), ho]
    · have hle : ¬ s.le e := fun c => h ((le_iff_ord s e hs he).mp c)
      simp [dateLoop, hle, h]

end Cnl2aspModel.TemporalRange

namespace Cnl2aspModel.TemporalRange

theorem dictSet_fresh (d : List (List Char × Nat)) (k : List Char) (v : Nat)
    (h : ∀ p ∈ d, p.1 ≠ k) : dictSet d k v = d ++ [(k, v)] := by
  unfold dictSet
  have : d.any (fun p => decide (p.1 = k)) = false := by
    rw [List.any_eq_false]
    intro p hp
    simpa using h p hp
  simp [this]

theorem dictOf_aux (kvs : List (List Char × Nat)) :
    ∀ acc : List (List Char × Nat), ((acc ++ kvs).map (·.1)).Nodup →
      kvs.foldl (fun d p => dictSet d p.1 p.2) acc = acc ++ kvs := by
  induction kvs with
  | nil => intro acc _; simp
  | cons p ps ih =>
    intro acc hnd
    simp only [List.foldl_cons]
    have hfresh : ∀ q ∈ acc, q.1 ≠ p.1 := by
      intro q hq heq
      rw [List.map_append, List.map_cons] at hnd
      have := (List.nodup_append.mp hnd).2.2 q.1 (List.mem_map_of_mem hq) p.1 (by simp)
      exact this heq
    rw [dictSet_fresh acc p.1 p.2 hfresh]
    have e : acc ++ [(p.1, p.2)] ++ ps = acc ++ p :: ps := by simp
    rw [ih (acc ++ [(p.1, p.2)]) (by rw [e]; exact hnd), e]

/-- distinct keys: the dictionary is the list itself (no point is overwritten) -/
theorem dictOf_nodup (kvs : List (List Char × Nat)) (h : (kvs.map (·.1)).Nodup) : dictOf kvs = kvs := by
  unfold dictOf
  simpa using dictOf_aux kvs [] (by simpa using h)

end Cnl2aspModel.TemporalRange
