/-
Model of how cnl2asp compiles a comparison inside `It is prohibited/required that …`.

Transcribes (over the regenerated tables of `Generated/Tables.lean`):
  parser.py   COMPARISON_OPERATOR, comparison, between_comparison, constraint_proposition (negate)
  operation_component.py  OperationComponent.__init__/between_operator
  asp_converter.py        convert_operation, _convert_between_operation_without_aggregate, operators_negation
  asp_operation.py        ASPOperation.operators / __str__ (infix, chain for three operands)
-/
import Cnl2aspModel.Generated.Tables

namespace Cnl2aspModel
open Generated

/-- The six integer relations of gringo's comparison symbols. -/
inductive Rel where
  | eq | ne | lt | gt | le | ge
  deriving DecidableEq, Repr

def Rel.holds : Rel → Int → Int → Prop
  | .eq, a, b => a = b
  | .ne, a, b => a ≠ b
  | .lt, a, b => a < b
  | .gt, a, b => a > b
  | .le, a, b => a ≤ b
  | .ge, a, b => a ≥ b

instance (r : Rel) (a b : Int) : Decidable (r.holds a b) := by
  cases r <;> unfold Rel.holds <;> infer_instance

/-- gringo's reading of a comparison symbol (trusted base: clingo's semantics on integers). -/
def symRel : String → Option Rel
  | "=" => some .eq
  | "!=" => some .ne
  | "<" => some .lt
  | ">" => some .gt
  | "<=" => some .le
  | ">=" => some .ge
  | _ => none

/-- What the English phrase says (the specification side; hand-written on purpose). -/
def phraseMeaning : String → Option Rel
  | "the same as" => some .eq
  | "equal to" => some .eq
  | "different from" => some .ne
  | "more than" => some .gt
  | "greater than" => some .gt
  | "less than" => some .lt
  | "greater than or equal to" => some .ge
  | "at least" => some .ge
  | "less than or equal to" => some .le
  | "at most" => some .le
  | "not after" => some .le
  | _ => none

/-- The phrases the property lists; all must be present in the regenerated terminal. -/
def requiredPhrases : List String :=
  ["the same as", "equal to", "different from", "more than", "greater than", "less than",
   "greater than or equal to", "less than or equal to", "at least", "at most", "not after"]

/-- callback table lookup (COMPARISON_OPERATOR) -/
def phraseOp (p : String) : Option Op :=
  match comparisonPhrases.lookup p with
  | some (some o) => some o
  | _ => none

def opRel (o : Op) : Option Rel := (aspSymbol o).bind symRel

/-- `operation.operation < Operators.CONJUNCTION` -/
def isBelowConjunction (o : Op) : Bool := o.val < Op.CONJUNCTION.val

/-- arithmetic-free terms are enough for the emitted literals; arithmetic operands are kept symbolic -/
inductive Term where
  | var (n : String)
  | num (k : Int)
  | add (a b : Term)
  | sub (a b : Term)
  | mul (a b : Term)
  | div (a b : Term)           -- the solver's integer division (truncation toward zero); it has no value when the divisor is 0,
                               -- where `Int.tdiv` gives 0: the grid search skips those valuations
  | agg (id : String)          -- value of an aggregate atom (opaque here; C02 gives it meaning)
  deriving DecidableEq, Repr

def Term.eval (ρ : String → Int) : Term → Int
  | .var n => ρ n
  | .num k => k
  | .add a b => a.eval ρ + b.eval ρ
  | .sub a b => a.eval ρ - b.eval ρ
  | .mul a b => a.eval ρ * b.eval ρ
  | .div a b => Int.tdiv (a.eval ρ) (b.eval ρ)
  | .agg i => ρ i

structure CmpLit where
  lhs : Term
  sym : String
  rhs : Term
  deriving DecidableEq, Repr

def CmpLit.holds (ρ : String → Int) (l : CmpLit) : Prop :=
  match symRel l.sym with
  | some r => r.holds (l.lhs.eval ρ) (l.rhs.eval ρ)
  | none => False

/-- a constraint body fires when all its comparison literals hold -/
def fires (ρ : String → Int) (ls : List CmpLit) : Prop := ∀ l ∈ ls, l.holds ρ

inductive Polarity where
  | prohibited | required
  deriving DecidableEq, Repr

inductive CmpSentence where
  | two (phrase : String) (a b : Term)
  | between (x lo hi : Term)
  deriving DecidableEq, Repr

/-- `convert_operation`: a negated comparison operator is replaced through `operators_negation`. -/
def effectiveOp (pol : Polarity) (o : Op) : Option Op :=
  match pol with
  | .prohibited => some o
  | .required => if isBelowConjunction o then negation o else some o

def compileCmp (pol : Polarity) : CmpSentence → Option (List CmpLit)
  | .two p a b => do
      let o ← phraseOp p
      let o' ← effectiveOp pol o
      let s ← aspSymbol o'
      pure [⟨a, s, b⟩]
  | .between x lo hi => do
      -- between_operator: BETWEEN ↦ LESS_THAN_OR_EQUAL_TO over operands [lo, x, hi]
      let o' ← effectiveOp pol .LESS_THAN_OR_EQUAL_TO
      let s ← aspSymbol o'
      pure [⟨lo, s, x⟩, ⟨x, s, hi⟩]

end Cnl2aspModel
