/-
The signature table and the public symbol table (C13).

Transcribes
  signaturemanager.py  SignatureManager.add_signature (incl. the in-place rewrite of earlier signatures and
                       its bare-`except` escape), get_signature
  entity_component.py  get_keys / get_attributes / get_keys_and_attributes
  cnl2asp.py           __convert_attribute, __convert_signature, Symbol.get_arity
  asp_converter.py     convert_entity (an atom carries all keys, then all attributes)
`nameEq` is NameComponent.__eq__ (singular/plural-insensitive; parameter).
-/
import Cnl2aspModel.Asp.PrintAtom

namespace Cnl2aspModel.Signatures
open PrintAtom

/-- an attribute of a signature: name and origin chain (values are all null in the table) -/
structure SAttr where
  name : String
  origin : List String
  deriving DecidableEq, Repr

structure Sig where
  name : String
  keys : List SAttr
  attrs : List SAttr
  deriving DecidableEq, Repr

def Sig.getKeys (s : Sig) : List SAttr := if s.keys ≠ [] then s.keys else s.attrs
def Sig.getAttributes (s : Sig) : List SAttr := if s.keys ≠ [] then s.attrs else []
def Sig.all (s : Sig) : List SAttr := s.keys ++ s.attrs

/-- `list.remove(x)` with name equality: drop the first element whose name matches; `none` = ValueError -/
def removeFirst (nameEq : String → String → Bool) (n : String) : List SAttr → Option (List SAttr)
  | [] => none
  | a :: as => if nameEq a.name n then some as else (removeFirst nameEq n as).map (a :: ·)

/-- remove one attribute per match, in order; a failing `remove` aborts but keeps the removals done so far -/
def removeAll (nameEq : String → String → Bool) : List SAttr → List SAttr → List SAttr × Bool
  | [], attrs => (attrs, true)
  | m :: ms, attrs =>
    match removeFirst nameEq m.name attrs with
    | none => (attrs, false)
    | some attrs' => removeAll nameEq ms attrs'

/-- the update of one earlier signature when entity `e` is added -/
def rewriteSig (nameEq : String → String → Bool) (e : Sig) (s : Sig) : Sig :=
  let matches_ := s.all.filter (fun a => nameEq a.name e.name)
  if matches_ = [] then s
  else
    let (attrs', ok) := removeAll nameEq matches_ s.attrs
    if ok then { s with attrs := attrs' ++ e.getKeys } else { s with attrs := attrs' }

def addSignature (nameEq : String → String → Bool) (table : List Sig) (e : Sig) : List Sig :=
  if table.any (fun s => nameEq s.name e.name) then table
  else table.map (rewriteSig nameEq e) ++ [e]

/-- flat arity reported by `get_symbols` (`len(Symbol.attributes)`) -/
def flatArity (s : Sig) : Nat := s.getKeys.length + s.getAttributes.length

/-- arity of the atom `convert_entity` emits for an instance of the signature -/
def atomArity (s : Sig) : Nat := s.all.length

/-- `Symbol.get_arity(print_with_functions=True)`: size of the set of own attribute names and foreign
concept names -/
def fnKey (self : String) (a : SAttr) : String :=
  match a.origin with
  | [] => a.name
  | h :: _ => if h = self then a.name else h

def dedup (l : List String) : List String := l.foldl (fun acc x => if acc.contains x then acc else acc ++ [x]) []

def fnArity (s : Sig) : Nat :=
  let reported := s.getKeys ++ s.getAttributes
  (dedup (reported.map (fnKey s.name))).length

/-- number of top-level arguments the function-mode printer produces for an instance -/
def printedFnArity (nameEq : String → String → Bool) (s : Sig) : Nat :=
  let attrs : List Attr := s.all.map fun a => ⟨a.name, "_", a.origin⟩
  (group nameEq (measure attrs) s.name attrs).length

end Cnl2aspModel.Signatures
