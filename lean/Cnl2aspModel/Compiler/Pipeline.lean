/-
Sentence-by-sentence compilation (C10).

The pipeline is modelled as a machine over
  ε  — the environment that legitimately persists between sentences: the signature table, the declared
       constants, the temporal concepts whose facts were already emitted;
  κ  — the scratch state of the sentence / rule being processed
       (parser: _proposition, _delayed_operations, _defined_variables;
        converter: _atoms_in_current_rule, _created_fields, _forbidden_links, _aggregates, _operations).
What a sentence does with (ε, κ) is ABSTRACT (`raw`, any function).  The code resets κ at every sentence
boundary (`_clear`, `clear_support_variables`): `Machine.reset` is that reset.  The theorems hold for every
`raw`; the correspondence (monitors of harness/props/c10.py) checks on the real objects that κ equals its initial
value at every boundary and that ε's signatures carry no per-occurrence marks.
-/
namespace Cnl2aspModel.Pipeline

structure Machine (ε κ Sent Rule : Type) where
  k0 : κ
  /-- one sentence: new environment, scratch as the sentence leaves it, rules emitted -/
  raw : ε → κ → Sent → ε × κ × List Rule
  /-- what the boundary callbacks do to the scratch state -/
  reset : κ → κ

variable {ε κ Sent Rule : Type}

/-- the implementation: scratch is carried from sentence to sentence through `reset` -/
def implRun (m : Machine ε κ Sent Rule) : ε → κ → List Sent → ε × κ × List Rule
  | e, k, [] => (e, k, [])
  | e, k, s :: ss =>
    let (e1, k1, rs) := m.raw e k s
    let (e2, k2, rs') := implRun m e1 (m.reset k1) ss
    (e2, k2, rs ++ rs')

/-- the specification: each sentence is compiled from the environment alone -/
def sent1 (m : Machine ε κ Sent Rule) (e : ε) (s : Sent) : ε × List Rule :=
  let (e1, _, rs) := m.raw e m.k0 s
  (e1, rs)

def envAfter (m : Machine ε κ Sent Rule) : ε → List Sent → ε
  | e, [] => e
  | e, s :: ss => envAfter m (sent1 m e s).1 ss

def rules (m : Machine ε κ Sent Rule) : ε → List Sent → List Rule
  | _, [] => []
  | e, s :: ss => (sent1 m e s).2 ++ rules m (sent1 m e s).1 ss

/-- the reset really resets: at every boundary the scratch state is the initial one -/
def ResetsAtBoundary (m : Machine ε κ Sent Rule) : Prop := ∀ k, m.reset k = m.k0

end Cnl2aspModel.Pipeline
