/-
Model of temporal concepts (C16).

Transcribes
  entity_component.py  TemporalEntityComponent._compute_values / get_temporal_value_id
  asp_converter.py     convert_temporal_entity (one fact per (value, id))
  parser.py            temporal_constraint / ORDERING_OPERATOR (comparison against the id of V)

Python's `datetime.strptime / strftime / timedelta` are *modelled* (trusted base): times are minutes
since midnight, dates are (y, m, d) triples with the Gregorian month lengths; the correspondence
check compares the model with the real `datetime` on every run.
-/
namespace Cnl2aspModel.TemporalRange

/-! ### the enumeration loop shared by the three kinds (integers: minutes, ordinals, steps) -/

/-- `start += L; while start <= end: record; start += L` — the loop of `_compute_values`, after the
first point has been recorded with id 0.  `s` is the current point, `c` the next id. -/
def loop (l e : Nat) (hl : 0 < l) (s c : Nat) : List (Nat × Nat) :=
  if _h : s ≤ e then (s, c) :: loop l e hl (s + l) (c + 1) else []
termination_by e + 1 - s
decreasing_by omega

/-- all points of a range, with their ids: the first point always, then the loop -/
def points (a b l : Nat) (hl : 0 < l) : List (Nat × Nat) :=
  (a, 0) :: loop l b hl (a + l) 1

/-! ### minutes: `%I:%M %p` -/

def digit (n : Nat) : Char := Char.ofNat (48 + n % 10)

def pad2 (n : Nat) : List Char := [digit (n / 10), digit n]

/-- `strftime('%I:%M %p')` of minute `m` of the day (m < 1440) -/
def fmtTime (m : Nat) : List Char :=
  let h := m / 60
  let h12 := if h % 12 = 0 then 12 else h % 12
  pad2 h12 ++ [':'] ++ pad2 (m % 60) ++ [' ', if h < 12 then 'A' else 'P', 'M']

def digitVal? (c : Char) : Option Nat :=
  if '0' ≤ c ∧ c ≤ '9' then some (c.toNat - 48) else none

/-- one or two decimal digits (what `%I`, `%M`, `%d`, `%m` accept) -/
def num12? : List Char → Option Nat
  | [a] => digitVal? a
  | [a, b] => do let x ← digitVal? a; let y ← digitVal? b; pure (10 * x + y)
  | _ => none

def splitOn (sep : Char) (s : List Char) : List (List Char) :=
  match s with
  | [] => [[]]
  | c :: cs =>
    match splitOn sep cs with
    | [] => [[c]]   -- unreachable
    | w :: ws => if c = sep then [] :: w :: ws else (c :: w) :: ws

def lowerChar (c : Char) : Char := if 'A' ≤ c ∧ c ≤ 'Z' then Char.ofNat (c.toNat + 32) else c

/-- `strptime(s, '%I:%M %p')` → minute of the day; `none` = ValueError.
Accepts one- or two-digit hour 1..12 and minute 0..59 and am/pm in any case (as CPython does). -/
def parseTime (s : List Char) : Option Nat :=
  match splitOn ' ' s with
  | [hm, ap] =>
    match splitOn ':' hm with
    | [h, m] => do
      let hh ← num12? h
      let mm ← num12? m
      if hh < 1 ∨ hh > 12 ∨ mm > 59 then none else
      match ap.map lowerChar with
      | ['a', 'm'] => some ((hh % 12) * 60 + mm)
      | ['p', 'm'] => some ((hh % 12 + 12) * 60 + mm)
      | _ => none
    | _ => none
  | _ => none

/-! ### days: `%d/%m/%Y` over a structural Gregorian calendar -/

structure Date where
  y : Nat
  m : Nat
  d : Nat
  deriving DecidableEq, Repr

def isLeap (y : Nat) : Bool := (y % 4 = 0 ∧ y % 100 ≠ 0) ∨ y % 400 = 0

def daysInMonth (y m : Nat) : Nat :=
  match m with
  | 2 => if isLeap y then 29 else 28
  | 4 | 6 | 9 | 11 => 30
  | _ => 31

def Date.Valid (t : Date) : Prop := 1 ≤ t.y ∧ 1 ≤ t.m ∧ t.m ≤ 12 ∧ 1 ≤ t.d ∧ t.d ≤ daysInMonth t.y t.m

instance (t : Date) : Decidable t.Valid := by unfold Date.Valid; infer_instance

def nextDay (t : Date) : Date :=
  if t.d < daysInMonth t.y t.m then { t with d := t.d + 1 }
  else if t.m < 12 then { t with m := t.m + 1, d := 1 }
  else { y := t.y + 1, m := 1, d := 1 }

/-- chronological order = lexicographic order on (y, m, d) -/
def Date.lt (a b : Date) : Prop := a.y < b.y ∨ (a.y = b.y ∧ (a.m < b.m ∨ (a.m = b.m ∧ a.d < b.d)))
def Date.le (a b : Date) : Prop := a = b ∨ a.lt b
instance (a b : Date) : Decidable (a.lt b) := by unfold Date.lt; infer_instance
instance (a b : Date) : Decidable (a.le b) := by unfold Date.le; infer_instance

def daysBeforeMonth (y m : Nat) : Nat :=
  match m with
  | 1 => 0 | 2 => 31
  | 3 => 59 + (if isLeap y then 1 else 0)
  | 4 => 90 + (if isLeap y then 1 else 0)
  | 5 => 120 + (if isLeap y then 1 else 0)
  | 6 => 151 + (if isLeap y then 1 else 0)
  | 7 => 181 + (if isLeap y then 1 else 0)
  | 8 => 212 + (if isLeap y then 1 else 0)
  | 9 => 243 + (if isLeap y then 1 else 0)
  | 10 => 273 + (if isLeap y then 1 else 0)
  | 11 => 304 + (if isLeap y then 1 else 0)
  | _ => 334 + (if isLeap y then 1 else 0)

/-- days before 1 January of year y+1 (CPython's `_days_before_year(y+1)`) -/
def ybase (y : Nat) : Nat := y * 365 + y / 4 - y / 100 + y / 400

/-- CPython's `date.toordinal()` -/
def toOrd (t : Date) : Nat := ybase (t.y - 1) + daysBeforeMonth t.y t.m + t.d

def addDays : Nat → Date → Date
  | 0, t => t
  | n + 1, t => addDays n (nextDay t)

def pad4 (n : Nat) : List Char := [digit (n / 1000), digit (n / 100), digit (n / 10), digit n]

/-- `strftime('%d/%m/%Y')` (years 1000..9999: glibc does not pad smaller years) -/
def fmtDate (t : Date) : List Char := pad2 t.d ++ ['/'] ++ pad2 t.m ++ ['/'] ++ pad4 t.y

def numN? (s : List Char) : Option Nat :=
  s.foldl (fun acc c => do let a ← acc; let v ← digitVal? c; pure (10 * a + v)) (some 0)

/-- `strptime(s, '%d/%m/%Y')`: day and month one or two digits, year exactly four digits -/
def parseDate (s : List Char) : Option Date :=
  match splitOn '/' s with
  | [d, m, y] => do
    let dd ← num12? d
    let mm ← num12? m
    if y.length ≠ 4 then none else
    let yy ← numN? y
    let t : Date := ⟨yy, mm, dd⟩
    if t.Valid then some t else none
  | _ => none

/-- the date loop of `_compute_values` (fuel-bounded; the harness passes fuel ≥ number of days) -/
def dateLoop (l : Nat) (e : Date) : Nat → Date → Nat → List (Date × Nat)
  | 0, _, _ => []
  | fuel + 1, s, c => if s.le e then (s, c) :: dateLoop l e fuel (addDays l s) (c + 1) else []

def datePoints (a b : Date) (l fuel : Nat) : List (Date × Nat) :=
  (a, 0) :: dateLoop l b fuel (addDays l a) 1

/-! ### the dictionary and the three kinds -/

inductive Kind where
  | time | date | step
  deriving DecidableEq, Repr

/-- `elements[key] = id` on an insertion-ordered dict: overwrite keeps the first position -/
def dictSet (d : List (List Char × Nat)) (k : List Char) (v : Nat) : List (List Char × Nat) :=
  if d.any (fun p => p.1 = k) then d.map (fun p => if p.1 = k then (k, v) else p) else d ++ [(k, v)]

def dictOf (kvs : List (List Char × Nat)) : List (List Char × Nat) :=
  kvs.foldl (fun d p => dictSet d p.1 p.2) []

def natChars (n : Nat) : List Char := (toString n).toList

/-- `_compute_values`: `none` = the exception "entity type do not match".
For steps the grammar gives no length (`l` is ignored, as the code ignores it). -/
def computeValues (k : Kind) (a b : List Char) (l : Nat) (hl : 0 < l) : Option (List (List Char × Nat)) :=
  match k with
  | .time => do
    let s ← parseTime a
    let e ← parseTime b
    pure (dictOf ((points s e l hl).map fun p => (fmtTime p.1, p.2)))
  | .date => do
    let s ← parseDate a
    let e ← parseDate b
    pure (dictOf ((datePoints s e l (toOrd e + 2 - toOrd s)).map fun p => (fmtDate p.1, p.2)))
  | .step => do
    let s ← numN? a
    let e ← numN? b
    if a = [] ∨ b = [] then none else
    pure (dictOf ((points s e 1 (by decide)).map fun p => (natChars p.1, p.2)))

/-- `get_temporal_value_id` -/
def valueId (vals : List (List Char × Nat)) (v : List Char) : Option Nat := vals.lookup v

end Cnl2aspModel.TemporalRange
