/-
Key-driven linking of two atoms (C08).

Transcribes
  attribute_component.py  AttributeOrigin.__eq__ (`originEq`), is_same_origin (`isSameOrigin`)
  asp_atom.py             get_attributes_list[_by_name[_and_origin]], has_attribute, set_attributes_value
  asp_attribute.py        ASPAttribute.__eq__ (name and value)
  asp_converter.py        _link_atom_to_attribute, _link_two_atoms
Attributes are addressed by position (the code's object identity).  `nameEq` is NameComponent.__eq__ on the names inside
origins (parameter); tgt names themselves are plain strings.  Fresh variables come from a supply (any namer whose
results are new; C07 proves that of the real one): the model uses `fresh k`.
-/
namespace Cnl2aspModel.Link

abbrev Chain := List String

structure Attr where
  name : String
  value : String
  origin : Option Chain        -- none = Python None; some c with c ≠ []
  deriving DecidableEq, Repr

structure Atom where
  name : String
  attrs : List Attr
  deriving DecidableEq, Repr

def isNull (a : Attr) : Bool := a.value == "_"

/-- AttributeOrigin.__eq__ : element-wise equality of the chains -/
def originEq (nameEq : String → String → Bool) : Chain → Chain → Bool
  | [], [] => true
  | a :: as, b :: bs => nameEq a b && originEq nameEq as bs
  | _, _ => false

def isSameOrigin (nameEq : String → String → Bool) : Option Chain → Option Chain → Bool
  | none, none => true
  | some _, none => false
  | none, some _ => false
  | some c1, some c2 =>
    originEq nameEq c1 c2 || (c1.tail ≠ [] && originEq nameEq c1.tail c2) || (c2.tail ≠ [] && originEq nameEq c2.tail c1)

/-- the innermost concept of an origin -/
def leaf : Option Chain → Option String
  | none => none
  | some c => c.getLast?

/-- ASPAttribute.__eq__ -/
def attrEq (a b : Attr) : Bool := a.name == b.name && a.value == b.value

def hasAttribute (at_ : Atom) (x : Attr) : Bool := at_.attrs.any (attrEq x)

/-- `set_attributes_value([ASPAttribute(name, v, origin)])`: the FIRST null tgt with that name and a compatible
origin receives the value.  Returns the new tgt list and the position written (if any). -/
def setFirstNull (nameEq : String → String → Bool) (name : String) (origin : Option Chain) (v : String) :
    List Attr → List Attr × Option Nat
  | [] => ([], none)
  | a :: as =>
    if a.name == name && isSameOrigin nameEq a.origin origin && isNull a then ({ a with value := v } :: as, some 0)
    else
      let (as', p) := setFirstNull nameEq name origin v as
      (a :: as', p.map (· + 1))

def fresh (k : Nat) : String := "F" ++ toString k

structure St where
  a1 : Atom                    -- the atom whose attributes are searched (`atom_1` of _link_atom_to_attribute)
  a2 : Atom                    -- the atom that owns `tgt`
  forbidden : List Attr        -- the forbidden links handed in (converted copies, never mutated)
  refs : List (Bool × Nat)     -- the linked attribute OBJECTS: (true, i) = position i of a1, (false, j) = position j of a2;
                               -- the list holds references, so later writes to those positions are seen through it
  supply : Nat
  deriving Repr

def deref (st : St) (r : Bool × Nat) : Option Attr := if r.1 then st.a1.attrs[r.2]? else st.a2.attrs[r.2]?

/-- `x in linked_attributes` (ASPAttribute.__eq__ on the current values of the referenced objects) -/
def inLinked (st : St) (x : Attr) : Bool :=
  st.forbidden.any (attrEq x) || st.refs.any fun r => ((deref st r).map (attrEq x)).getD false

/-- one candidate `atom_1_attribute` (position i of a1) against `tgt` (position j of a2).
Returns the new state and whether the loop breaks. -/
def tryLink (nameEq : String → String → Bool) (st : St) (i j : Nat) : St × Bool :=
  match st.a1.attrs[i]?, st.a2.attrs[j]? with
  | some x, some tgt =>
    if (!isNull x && hasAttribute st.a2 x) || (!isNull tgt && hasAttribute st.a1 tgt) then (st, false)
    else if inLinked st x then (st, false)
    else if isSameOrigin nameEq x.origin tgt.origin then
      let st := { st with supply := st.supply + 1 }          -- the namer is called before it is known whether the name is used
      if !isNull tgt && !isNull x then (st, false)
      else
        let v := if !isNull x then x.value else if !isNull tgt then tgt.value else fresh (st.supply - 1)
        let (attrs1, _) := setFirstNull nameEq tgt.name tgt.origin v st.a1.attrs
        let tgt' : Attr := { tgt with value := v }
        let attrs2 := st.a2.attrs.set j tgt'
        ({ st with a1 := { st.a1 with attrs := attrs1 }, a2 := { st.a2 with attrs := attrs2 },
                   refs := st.refs ++ [(false, j), (true, i)] }, true)
    else (st, false)
  | _, _ => (st, false)

/-- `_link_atom_to_attribute(atom_1, tgt, atom_2, linked)`: candidates are the attributes of atom_1 with the
tgt's NAME (origin is tested inside) -/
def linkAtomToAttribute (nameEq : String → String → Bool) (st : St) (j : Nat) : St :=
  match st.a2.attrs[j]? with
  | none => st
  | some tgt =>
    let cands := (List.range st.a1.attrs.length).filter fun i => (st.a1.attrs[i]?.map (·.name == tgt.name)).getD false
    let rec go (st : St) : List Nat → St
      | [] => st
      | i :: is =>
        let (st', brk) := tryLink nameEq st i j
        if brk then st' else go st' is
    go st cands

def swap (st : St) : St := { st with a1 := st.a2, a2 := st.a1, refs := st.refs.map fun r => (!r.1, r.2) }

/-- positions of `at_` holding a key of the entity: name and origin as the key says -/
def keyPositions (nameEq : String → String → Bool) (at_ : Atom) (keys : List (String × Option Chain)) : List Nat :=
  keys.flatMap fun k => (List.range at_.attrs.length).filter fun i =>
    (at_.attrs[i]?.map fun a => a.name == k.1 && isSameOrigin nameEq a.origin k.2).getD false

/-- `_link_two_atoms(entity_1, entity_2, atom_1, atom_2, forbidden_links)` -/
def linkTwoAtoms (nameEq : String → String → Bool) (atom1 atom2 : Atom) (keys1 keys2 : List (String × Option Chain))
    (forbidden : List Attr) (supply : Nat) : St :=
  -- first loop: keys of entity_1 (positions of atom_1) are linked INTO atom_2
  let st0 : St := ⟨atom2, atom1, forbidden, [], supply⟩
  let st1 := (keyPositions nameEq atom1 keys1).foldl (fun st j => linkAtomToAttribute nameEq st j) st0
  -- second loop: keys of entity_2 that are not yet linked are linked INTO atom_1
  let st2 := swap st1
  let st3 := (keyPositions nameEq atom2 keys2).foldl
    (fun st j => match st.a2.attrs[j]? with
      | some k => if inLinked st k then st else linkAtomToAttribute nameEq st j
      | none => st) st2
  swap st3    -- a1 := atom_2, a2 := atom_1 again … returned as (a1 = atom_2', a2 = atom_1')

end Cnl2aspModel.Link
