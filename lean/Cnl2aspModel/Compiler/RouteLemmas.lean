/- Helper lemmas for C11. -/
import Cnl2aspModel.Compiler.Route

namespace Cnl2aspModel.Route

theorem tagLines_append (a b : List Line) : ∀ t, tagLines t (a ++ b) = tagLines t a ++ tagLines (endTag t a) b := by
  induction a with
  | nil => intro t; simp [tagLines, endTag]
  | cons l ls ih =>
    intro t
    cases l with
    | directive n => simp [tagLines, endTag, ih]
    | rule r => simp [tagLines, endTag, ih]

theorem endTag_append (a b : List Line) : ∀ t, endTag t (a ++ b) = endTag (endTag t a) b := by
  induction a with
  | nil => intro t; simp [endTag]
  | cons l ls ih =>
    intro t
    cases l with
    | directive n => simp [endTag, ih]
    | rule r => simp [endTag, ih]

theorem tagLines_rules (rs : List Rule) (t : Option String) :
    tagLines t (rs.map Line.rule) = rs.map (fun r => (t, r)) := by
  induction rs with
  | nil => rfl
  | cons r rs ih => simp [tagLines, ih]

theorem endTag_rules (rs : List Rule) (t : Option String) : endTag t (rs.map Line.rule) = t := by
  induction rs with
  | nil => rfl
  | cons r rs ih => simp [endTag, ih]

def outOf (st : State) : List Line := emit st.done ++ emitProblem st.cur

theorem emit_append (a b : List Problem) : emit (a ++ b) = emit a ++ emit b := by
  simp [emit, List.flatMap_append]

theorem emit_single (p : Problem) : emit [p] = emitProblem p := by simp [emit]

theorem run_eq (es : List Event) : emit (run es) = outOf (es.foldl step init) := by
  simp [run, outOf, emit_append, emit_single]

/-- the tag in force after the event, in the reference reading -/
def tagAfter (t : Option String) : Event → Option String
  | .header h => partName h
  | _ => t

def refOne (t : Option String) : Event → List (Option String × Rule)
  | .sent rs => rs.map (fun r => (t, r))
  | _ => []

theorem refTagged_cons (t : Option String) (e : Event) (es : List Event) :
    refTagged t (e :: es) = refOne t e ++ refTagged (tagAfter t e) es := by
  cases e <;> simp [refTagged, refOne, tagAfter]

/-- one step of the transformer against one step of the reference reading -/
theorem step_spec (st : State) (e : Event) (t0 : Option String)
    (hh : ∀ h, e = .header h → (partName h).isSome) :
    tagLines t0 (outOf (step st e)) = tagLines t0 (outOf st) ++ refOne (endTag t0 (outOf st)) e ∧
    endTag t0 (outOf (step st e)) = tagAfter (endTag t0 (outOf st)) e := by
  cases e with
  | sent rs =>
    have e1 : outOf (step st (.sent rs)) = outOf st ++ rs.map Line.rule := by
      simp [outOf, step, emitProblem, List.map_append, List.append_assoc]
    rw [e1, tagLines_append, endTag_append, tagLines_rules, endTag_rules]
    exact ⟨rfl, rfl⟩
  | split =>
    have e1 : outOf (step st .split) = outOf st := by
      simp [outOf, step, emit_append, emit_single, emitProblem]
    rw [e1]; simp [refOne, tagAfter]
  | header h =>
    obtain ⟨n, hn⟩ := Option.isSome_iff_exists.mp (hh h rfl)
    by_cases hc : st.cur.rules ≠ []
    · have e1 : outOf (step st (.header h)) = outOf st ++ [Line.directive n] := by
        simp [outOf, step, hc, emit_append, emit_single, emitProblem, hn]
      rw [e1, tagLines_append, endTag_append]
      simp [tagLines, endTag, refOne, tagAfter, hn]
    · have hc' : st.cur.rules = [] := by simpa using hc
      have e1 : outOf (step st (.header h)) = emit st.done ++ [Line.directive n] := by
        simp [outOf, step, hc', emitProblem, hn]
      have e2 : outOf st = emit st.done ++ (match st.cur.name with | some m => [Line.directive m] | none => []) := by
        simp only [outOf, emitProblem, hc', List.map_nil, List.append_nil]
        cases st.cur.name <;> rfl
      rw [e1, e2]
      constructor
      · rw [tagLines_append, tagLines_append]
        cases st.cur.name <;> simp [tagLines, refOne]
      · rw [endTag_append]
        simp [endTag, tagAfter, hn]

theorem fold_spec (es : List Event) : ∀ (st : State) (t0 : Option String),
    (∀ h, .header h ∈ es → (partName h).isSome) →
    tagLines t0 (outOf (es.foldl step st)) = tagLines t0 (outOf st) ++ refTagged (endTag t0 (outOf st)) es := by
  induction es with
  | nil => intro st t0 _; simp [refTagged]
  | cons e es ih =>
    intro st t0 hh
    obtain ⟨h1, h2⟩ := step_spec st e t0 (fun h he => hh h (by rw [he]; simp))
    rw [List.foldl_cons, ih (step st e) t0 (fun h hm => hh h (List.mem_cons_of_mem _ hm)), h1, h2, refTagged_cons,
      List.append_assoc]

end Cnl2aspModel.Route
