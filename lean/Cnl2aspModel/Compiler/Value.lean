/-
Value classification and quoting (C06).

Transcribes asp_converter.py `convert_value` (and `convert_constant`) with Python's str.isnumeric / str.isupper /
str.isalpha on ASCII, and asp_rule.py's printing of choice bounds.
-/
namespace Cnl2aspModel.Value

def isDigit (c : Char) : Bool := '0' ≤ c ∧ c ≤ '9'
def isUpperC (c : Char) : Bool := 'A' ≤ c ∧ c ≤ 'Z'
def isLowerC (c : Char) : Bool := 'a' ≤ c ∧ c ≤ 'z'
def isAlnumU (c : Char) : Bool := isDigit c || isUpperC c || isLowerC c || c == '_'

/-- str.isnumeric() on ASCII: non-empty, all digits -/
def isNumeric (s : List Char) : Bool := !s.isEmpty && s.all isDigit
/-- str.isupper(): at least one cased character and no lower-case one -/
def isUpper (s : List Char) : Bool := s.any isUpperC && !s.any isLowerC

/-- `convert_value`: quote unless constant / null / number / upper-case -/
def convertValue (consts : List (List Char)) (v : List Char) : List Char :=
  if v.isEmpty then v
  else if !consts.contains v && v != ['_'] && !isNumeric v && !isUpper v then ['"'] ++ v ++ ['"']
  else v

/-- what the grammar's `string` / NUMBER / VARIABLE tokens deliver for a specification whose names are letter-initial
identifiers and whose numbers are integers -/
def FromGrammar (v : List Char) : Prop :=
  (isNumeric v = true) ∨                                                   -- an integer
  (∃ c cs, v = c :: cs ∧ (isUpperC c || isLowerC c) = true ∧ cs.all isAlnumU = true) ∨   -- a word / variable / label
  (v.all (fun c => isAlnumU c || c == ' ') = true ∧ v.any isLowerC = true)   -- quoted string content with a lower-case letter

/-- well-formed gringo terms of the simple kinds -/
def WFTerm (consts : List (List Char)) (t : List Char) : Prop :=
  isNumeric t = true ∨                                                                      -- number
  (∃ c cs, t = c :: cs ∧ isUpperC c = true ∧ cs.all isAlnumU = true) ∨                      -- variable
  t = ['_'] ∨                                                                               -- anonymous
  (∃ body, t = ['"'] ++ body ++ ['"'] ∧ body.all (fun c => c != '"' && c != '\\') = true) ∨  -- string
  (consts.contains t = true ∧ ∃ c cs, t = c :: cs ∧ isLowerC c = true ∧ cs.all isAlnumU = true)   -- declared constant

/-- `f'{lo + " <= " if lo else ""}{{…}}{" <= " + hi if hi else ""}'` with bounds as the parser delivers them (strings) -/
def printBounds (lo hi : Option (List Char)) (inner : List Char) : List Char :=
  (match lo with | some l => if l.isEmpty then [] else l ++ " <= ".toList | none => []) ++ ['{'] ++ inner ++ ['}'] ++
  (match hi with | some h => if h.isEmpty then [] else " <= ".toList ++ h | none => [])

end Cnl2aspModel.Value
