/-
Surface normalisers (C09): how concept and verb words are turned into predicate names.

Transcribes
  parser.py  simple_entity / standard_definition (`name.lower()`), verb (strip ONE final `s`, join the preposition with `_`,
             lower-case, `removesuffix('_to')` after a form of "to have")
on ASCII letters.
-/
namespace Cnl2aspModel.Surface

def lowerChar (c : Char) : Char := if 'A' ≤ c ∧ c ≤ 'Z' then Char.ofNat (c.toNat + 32) else c
def upperChar (c : Char) : Char := if 'a' ≤ c ∧ c ≤ 'z' then Char.ofNat (c.toNat - 32) else c

def lower (w : List Char) : List Char := w.map lowerChar

/-- `simple_entity`: the concept key of a word -/
def conceptKey (w : List Char) : List Char := lower w

/-- `elem[4][0:-1] if elem[4][-1] == 's' else elem[4]` -/
def stripS (w : List Char) : List Char := if w.getLast? = some 's' then w.dropLast else w

def removeSuffix (suf w : List Char) : List Char :=
  if suf.isSuffixOf w then w.take (w.length - suf.length) else w

/-- `verb`: the predicate name of a verb word with an optional preposition -/
def verbKey (w : List Char) (prep : Option (List Char)) (toHave : Bool) : List Char :=
  let base := stripS w
  let joined := match prep with
    | some p => base ++ ['_'] ++ p
    | none => base
  let name := lower joined
  if toHave then removeSuffix "_to".toList name else name

def capitalize : List Char → List Char
  | [] => []
  | c :: cs => upperChar c :: cs

end Cnl2aspModel.Surface
