/- Helper lemmas for C05. -/
import Cnl2aspModel.Compiler.Temporal

namespace Cnl2aspModel.Temporal
open Tel Generated

theorem upto_eq (i : Nat) : upto i = pastOf i := rfl
theorem fromTo_eq (σ : Trace) (i : Nat) : fromTo i σ.length = futureOf σ i := rfl

/-- leaves: the compiled leaf means what the CNL leaf says -/
theorem leaf_ok (σ : Trace) (l : Leaf) (f : F) (hc : compileLeaf l = some f) :
    ∀ i b, holdsLeaf σ l i = some b → eval σ f i = b := by
  intro i b hb
  cases l with
  | ent p a =>
    cases p <;> simp [compileLeaf] at hc
    subst hc
    simp [holdsLeaf] at hb
    simp [eval, hb]
  | const ph =>
    unfold holdsLeaf at hb
    split at hb <;> simp_all [compileLeaf, telingoConstantPhrases, List.lookup, constF] <;>
      (try subst hc) <;> simp_all [eval]

end Cnl2aspModel.Temporal

namespace Cnl2aspModel.Temporal
open Tel Generated

/-- dual operators: whatever the two sides are, the compiled connective means what the phrase says -/
theorem dual_ok (σ : Trace) (d : String) (p q : Pred) (m : Pred) (o : Op) (b : F → F → F) (f g : F)
    (hm : dualMeaning σ d p q = some m) (ho : dualOp d = some o) (hb : binaryOp o = some b)
    (hf : ∀ i, eval σ f i = p i) (hg : ∀ i, eval σ g i = q i) :
    ∀ i, eval σ (b f g) i = m i := by
  unfold dualMeaning at hm
  split at hm <;> simp at hm <;> subst hm <;>
    simp [dualOp, dualPhrases, List.lookup] at ho <;> subst ho <;>
    simp [binaryOp, telSymbol, binarySym] at hb <;> subst hb <;>
    intro i <;> simp [eval, hf, hg, upto_eq, fromTo_eq]

end Cnl2aspModel.Temporal

namespace Cnl2aspModel.Temporal
open Tel Generated

/-- operands (any nesting depth) -/
theorem operand_ok (σ : Trace) : ∀ (x : Operand) (f : F) (p : Pred),
    compileOperand x = some f → holdsOperand σ x = some p → ∀ i, eval σ f i = p i := by
  intro x
  induction x with
  | leaf l =>
    intro f p hc hh i
    simp only [compileOperand] at hc
    simp only [holdsOperand] at hh
    split at hh
    · rename_i hs
      cases hh
      have : (holdsLeaf σ l i).isSome := by
        -- definedness of a leaf does not depend on the position
        cases l with
        | ent pf a => cases pf <;> simp_all [holdsLeaf]
        | const ph =>
          unfold holdsLeaf at hs ⊢
          split at hs <;> simp_all
      obtain ⟨b, hb⟩ := Option.isSome_iff_exists.mp this
      rw [leaf_ok σ l f hc i b hb]
      simp [hb]
    · cases hh
  | dual l d r ih =>
    intro f p hc hh i
    simp only [compileOperand] at hc
    simp only [holdsOperand] at hh
    cases ho : dualOp d with
    | none => simp [ho] at hc
    | some o =>
      cases hb : binaryOp o with
      | none => simp [ho, hb] at hc
      | some b =>
        cases hl : compileLeaf l with
        | none => simp [ho, hl] at hc
        | some fl =>
          cases hr : compileOperand r with
          | none => simp [ho, hl, hr] at hc
          | some fr =>
            simp [ho, hb, hl, hr] at hc
            subst hc
            cases h0 : holdsLeaf σ l 0 with
            | none => simp [h0] at hh
            | some b0 =>
              cases hq : holdsOperand σ r with
              | none => simp [h0, hq] at hh
              | some q =>
                simp [h0, hq] at hh
                have hfl : ∀ j, eval σ fl j = (holdsLeaf σ l j).getD false := by
                  intro j
                  have : (holdsLeaf σ l j).isSome := by
                    cases l with
                    | ent pf a => cases pf <;> simp_all [holdsLeaf]
                    | const ph =>
                      unfold holdsLeaf at h0 ⊢
                      split at h0 <;> simp_all
                  obtain ⟨bj, hbj⟩ := Option.isSome_iff_exists.mp this
                  rw [leaf_ok σ l fl hl j bj hbj]
                  simp [hbj]
                exact dual_ok σ d _ q p o b fl fr hh ho hb hfl (ih fr q hr hq) i

end Cnl2aspModel.Temporal

namespace Cnl2aspModel.Temporal
open Tel Generated

/-- one `there is …`: the leading / hold operators (with the `since before/after` shift) mean what they say -/
theorem core_ok (σ : Trace) (c : Core) (f : F) (p : Pred)
    (hc : compileCore c = some f) (hh : holdsCore σ c = some p) :
    ∀ i, eval σ (shift c f) i = p i := by
  obtain ⟨neg, lead, operand, hold⟩ := c
  simp only [holdsCore] at hh
  cases ho : holdsOperand σ operand with
  | none => simp [ho] at hh
  | some p0 =>
    simp only [ho, Option.bind_eq_bind, Option.bind_some] at hh
    simp only [compileCore] at hc
    cases hf : compileOperand operand with
    | none => simp [hf] at hc
    | some f0 =>
      have h0 := operand_ok σ operand f0 p0 hf ho
      simp only [hf, Option.bind_eq_bind, Option.bind_some] at hc
      unfold modality at hh
      split at hh <;> simp at hh <;> subst hh <;>
        simp [opOfName, combinedName, removeSince, upper, Lead.str, Op.all, Op.name, List.find?, unaryOp, telSymbol, unarySym] at hc <;>
        subst hc <;> intro i <;>
        simp [shift, eval, h0, upto_eq, fromTo_eq, pastOf, futureOf]

end Cnl2aspModel.Temporal

namespace Cnl2aspModel.Temporal
open Tel Generated

theorem shift_id (c : Core) (f : F) (h1 : ∀ b, c.hold ≠ some (b, .sinceBefore)) (h2 : ∀ b, c.hold ≠ some (b, .sinceAfter)) :
    shift c f = f := by
  unfold shift
  split
  · rename_i b hb; exact absurd hb (h1 b)
  · rename_i b hb; exact absurd hb (h2 b)
  · rfl

/-- whole operations, with tails of any length -/
theorem body_ok (σ : Trace) : ∀ (t : TOp) (f : F) (p : Pred),
    compileBody t = some f → holdsBody σ t = some p → ∀ i, eval σ f i = p i := by
  intro t
  induction t with
  | single c =>
    intro f p hc hh
    simp only [compileBody] at hc
    simp only [holdsBody] at hh
    cases hcc : compileCore c with
    | none => simp [hcc] at hc
    | some f0 =>
      simp [hcc] at hc
      subst hc
      exact core_ok σ c f0 p hcc hh
  | chain c d rest ih =>
    intro f p hc hh
    simp only [compileBody] at hc
    simp only [holdsBody] at hh
    cases hcc : compileCore c with
    | none => simp [hcc] at hc
    | some f0 =>
      cases ho : dualOp d with
      | none => simp [hcc, ho] at hc
      | some o =>
        cases hb : binaryOp o with
        | none => simp [hcc, ho, hb] at hc
        | some b =>
          cases hr : compileBody rest with
          | none => simp [hcc, ho, hr] at hc
          | some g =>
            simp [hcc, ho, hb, hr] at hc
            subst hc
            -- the reference reading admits a tail only without a shift on the head
            split at hh
            · cases hh
            · cases hh
            · rename_i hns1 hns2
              cases hp : holdsCore σ c with
              | none => simp [hp] at hh
              | some p0 =>
                simp only [hp, Option.bind_eq_bind, Option.bind_some] at hh
                by_cases hn : topNeg rest = true
                · simp [hn] at hh
                · simp only [hn, Bool.false_eq_true, if_false] at hh
                  cases hq : holdsBody σ rest with
                  | none => simp [hq] at hh
                  | some q =>
                    simp only [hq, Option.bind_some] at hh
                    have hsh : ∀ x, shift c x = x := fun x =>
                      shift_id c x (fun b hb' => hns1 b hb') (fun b hb' => hns2 b hb')
                    have h0 : ∀ i, eval σ f0 i = p0 i := by
                      intro i
                      have := core_ok σ c f0 p0 hcc hp i
                      rwa [hsh] at this
                    rw [hsh]
                    exact dual_ok σ d p0 q p o b f0 g hh ho hb h0 (ih g q hr hq)

end Cnl2aspModel.Temporal
