/-
The public API as a state machine over the process-wide state (C12).

Transcribes cnl2asp.py: Cnl2asp.parse_input / compile / get_symbols / check_syntax / cnl_to_json with respect to
  SignatureManager.signatures   (process-wide table; emptied at the start of parse_input and of compile, and at the end of get_symbols)
  Utility.AUTO_ENTITY_LINK      (process-wide flag; set by compile for the duration of the call and restored afterwards; read while parsing)
The front end (Lark + CNLTransformer), the converters and the printers are ABSTRACT: they are parameters of the
model, so the theorems hold whatever parsing and conversion do, as long as they are functions of their arguments
(frame conditions checked on the real code by the monitors of harness/props/c12.py).
-/
namespace Cnl2aspModel.Api

/-- the abstract components: σ = signature table, ρ = parse result (specification or error) -/
structure Front (σ ρ Out : Type) where
  empty : σ
  /-- parsing a text with a given table and auto-link flag: new table and result -/
  parse : σ → String → Bool → σ × ρ
  /-- ASP conversion + printing (print option is an argument) -/
  toAsp : ρ → Bool → Out
  symbols : σ → ρ → Out
  valid : ρ → Out
  toJson : σ → ρ → Out

structure G (σ : Type) where
  sigs : σ
  autoLink : Bool

inductive Call where
  | compile (text : String) (autoLink : Bool) (printFn : Bool)
  | getSymbols (text : String)
  | checkSyntax (text : String)
  | cnlToJson (text : String)
  deriving Repr, DecidableEq

variable {σ ρ Out : Type}

/-- `parse_input`: the table is emptied first -/
def parseInput (F : Front σ ρ Out) (g : G σ) (text : String) : G σ × ρ :=
  let (s', r) := F.parse F.empty text g.autoLink
  ({ g with sigs := s' }, r)

def step (F : Front σ ρ Out) (g : G σ) : Call → G σ × Out
  | .compile text al pf =>
    let g1 : G σ := { sigs := F.empty, autoLink := al }
    let (g2, r) := parseInput F g1 text
    ({ g2 with autoLink := g.autoLink }, F.toAsp r pf)          -- the option is in force during the call only
  | .getSymbols text =>
    let g1 : G σ := { sigs := F.empty, autoLink := true }
    let (g2, r) := parseInput F g1 text
    ({ sigs := F.empty, autoLink := g.autoLink }, F.symbols g2.sigs r)
  | .checkSyntax text =>
    let (g2, r) := parseInput F g text
    (g2, F.valid r)
  | .cnlToJson text =>
    let (g2, r) := parseInput F g text
    (g2, F.toJson g2.sigs r)

def run (F : Front σ ρ Out) (g : G σ) : List Call → G σ
  | [] => g
  | c :: cs => run F (step F g c).1 cs

end Cnl2aspModel.Api
