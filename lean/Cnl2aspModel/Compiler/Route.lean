/-
Routing of rules to program parts (C11).

Transcribes
  parser.py        PROBLEM_IDENTIFIER (close the non-empty current problem, name the new one),
                   specification (push the current problem, start an unnamed one), start (push the last one)
  asp_converter.py convert_specification / convert_problem (problems converted in order)
  asp_program.py   ASPProgram.__str__ (directive iff the part is named), asp_encoding.py (parts in order)
over the regenerated header table `problemIdentifierPhrases`.
How Lark splits a block into several `specification` nodes is ambiguous; the model therefore
admits a `split` event anywhere and the theorems show that splits are invisible.
-/
import Cnl2aspModel.Generated.Tables

namespace Cnl2aspModel.Route
open Generated

abbrev Rule := String

inductive Event where
  | header (phrase : String)
  | sent (rules : List Rule)       -- a sentence and the rules it emits ([] for declarations / constants)
  | split                          -- end of a `specification` node
  deriving Repr, DecidableEq

structure Problem where
  name : Option String
  rules : List Rule
  deriving Repr, DecidableEq

structure State where
  done : List Problem
  cur : Problem
  deriving Repr

def init : State := ⟨[], ⟨none, []⟩⟩

/-- callback table lookup (PROBLEM_IDENTIFIER) -/
def partName (phrase : String) : Option String :=
  match problemIdentifierPhrases.lookup phrase with
  | some n => n
  | none => none

def step (st : State) : Event → State
  | .sent rs => { st with cur := { st.cur with rules := st.cur.rules ++ rs } }
  | .header h =>
      if st.cur.rules ≠ [] then ⟨st.done ++ [st.cur], ⟨partName h, []⟩⟩
      else { st with cur := { st.cur with name := partName h } }
  | .split => ⟨st.done ++ [st.cur], ⟨none, []⟩⟩

def run (es : List Event) : List Problem :=
  let st := es.foldl step init
  st.done ++ [st.cur]

inductive Line where
  | directive (part : String)
  | rule (r : Rule)
  deriving Repr, DecidableEq

def emitProblem (p : Problem) : List Line :=
  (match p.name with | some n => [Line.directive n] | none => []) ++ p.rules.map Line.rule

def emit (ps : List Problem) : List Line := ps.flatMap emitProblem

/-- each rule of an output, tagged with the directive in force where it stands -/
def tagLines : Option String → List Line → List (Option String × Rule)
  | _, [] => []
  | _, .directive n :: ls => tagLines (some n) ls
  | t, .rule r :: ls => (t, r) :: tagLines t ls

/-- the directive in force after an output -/
def endTag : Option String → List Line → Option String
  | t, [] => t
  | _, .directive n :: ls => endTag (some n) ls
  | t, .rule _ :: ls => endTag t ls

/-- the reading of the document: every sentence's rules under the part of the last header before it -/
def refTagged : Option String → List Event → List (Option String × Rule)
  | _, [] => []
  | _, .header h :: es => refTagged (partName h) es
  | t, .sent rs :: es => rs.map (fun r => (t, r)) ++ refTagged t es
  | t, .split :: es => refTagged t es

def rulesOf (ls : List Line) : List Rule := ls.filterMap fun | .rule r => some r | .directive _ => none

def dropHeaders (es : List Event) : List Event := es.filter fun | .header _ => false | _ => true

end Cnl2aspModel.Route
