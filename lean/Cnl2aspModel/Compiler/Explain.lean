/-
Explanation sentences (C15): the pure string layer.

Transcribes clingo_result_parser.py
  _entity_printer(symbol_name, attributes)     one attribute: its bare value; several: `with <label> equal to <value>, …`
  _convert_verb                                 copula normalisation ("is " / "has " / "")
  the final capitalisation of _clingo_symbol_to_sentence (first letter only, after the repair of F9)
How an atom's arguments are distributed over subject / entity / objects (the matching against the specification's
subject and object entities) is NOT modelled here; it is checked on the real code by harness/props/c15.py.
-/
namespace Cnl2aspModel.Explain

def upperChar (c : Char) : Char := if 'a' ≤ c ∧ c ≤ 'z' then Char.ofNat (c.toNat - 32) else c

/-- `sentence[:1].upper() + sentence[1:]` -/
def capFirst : List Char → List Char
  | [] => []
  | c :: cs => upperChar c :: cs

def stripSpaces (s : List Char) : List Char :=
  ((s.dropWhile (· = ' ')).reverse.dropWhile (· = ' ')).reverse

def removePrefix (p s : List Char) : List Char := if p.isPrefixOf s then s.drop p.length else s

def replaceUnderscore (s : List Char) : List Char := s.map fun c => if c = '_' then ' ' else c

/-- one `with <label> equal to <value>, ` item -/
def kWith : List Char := "with ".toList
def kEq : List Char := " equal to ".toList
def kSep : List Char := ", ".toList

def item (symbol : List Char) (a : List Char × List Char) : List Char :=
  kWith ++ stripSpaces (removePrefix symbol a.1) ++ kEq ++ a.2 ++ kSep

def removeSuffix (suf s : List Char) : List Char := if suf.isSuffixOf s then s.take (s.length - suf.length) else s

/-- `_entity_printer`: attributes are (label as `str(attribute)` prints it, value) -/
def entityPrinter (symbol : List Char) (attrs : List (List Char × List Char)) : List Char :=
  let body := match attrs with
    | [a] => a.2
    | _ => removeSuffix kSep (attrs.flatMap (item symbol))
  stripSpaces (replaceUnderscore symbol ++ [' '] ++ body)

def convertVerb (v : String) : String :=
  if ["be ", "be a ", "be an ", "are ", "are a ", "are an ", "is ", "is a ", "is an "].contains v then "is "
  else if ["have ", "have a ", "have an ", "has ", "has a ", "has an "].contains v then "has "
  else ""

end Cnl2aspModel.Explain
