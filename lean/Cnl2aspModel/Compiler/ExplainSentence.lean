/-
Explanation sentences (C15): the sentence-construction layer.

Transcribes clingo_result_parser.py
  _parse_clingo_symbol          the atom's arguments become the values of the signature's keys ++ attributes, by position
  _convert_attribute_to_entity  the attributes of the atom that match a (not yet used) key of the subject / object entity are
                                printed with that entity and removed from the atom
  _convert_subject              one subject: that one; none: "There"; several: the first whose matching attributes select a
                                declared entity (parameter `pick`, decided by the specification's facts)
  _clingo_symbol_to_sentence    subject, verb, the remaining attributes of the atom, the objects
`str(attribute)` labels are given by the harness (they involve NameComponent / AttributeOrigin printing only).
Names inside origins are compared with `nameEq` (NameComponent.__eq__, parameter), origins with `Link.isSameOrigin` (C08).
-/
import Cnl2aspModel.Compiler.Explain
import Cnl2aspModel.Compiler.Link

namespace Cnl2aspModel.ExplainS
open Explain

/-- an attribute: name, value, origin, and the label `str(attribute)` prints -/
structure Attr where
  name : String
  value : String
  origin : Option Link.Chain
  label : String
  deriving DecidableEq, Repr

structure Ent where
  name : String
  keys : List Attr
  attrs : List Attr
  deriving Repr

def Ent.all (e : Ent) : List Attr := e.keys ++ e.attrs

abbrev NameEq := String → String → Bool

/-- AttributeComponent.__eq__ : name and value -/
def attrEq (ne : NameEq) (a b : Attr) : Bool := ne a.name b.name && a.value == b.value

/-- `list.remove(x)`: the first element equal to `x`; `none` = ValueError -/
def removeFirst (ne : NameEq) (x : Attr) : List Attr → Option (List Attr)
  | [] => none
  | a :: as => if attrEq ne a x then some as else (removeFirst ne x as).map (a :: ·)

/-- `list.remove(x)` inside `try … except ValueError: pass` -/
def removeFirstD (ne : NameEq) (x : Attr) (l : List Attr) : List Attr := (removeFirst ne x l).getD l

/-- `entity.get_attributes_by_name_and_origin(name, origin)[0]` (`none` = AttributeNotFound) -/
def findAttr (ne : NameEq) (e : Ent) (name : String) (origin : Option Link.Chain) : Option Attr :=
  let origin := match origin with
    | none => some [e.name]
    | some o => some o
  e.all.find? fun a => ne a.name name && Link.isSameOrigin ne a.origin origin

/-- `subject.get_keys().remove(x)`: `get_keys()` is the key list, or the attribute list when there are no keys -/
def removeKey (ne : NameEq) (e : Ent) (x : Attr) : Option Ent :=
  if e.keys.isEmpty then (removeFirst ne x e.attrs).map fun l => { e with attrs := l }
  else (removeFirst ne x e.keys).map fun l => { e with keys := l }

/-- the first loop of `_convert_attribute_to_entity`: which attributes of the atom are printed with the entity -/
def select (ne : NameEq) : Ent → List Attr → List Attr
  | _, [] => []
  | subj, a :: as =>
    match findAttr ne subj a.name a.origin with
    | none => select ne subj as
    | some sa =>
      match removeKey ne subj sa with
      | none => select ne subj as
      | some subj' => a :: select ne subj' as

/-- the second loop: every printed attribute is removed from the atom's attribute list and from its key list -/
def consume (ne : NameEq) (atom : Ent) : List Attr → Ent
  | [] => atom
  | a :: as => consume ne { atom with attrs := removeFirstD ne a atom.attrs, keys := removeFirstD ne a atom.keys } as

def printEnt (name : String) (as : List Attr) : String :=
  String.ofList (entityPrinter name.toList (as.map fun a => (a.label.toList, a.value.toList)))

/-- `_convert_attribute_to_entity(subject, atom)`: the text and the atom that is left -/
def convertToEntity (ne : NameEq) (subj : Option Ent) (atom : Ent) : String × Ent :=
  match subj with
  | none => ("There", atom)
  | some s =>
    let printed := select ne s atom.all
    let res := printEnt s.name printed
    (if res != "" && res != s.name then res else "There", consume ne atom printed)

/-- `_parse_clingo_symbol`: positional assignment of the arguments (quotes already stripped by the harness) -/
def assign : List Attr → List String → List Attr × List String
  | [], vs => ([], vs)
  | a :: as, [] => (a :: as, [])
  | a :: as, v :: vs => let (r, rest) := assign as vs; ({ a with value := v } :: r, rest)

def parseSymbol (e : Ent) (args : List String) : Ent :=
  let (k, rest) := assign e.keys args
  { e with keys := k, attrs := (assign e.attrs rest).1 }

def objectsText (ne : NameEq) : List Ent → Ent → String × Ent
  | [], atom => ("", atom)
  | o :: os, atom =>
    let (t, atom') := convertToEntity ne (some o) atom
    let (t', atom'') := objectsText ne os atom'
    (t ++ t', atom'')

def capFirstS (s : String) : String := String.ofList (capFirst s.toList)

def stripS (s : String) : String := String.ofList (stripSpaces s.toList)

/-- `_clingo_symbol_to_sentence` for the chosen subject (`none`: no subject) -/
def sentence (ne : NameEq) (entity : Ent) (subject : Option Ent) (verb : String) (objects : List Ent) (args : List String) : String :=
  let atom := parseSymbol entity args
  let (subj, atom) := convertToEntity ne subject atom
  let verb := if subj != "There" then convertVerb verb else "is "
  let (objs, atom) := objectsText ne objects atom
  capFirstS (stripS (subj ++ " " ++ verb ++ printEnt atom.name atom.all ++ " " ++ objs)) ++ "."

/-- the objects loop at the level of attribute lists: what each object prints, and the atom that is left -/
def objsM (ne : NameEq) : List Ent → Ent → List Attr × Ent
  | [], a => ([], a)
  | o :: os, a =>
    let p := select ne o a.all
    let r := objsM ne os (consume ne a p)
    (p ++ r.1, r.2)

/-- the values a sentence mentions, part by part: subject part, objects part, entity part -/
def mentioned (ne : NameEq) (entity : Ent) (subject : Option Ent) (objects : List Ent) (args : List String) : List String :=
  let atom := parseSymbol entity args
  let sp := match subject with
    | none => []
    | some s => select ne s atom.all
  let atom1 := consume ne atom sp
  let r := objsM ne objects atom1
  (sp ++ r.1 ++ r.2.all).map (·.value)

/-- decidable form of the hypothesis of the mention theorem -/
def noCrossB (ne : NameEq) (atom : Ent) : Bool :=
  atom.keys.all fun k => atom.attrs.all fun b => !attrEq ne b k && !attrEq ne k b

end Cnl2aspModel.ExplainS
