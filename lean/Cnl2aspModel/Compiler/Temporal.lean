/-
Temporal conditions of the CNL (C05): abstract syntax, compilation to the formula telingo reads, and the reference
semantics written on the CNL syntax.

`compileT` transcribes (over the regenerated tables `dualPhrases`, `telingoConstantPhrases`, `telSymbol`, `Op.name`)
  parser.py         telingo_operation / prefixed_telingo_operation / hold_condition / telingo_operand / TELINGO_DUAL_OPERATOR /
                    TELINGO_CONSTANT (operator-name assembly from the leading and hold operators, the `since before/after`
                    shift, where negations go)
  asp_converter.py  convert_operation (a nested operation's `negated` flag is dropped; the top-level one prints `not &tel`)
  asp_operation.py  ASPTemporalOperation.asp_temporal_operators (symbols), arity decides unary / binary reading
The result is the operator TREE; that the printed text (parentheses!) is read by telingo's parser as exactly this tree
is checked on the real output with clingo's theory-term parser (harness/props/c05.py).
-/
import Cnl2aspModel.Tel.Sem
import Cnl2aspModel.Generated.Tables

namespace Cnl2aspModel.Temporal
open Tel Generated

/-- TELINGO_TEMPORAL_OPERATOR -/
inductive Lead where
  | always | eventually | before | sinceBefore | after | sinceAfter
  deriving DecidableEq, Repr

def Lead.str : Lead → String
  | .always => "always" | .eventually => "eventually" | .before => "before"
  | .sinceBefore => "since before" | .after => "after" | .sinceAfter => "since after"

/-- TELINGO_ENTITY_TEMPORAL_OPERATOR on an entity -/
inductive Pfx where
  | none | previously | subsequently | initially | finally_
  deriving DecidableEq, Repr

inductive Leaf where
  | ent (p : Pfx) (a : Nat)
  | const (phrase : String)
  deriving DecidableEq, Repr

/-- telingo_operand: a leaf, optionally followed by a dual operator and another operand (right-nested) -/
inductive Operand where
  | leaf (l : Leaf)
  | dual (l : Leaf) (d : String) (r : Operand)
  deriving DecidableEq, Repr

structure Core where
  neg : Bool                       -- `there is not …`
  lead : Option Lead
  operand : Operand
  hold : Option (Bool × Lead)      -- `that [does not] <op> hold(s)`
  deriving DecidableEq, Repr

/-- telingo_operation with its optional `DUAL telingo_operation` tail -/
inductive TOp where
  | single (c : Core)
  | chain (c : Core) (d : String) (rest : TOp)
  deriving DecidableEq, Repr

/-! ### compilation -/

def unarySym : String → Option (F → F)
  | "<" => some .prev | "<:" => some .wprev | ">" => some .next | ">:" => some .wnext
  | "<*" => some .alwaysP | "<?" => some .eventuallyP | ">*" => some .alwaysF | ">?" => some .eventuallyF
  | "<<" => some .initially | ">>" => some .finally_ | "~" => some .neg
  | _ => none

def binarySym : String → Option (F → F → F)
  | "&" => some .and | "|" => some .or | "<-" => some .limp | "->" => some .rimp | "<>" => some .equiv
  | "<*" => some .trigger | "<?" => some .since | ">*" => some .release | ">?" => some .until_
  | "<;" => some .seqPrev | "<:;" => some .wseqPrev | ";>" => some .seqNext | ";>:" => some .wseqNext
  | _ => none

def opOfName (n : String) : Option Op := Op.all.find? (fun o => o.name == n)

def unaryOp (o : Op) : Option (F → F) := (telSymbol o).bind unarySym
def binaryOp (o : Op) : Option (F → F → F) := (telSymbol o).bind binarySym

def dualOp (phrase : String) : Option Op :=
  match dualPhrases.lookup phrase with
  | some (some o) => some o
  | _ => none

def constF : String → Option F
  | "&initial" => some .initial | "&final" => some .final | "&true" => some .tt | "&false" => some .ff
  | _ => none

def compileLeaf : Leaf → Option F
  | .ent .none a => some (.atom a)
  | .ent _ _ => none            -- a primed / underscored atom inside a formula (see Findings/C05.lean)
  | .const ph =>
    match telingoConstantPhrases.lookup ph with
    | some (some s) => constF s
    | _ => none

def compileOperand : Operand → Option F
  | .leaf l => compileLeaf l
  | .dual l d r => do
    let o ← dualOp d
    let b ← binaryOp o
    let fl ← compileLeaf l
    let fr ← compileOperand r
    pure (b fl fr)

def upper (s : String) : String :=
  String.ofList (s.toList.map fun c => if 'a' ≤ c ∧ c ≤ 'z' then Char.ofNat (c.toNat - 32) else if c = ' ' then ' ' else c)

def removeSince (s : String) : String :=
  if "since ".toList.isPrefixOf s.toList then String.ofList (s.toList.drop 6) else s

/-- the operator name `telingo_operation` assembles from the leading operator and the hold operator -/
def combinedName (lead hold : Lead) : String :=
  let rel := removeSince lead.str
  let op := removeSince hold.str
  if op = "before" ∨ op = "after" then upper (rel ++ "_" ++ op) else upper (op ++ "_" ++ rel)

/-- everything of one `there is …` except the tail and the outer negation -/
def compileCore (c : Core) : Option F := do
  let operand ← compileOperand c.operand
  let operand := match c.hold with
    | some (true, _) => F.neg operand
    | _ => operand
  match c.lead, c.hold with
  | some l, some (_, h) => do
      let o ← opOfName (combinedName l h)
      let u ← unaryOp o
      pure (u operand)
  | some l, none => do
      let o ← opOfName (upper l.str)
      let u ← unaryOp o
      pure (u operand)
  | none, _ => pure operand

def shift (c : Core) (f : F) : F :=
  match c.hold with
  | some (_, .sinceBefore) => .prev f
  | some (_, .sinceAfter) => .next f
  | _ => f

/-- the formula of an operation; the `negated` flag of nested operations is dropped by the converter -/
def compileBody : TOp → Option F
  | .single c => do
    let f ← compileCore c
    pure (shift c f)
  | .chain c d rest => do
    let f ← compileCore c
    let o ← dualOp d
    let b ← binaryOp o
    let g ← compileBody rest
    pure (shift c (b f g))

def topNeg : TOp → Bool
  | .single c => c.neg
  | .chain c _ _ => c.neg

/-- the compiled condition: (is `not &tel` printed?, the formula) -/
def compileT (t : TOp) : Option (Bool × F) := (compileBody t).map fun f => (topNeg t, f)

/-- does the rule fire at state i? (`[not] not not &tel{f}` / `:- [not] &tel{f}` read classically) -/
def fires (σ : Trace) (p : Bool × F) (i : Nat) : Bool := if p.1 then !eval σ p.2 i else eval σ p.2 i

/-! ### reference semantics, on the CNL syntax (hand-written; every contestable reading is listed here)
  before / after            strict previous / next state
  always|eventually before|after      reflexive past / future box / diamond
  … since before / since after       the same, shifted one state (strong previous / next)
  A since B, A trigger(s) B, A until B, A release(s) B      standard
  A precede B = A at the previous state and B now;   A follow B = A now and B at the next state
  and, or, implies (A → B), equivalent to
  a leading `not` negates the whole operation it heads (including its tail)
-/

def holdsLeaf (σ : Trace) : Leaf → Nat → Option Bool
  | .ent .none a, i => some (holdsAt σ i a)
  -- the natural reading of the entity prefixes (used by the search; the compiler model rejects them inside formulas)
  | .ent .previously a, i => some (i > 0 && holdsAt σ (i - 1) a)
  | .ent .subsequently a, i => some (i + 1 < σ.length && holdsAt σ (i + 1) a)
  | .ent .initially a, _ => some (holdsAt σ 0 a)
  | .ent .finally_ a, _ => some (holdsAt σ (σ.length - 1) a)
  | .const "it is the initial state", i => some (i == 0)
  | .const "it is the final state", i => some (i + 1 == σ.length)
  | .const "the true constant", _ => some true
  | .const "the false constant", _ => some false
  | .const _, _ => none

/-- positions -/
def pastOf (i : Nat) : List Nat := List.range (i + 1)
def futureOf (σ : Trace) (i : Nat) : List Nat := (List.range σ.length).filter (fun j => i ≤ j)

/-- a condition as a predicate on positions -/
abbrev Pred := Nat → Bool

def dualMeaning (σ : Trace) (d : String) (p q : Pred) : Option Pred :=
  match d with
  | "and" => some fun i => p i && q i
  | "or" => some fun i => p i || q i
  | "implies" => some fun i => !p i || q i
  | "imply" => some fun i => !p i || q i
  | "equivalent to" => some fun i => p i == q i
  | "since" => some fun i => (pastOf i).any fun j => q j && (pastOf i).all fun k => !(j < k) || p k
  | "trigger" => some fun i => (pastOf i).all fun j => q j || (pastOf i).any fun k => j < k && p k
  | "triggers" => some fun i => (pastOf i).all fun j => q j || (pastOf i).any fun k => j < k && p k
  | "until" => some fun i => (futureOf σ i).any fun j => q j && (futureOf σ i).all fun k => !(k < j) || p k
  | "releases" => some fun i => (futureOf σ i).all fun j => q j || (futureOf σ i).any fun k => k < j && p k
  | "precede" => some fun i => (i > 0 && p (i - 1)) && q i
  | "follow" => some fun i => p i && (i + 1 < σ.length && q (i + 1))
  | _ => none

def holdsOperand (σ : Trace) : Operand → Option Pred
  | .leaf l => if (holdsLeaf σ l 0).isSome then some (fun i => (holdsLeaf σ l i).getD false) else none
  | .dual l d r => do
    let _ ← holdsLeaf σ l 0
    let q ← holdsOperand σ r
    dualMeaning σ d (fun i => (holdsLeaf σ l i).getD false) q

/-- the temporal modality named by the leading / hold operators (only the readings listed above) -/
def modality (σ : Trace) (lead : Option Lead) (hold : Option (Bool × Lead)) (p : Pred) : Option Pred :=
  match lead, hold with
  | some .before, none => some fun i => i > 0 && p (i - 1)
  | some .after, none => some fun i => i + 1 < σ.length && p (i + 1)
  | some .before, some (false, .always) => some fun i => (pastOf i).all p
  | some .always, some (false, .before) => some fun i => (pastOf i).all p
  | some .before, some (false, .eventually) => some fun i => (pastOf i).any p
  | some .eventually, some (false, .before) => some fun i => (pastOf i).any p
  | some .after, some (false, .always) => some fun i => (futureOf σ i).all p
  | some .always, some (false, .after) => some fun i => (futureOf σ i).all p
  | some .after, some (false, .eventually) => some fun i => (futureOf σ i).any p
  | some .eventually, some (false, .after) => some fun i => (futureOf σ i).any p
  | some .always, some (false, .sinceBefore) => some fun i => i > 0 && (pastOf (i - 1)).all p
  | some .eventually, some (false, .sinceBefore) => some fun i => i > 0 && (pastOf (i - 1)).any p
  | some .always, some (false, .sinceAfter) => some fun i => i + 1 < σ.length && (futureOf σ (i + 1)).all p
  | some .eventually, some (false, .sinceAfter) => some fun i => i + 1 < σ.length && (futureOf σ (i + 1)).any p
  | none, none => some p
  | _, _ => none

def holdsCore (σ : Trace) (c : Core) : Option Pred := do
  let p ← holdsOperand σ c.operand
  modality σ c.lead c.hold p

/-- truth of the (un-negated) operation; the tail is joined by the dual operator -/
def holdsBody (σ : Trace) : TOp → Option Pred
  | .single c => holdsCore σ c
  | .chain c d rest => do
    -- with a tail the `since before/after` shift of the code wraps the joined formula; the reference reading
    -- admits tails only for heads without such a shift
    match c.hold with
    | some (_, .sinceBefore) => none
    | some (_, .sinceAfter) => none
    | _ =>
      let p ← holdsCore σ c
      if topNeg rest then none else
      let q ← holdsBody σ rest
      dualMeaning σ d p q

/-- `holds σ t i`: is the condition true at state i (none = outside the supported readings) -/
def holds (σ : Trace) (t : TOp) : Option Pred :=
  (holdsBody σ t).map fun p => if topNeg t then fun i => !p i else p

/-- the operations for which the reference reading is defined -/
def Supported (t : TOp) : Prop := ∀ σ, (holds σ t).isSome

end Cnl2aspModel.Temporal
