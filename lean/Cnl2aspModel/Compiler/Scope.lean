/-
Declared-before-use checking and line citation (C17).

A specification is abstracted to a list of sentence skeletons: what each sentence declares / defines and what it refers
to in positions that cannot define it.  The checker walks the sentences in order, exactly like the one-pass transformer
(parser.py: simple_entity / SignatureManager.clone_signature → EntityNotFound; get_attributes_by_name_and_origin →
AttributeNotFound; get_entity_by_label → LabelNotFound; get_temporal_value_id / is_value_in_set / list lookups;
single_quantity_cardinality), each wrapped into `CompilationError(msg, meta.line)`.
Lark's position propagation (meta.line = line of the sentence's first token) is modelled by `LineCol`.
-/
import Cnl2aspModel.Compiler.LineCol

namespace Cnl2aspModel.Scope

inductive Fault where
  | entityNotFound (name : String)
  | attributeNotFound (concept attr : String)
  | labelNotFound (label : String)
  | valueOutOfRange (value : String)
  | valueNotInCollection (collection value : String)
  | doubleCardinality
  deriving DecidableEq, Repr

/-- the uses of one sentence that can be faulty, in the order the transformer meets them -/
inductive Use where
  | concept (name : String)                       -- a concept in a non-defining position
  | attribute (concept attr : String)             -- `<concept> with <attr> …`
  | label (l : String)                            -- a bare label used as an entity
  | temporalValue (concept value : String)        -- `… is after <value>`
  | member (collection value : String)            -- `an element <value> in <set>` / list element
  | secondCardinality (same : Bool)               -- a second cardinality in the sentence (same as the first or not)
  deriving DecidableEq, Repr

structure Sentence where
  declares : List (String × List String)          -- concepts the sentence declares / defines, with their attribute names
  labels : List String                            -- labels the sentence binds (before their bare use)
  uses : List Use
  deriving Repr

structure Env where
  concepts : List (String × List String)
  ranges : List (String × List String)            -- temporal concept ↦ printed values
  collections : List (String × List String)       -- set / list ↦ declared values
  deriving Repr

def Env.hasConcept (e : Env) (c : String) : Bool := e.concepts.any (·.1 == c)
def Env.attrs (e : Env) (c : String) : List String := (e.concepts.lookup c).getD []

def checkUse (e : Env) (labels : List String) : Use → Option Fault
  | .concept c => if e.hasConcept c then none else some (.entityNotFound c)
  | .attribute c a =>
      if !e.hasConcept c then some (.entityNotFound c)
      else if (e.attrs c).contains a then none else some (.attributeNotFound c a)
  | .label l => if labels.contains l then none else some (.labelNotFound l)
  | .temporalValue c v =>
      match e.ranges.lookup c with
      | none => some (.entityNotFound c)
      | some vs => if vs.contains v then none else some (.valueOutOfRange v)
  | .member s v =>
      match e.collections.lookup s with
      | none => some (.entityNotFound s)
      | some vs => if vs.contains v then none else some (.valueNotInCollection s v)
  | .secondCardinality same => if same then none else some .doubleCardinality

def firstFault (e : Env) (labels : List String) : List Use → Option Fault
  | [] => none
  | u :: us => match checkUse e labels u with
    | some f => some f
    | none => firstFault e labels us

/-- sentences are numbered from 0; the result is the first faulty sentence and its fault -/
def check (e : Env) : Nat → List Sentence → Option (Nat × Fault)
  | _, [] => none
  | k, s :: ss =>
    match firstFault e s.labels s.uses with
    | some f => some (k, f)
    | none => check { e with concepts := e.concepts ++ s.declares } (k + 1) ss

end Cnl2aspModel.Scope
