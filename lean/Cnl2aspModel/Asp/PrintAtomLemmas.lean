/- Helper lemmas for C14. -/
import Cnl2aspModel.Asp.PrintAtom

namespace Cnl2aspModel.PrintAtom

theorem sum_filter_le (p : Attr → Bool) (l : List Attr) :
    ((l.filter p).map weight).sum ≤ (l.map weight).sum := by
  induction l with
  | nil => simp
  | cons a l ih =>
    by_cases h : p a = true
    · simp [h]; omega
    · simp [h]; omega

theorem weight_strip_le (a : Attr) : weight (stripHead a) ≤ weight a := by
  simp [weight, stripHead]

theorem sum_strip_le (l : List Attr) : ((l.map stripHead).map weight).sum ≤ (l.map weight).sum := by
  induction l with
  | nil => simp
  | cons a l ih =>
    have := weight_strip_le a
    simp only [List.map_cons, List.sum_cons]
    omega

theorem opensGroup_origin {nameEq : String → String → Bool} {self : String} {a : Attr} {h : String}
    (ho : opensGroup nameEq self a = some h) : ∃ t, a.origin = h :: t := by
  unfold opensGroup at ho
  cases hor : a.origin with
  | nil => simp [hor] at ho
  | cons g t =>
    simp only [hor] at ho
    split at ho
    · cases ho
    · cases ho; exact ⟨t, rfl⟩

theorem weight_strip_lt {nameEq : String → String → Bool} {self : String} {a : Attr} {h : String}
    (ho : opensGroup nameEq self a = some h) : weight (stripHead a) + 1 = weight a := by
  obtain ⟨t, ht⟩ := opensGroup_origin ho
  simp [weight, stripHead, ht]; omega

theorem leavesL_append (xs ys : List FTerm) : leavesL (xs ++ ys) = leavesL xs ++ leavesL ys := by
  induction xs with
  | nil => simp [leavesL]
  | cons t ts ih => simp [leavesL, ih]

/-- measure bookkeeping for the two recursive calls of the group case -/
theorem measure_group (nameEq : String → String → Bool) (self h : String) (a : Attr) (rest : List Attr)
    (ho : opensGroup nameEq self a = some h) :
    measure (stripHead a :: (rest.filter (sameGroup nameEq h)).map stripHead) + 1 ≤ measure (a :: rest) ∧
    measure (rest.filter (fun b => !sameGroup nameEq h b)) + 1 ≤ measure (a :: rest) := by
  have h1 := weight_strip_lt ho
  have h2 := sum_filter_le (sameGroup nameEq h) rest
  have h3 := sum_strip_le (rest.filter (sameGroup nameEq h))
  have h4 := sum_filter_le (fun b => !sameGroup nameEq h b) rest
  have hw : 1 ≤ weight a := by simp [weight]
  simp only [measure, List.map_cons, List.sum_cons]
  constructor <;> omega

/-- Nothing is dropped and nothing is duplicated: the leaves of the function-mode tree are a
permutation of the attribute values. -/
theorem leaves_perm (nameEq : String → String → Bool) :
    ∀ (fuel : Nat) (self : String) (attrs : List Attr), measure attrs ≤ fuel →
      (leavesL (group nameEq fuel self attrs)).Perm (attrs.map (·.value)) := by
  intro fuel
  induction fuel with
  | zero => intro self attrs h; simp [measure] at h
  | succ fuel ih =>
    intro self attrs hm
    cases attrs with
    | nil => simp [group, leavesL]
    | cons a rest =>
      simp only [group]
      cases ho : opensGroup nameEq self a with
      | none =>
        simp only [leavesL, leaves, List.map_cons, List.singleton_append]
        refine List.Perm.cons _ (ih self rest ?_)
        simp only [measure, List.map_cons, List.sum_cons, weight] at hm ⊢
        omega
      | some h =>
        obtain ⟨m1, m2⟩ := measure_group nameEq self h a rest ho
        simp only [leavesL, leaves]
        have p1 := ih h (stripHead a :: (rest.filter (sameGroup nameEq h)).map stripHead) (by omega)
        have p2 := ih self (rest.filter (fun b => !sameGroup nameEq h b)) (by omega)
        have e1 : (stripHead a :: (rest.filter (sameGroup nameEq h)).map stripHead).map (·.value) =
            a.value :: (rest.filter (sameGroup nameEq h)).map (·.value) := by
          simp [stripHead, List.map_map, Function.comp_def]
        rw [e1] at p1
        have p3 : ((rest.filter (sameGroup nameEq h)) ++ (rest.filter (fun b => !sameGroup nameEq h b))).Perm rest :=
          List.filter_append_perm _ rest
        have p4 := (p1.append p2)
        refine p4.trans ?_
        simp only [List.map_cons, List.cons_append]
        refine List.Perm.cons _ ?_
        rw [← List.map_append]
        exact p3.map _

/-- With contiguous groups the leaves are the attribute values in their original order. -/
theorem leaves_eq (nameEq : String → String → Bool) :
    ∀ (fuel : Nat) (self : String) (attrs : List Attr), measure attrs ≤ fuel →
      contiguous nameEq fuel self attrs = true →
      leavesL (group nameEq fuel self attrs) = attrs.map (·.value) := by
  intro fuel
  induction fuel with
  | zero => intro self attrs h; simp [measure] at h
  | succ fuel ih =>
    intro self attrs hm hc
    cases attrs with
    | nil => simp [group, leavesL]
    | cons a rest =>
      simp only [group]
      simp only [contiguous] at hc
      cases ho : opensGroup nameEq self a with
      | none =>
        simp only [ho] at hc
        simp only [leavesL, leaves, List.map_cons, List.singleton_append]
        congr 1
        refine ih self rest ?_ hc
        simp only [measure, List.map_cons, List.sum_cons, weight] at hm ⊢
        omega
      | some h =>
        simp only [ho, Bool.and_eq_true, decide_eq_true_eq] at hc
        obtain ⟨⟨hsplit, hc1⟩, hc2⟩ := hc
        obtain ⟨m1, m2⟩ := measure_group nameEq self h a rest ho
        simp only [leavesL, leaves]
        rw [ih h _ (by omega) hc1, ih self _ (by omega) hc2]
        simp only [List.map_cons, List.cons_append, List.map_map]
        congr 1
        conv => rhs; rw [hsplit]
        simp [stripHead, Function.comp_def]

end Cnl2aspModel.PrintAtom

namespace Cnl2aspModel.PrintAtom

mutual
  /-- the shape of an argument tree: function symbols and arity, values erased -/
  def shape : FTerm → FTerm
    | .leaf _ => .leaf ""
    | .node f args => .node f (shapeL args)
  def shapeL : List FTerm → List FTerm
    | [] => []
    | t :: ts => shape t :: shapeL ts
end

def origins (l : List Attr) : List (List String) := l.map (·.origin)

theorem origins_filter (q : List String → Bool) :
    ∀ (l l' : List Attr), origins l = origins l' →
      origins (l.filter (fun a => q a.origin)) = origins (l'.filter (fun a => q a.origin)) := by
  intro l
  induction l with
  | nil => intro l' h; cases l' with
    | nil => rfl
    | cons b l' => simp [origins] at h
  | cons a l ih =>
    intro l' h
    cases l' with
    | nil => simp [origins] at h
    | cons b l' =>
      simp only [origins, List.map_cons, List.cons.injEq] at h
      obtain ⟨hab, hl⟩ := h
      have := ih l' hl
      simp only [List.filter_cons, hab]
      split
      · simp only [origins, List.map_cons, hab] at this ⊢
        rw [this]
      · exact this

theorem origins_strip (l l' : List Attr) (h : origins l = origins l') :
    origins (l.map stripHead) = origins (l'.map stripHead) := by
  have e : ∀ m : List Attr, origins (m.map stripHead) = (origins m).map List.tail := by
    intro m; simp [origins, stripHead, List.map_map, Function.comp_def]
  rw [e, e, h]

/-- The shape of the printed atom depends only on the atom's name and the origins of its
attributes — never on the values: every occurrence of a predicate built from the same signature has
the same nesting. -/
theorem shape_indep (nameEq : String → String → Bool) :
    ∀ (fuel : Nat) (self : String) (l l' : List Attr), origins l = origins l' →
      shapeL (group nameEq fuel self l) = shapeL (group nameEq fuel self l') := by
  intro fuel
  induction fuel with
  | zero => intro self l l' _; simp [group, shapeL]
  | succ fuel ih =>
    intro self l l' h
    cases l with
    | nil =>
      cases l' with
      | nil => rfl
      | cons b l' => simp [origins] at h
    | cons a l =>
      cases l' with
      | nil => simp [origins] at h
      | cons b l' =>
        have h' := h
        simp only [origins, List.map_cons, List.cons.injEq] at h'
        obtain ⟨hab, hl⟩ := h'
        have hog : opensGroup nameEq self a = opensGroup nameEq self b := by
          unfold opensGroup; rw [hab]
        simp only [group]
        rw [← hog]
        cases ho : opensGroup nameEq self a with
        | none =>
          simp only [shapeL, shape]
          rw [ih self l l' hl]
        | some g =>
          simp only [shapeL, shape]
          have f1 : origins (l.filter (sameGroup nameEq g)) = origins (l'.filter (sameGroup nameEq g)) :=
            origins_filter (sameGroupO nameEq g) l l' hl
          have f2 : origins (l.filter (fun b => !sameGroup nameEq g b)) =
              origins (l'.filter (fun b => !sameGroup nameEq g b)) :=
            origins_filter (fun o => !sameGroupO nameEq g o) l l' hl
          have g1 : origins (stripHead a :: (l.filter (sameGroup nameEq g)).map stripHead) =
              origins (stripHead b :: (l'.filter (sameGroup nameEq g)).map stripHead) := by
            have := origins_strip _ _ f1
            simp only [origins, List.map_cons, stripHead, hab] at this ⊢
            rw [this]
          rw [ih g _ _ g1, ih self _ _ f2]

end Cnl2aspModel.PrintAtom
