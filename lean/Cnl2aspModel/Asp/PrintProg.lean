/-
The whole printing layer of cnl2asp (C06, statement syntax): a model of the `__str__` methods of
ASP_elements/{asp_atom, asp_attribute, asp_operation, asp_aggregate, asp_temporal_formula, asp_conjunction, asp_rule,
asp_program, asp_encoding}.py over the element tree the converter builds.

The printer yields a list of *pieces* — lexical tokens and the white space between them; the printed text is the
concatenation of the piece texts (`text`).  harness/props/c06.py serialises every real element tree of every generated
program, has this model print it, and compares with the real `str()` byte for byte (driver op `c06.print`).  Asp/Gram.lean
states the solver's statement grammar over the token pieces and proves that every well-formed tree prints to a statement
of that grammar.

String surgery of the real printers that the structural model reproduces:
  * asp_rule.py wraps a positive `&tel{…}` body element of a rule *with a head* into `not not …` by splitting the printed
    body at commas and replacing; the blank after the preceding comma is lost (`a,not not &tel {…}`);
  * asp_operation.py `temporal_formula_string` rewrites a leading `__` / `_` of the printed operands of the outermost
    temporal operation into `>> ` / `<< ` (not in nested operations);
  * weak constraints are the constraint text with `:-` replaced by `:~` and the line break by a blank.
-/
import Cnl2aspModel.Asp.PrintAtom

namespace Cnl2aspModel.PrintProg
open PrintAtom

/-- token kinds: a leaf term (value text), a predicate name (with temporal marks), a fixed symbol / keyword, an opaque
text (function-mode atoms, printed by `PrintAtom.printFn`) -/
inductive K where
  | term | pred | kw | opaque
  deriving DecidableEq, Repr

inductive Piece where
  | tok (k : K) (s : String)
  | sp (s : String)
  deriving DecidableEq, Repr

def Piece.text : Piece → String
  | .tok _ s => s
  | .sp s => s

def text (ps : List Piece) : String := String.join (ps.map Piece.text)

abbrev kw (s : String) : Piece := .tok .kw s
abbrev sp1 : Piece := .sp " "

inductive OpKind where
  | plain | angle | temporal
  deriving DecidableEq, Repr

inductive Elem where
  | atom (a : Atom)
  | val (s : String)
  | op (k : OpKind) (sym : String) (args : List Elem)
  | agg (sym : String) (disc : List Elem) (body : List Elem)
  | tel (neg : Bool) (ops : List Elem)
  deriving Repr

def Elem.isOp : Elem → Bool
  | .op _ _ _ => true
  | _ => false

def Elem.arity : Elem → Nat
  | .op _ _ args => args.length
  | _ => 0

def Elem.isPosTel : Elem → Bool
  | .tel false _ => true
  | _ => false

def joinP (sep : List Piece) : List (List Piece) → List Piece
  | [] => []
  | [x] => x
  | x :: y :: rest => x ++ sep ++ joinP sep (y :: rest)

def paren (ps : List Piece) : List Piece := [kw "("] ++ ps ++ [kw ")"]

def isArithSym (s : String) : Bool := s == "+" || s == "-" || s == "*" || s == "/" || s == "\\"

/-- default-mode atom: `[not ]['][_][__]name['](v1,…,vn)`; the empty name prints nothing -/
def atomPieces (a : Atom) : List Piece :=
  if a.name = "" then [] else
    (if a.negated then [kw "not", sp1] else []) ++
    [.tok .pred ((if a.isBefore then "'" else "") ++ (if a.isInitial then "_" else "") ++ (if a.isFinal then "__" else "") ++
        a.name ++ (if a.isAfter then "'" else ""))] ++
    [kw "("] ++ joinP [kw ","] (a.attrs.map fun x => [.tok .term x.value]) ++ [kw ")"]

/-- the printing mode: `none` = default, `some nameEq` = function mode -/
abbrev Mode := Option (String → String → Bool)

def atomP (m : Mode) (a : Atom) : List Piece :=
  match m with
  | none => atomPieces a
  | some nameEq => if a.name = "" then [] else [.tok .opaque (printFn nameEq a)]

/-- does the printed element have any text? (`if str(x)` of asp_conjunction.py: a concatenation is empty iff every part is) -/
def hasText (ps : List Piece) : Bool := ps.any fun p => p.text != ""

/-- `', '.join([str(x) for x in conjunction if str(x)])` -/
def conjP (items : List (List Piece)) : List Piece :=
  joinP [kw ",", sp1] (items.filter hasText)

/-- a printed operand that starts with `__` / `_` gets `>> ` / `<< ` instead (`temporal_formula_string`; the fixed symbols and
keywords never start with an underscore, so only names and values are concerned) -/
def markTok (k : K) (s : String) (rest : List Piece) : List Piece :=
  if s.startsWith "__" then kw ">>" :: sp1 :: .tok k (s.drop 2).toString :: rest
  else if s.startsWith "_" then kw "<<" :: sp1 :: .tok k (s.drop 1).toString :: rest
  else .tok k s :: rest

def mark : List Piece → List Piece
  | .tok .pred s :: rest => markTok .pred s rest
  | .tok .term s :: rest => markTok .term s rest
  | .tok .opaque s :: rest => markTok .opaque s rest
  | ps => ps

mutual
  /-- `str(element)` -/
  def pieces (m : Mode) : Elem → List Piece
    | .atom a => atomP m a
    | .val s => [.tok .term s]
    | .op .plain sym args => joinP [sp1, kw sym, sp1] (operandsL m args)
    | .op .angle sym args =>
      if isArithSym sym then joinP [sp1, kw sym, sp1] (operandsL m args)
      else joinP [sp1, kw sym, sp1] (angleL m args)
    | .op .temporal sym args =>
      match args with
      | [e] => [kw sym, sp1] ++ (if e.isOp && e.arity != 1 then paren (pieces m e) else pieces m e)
      | args => joinP [sp1, kw sym, sp1] (operandsL m args)
    | .agg sym disc body =>
      [kw ("#" ++ sym), kw "{"] ++ joinP [kw ","] (piecesL m disc) ++ [kw ":", sp1] ++ conjP (piecesL m body) ++ [kw "}"]
    | .tel neg ops =>
      (if neg then [kw "not", sp1] else []) ++ [kw "&tel", sp1, kw "{"] ++ joinP [sp1] (telL m ops) ++ [kw "}"]
  def piecesL (m : Mode) : List Elem → List (List Piece)
    | [] => []
    | e :: es => pieces m e :: piecesL m es
  /-- operands of an operation: an operand that is itself an operation is parenthesised -/
  def operandsL (m : Mode) : List Elem → List (List Piece)
    | [] => []
    | e :: es => (if e.isOp then paren (pieces m e) else pieces m e) :: operandsL m es
  /-- operands of a comparison between angles: `(operand)/360` -/
  def angleL (m : Mode) : List Elem → List (List Piece)
    | [] => []
    | e :: es => (paren (pieces m e) ++ [kw "/", .tok .term "360"]) :: angleL m es
  /-- operands of the outermost temporal operation: marks rewritten, operations parenthesised -/
  def markedL (m : Mode) : List Elem → List (List Piece)
    | [] => []
    | e :: es => (if e.isOp then paren (mark (pieces m e)) else mark (pieces m e)) :: markedL m es
  /-- `formula.temporal_formula_string()` of the outermost operations of a temporal formula -/
  def telTop (m : Mode) : Elem → List Piece
    | .op _ sym args =>
      match args with
      | [e] => [kw sym, sp1] ++ (if e.isOp then paren (mark (pieces m e)) else mark (pieces m e))
      | args => joinP [sp1, kw sym, sp1] (markedL m args)
    | e => pieces m e
  def telL (m : Mode) : List Elem → List (List Piece)
    | [] => []
    | e :: es => telTop m e :: telL m es
end

structure Head where
  elem : Elem
  cond : List Elem
  deriving Repr

structure Rule where
  head : List Head
  body : List Elem
  /-- `none`: not a choice rule; `some (lo, hi)`: bounds as printed strings, `""` = absent -/
  card : Option (String × String) := none
  /-- weak constraint: weight, level, discriminant -/
  weak : Option (String × String × List Elem) := none
  deriving Repr

def headP (m : Mode) (h : Head) : List Piece :=
  let c := conjP (piecesL m h.cond)
  pieces m h.elem ++ (if hasText c then [kw ":", sp1] ++ c else [])

def isSp : Piece → Bool
  | .sp _ => true
  | _ => false

/-- `str.strip()` at piece level (white space only ever occurs as `sp` pieces) -/
def stripP (ps : List Piece) : List Piece := ((ps.dropWhile isSp).reverse.dropWhile isSp).reverse

/-- one printed body element; in a rule with a head a positive `&tel{…}` element becomes `not not &tel{…}` -/
def wrapItem (hasHead : Bool) (x : Elem × List Piece) : List Piece :=
  (if hasHead && x.1.isPosTel then [kw "not", sp1, kw "not", sp1] else []) ++ x.2

/-- the body elements after the first: `, item`, but a wrapped `&tel` element loses the blank after the comma (split / replace
surgery of asp_rule.py) -/
def bodyRest (hasHead : Bool) : List (Elem × List Piece) → List Piece
  | [] => []
  | x :: rest => (if hasHead && x.1.isPosTel then [kw ","] else [kw ",", sp1]) ++ wrapItem hasHead x ++ bodyRest hasHead rest

def bodyItems (m : Mode) (body : List Elem) : List (Elem × List Piece) :=
  (body.zip (piecesL m body)).filter fun x => hasText x.2

/-- the printed body -/
def bodyP (m : Mode) (hasHead : Bool) (body : List Elem) : List Piece :=
  match bodyItems m body with
  | [] => []
  | x :: rest => wrapItem hasHead x ++ bodyRest hasHead rest

def dedupText : List (List Piece) → List String → List (List Piece)
  | [], _ => []
  | p :: ps, seen => if seen.contains (text p) then dedupText ps seen else p :: dedupText ps (text p :: seen)

def ruleP (m : Mode) (r : Rule) : List Piece :=
  match r.weak with
  | some (w, l, disc) =>
    (if r.body.isEmpty then [] else [kw ":~", sp1] ++ bodyP m false r.body) ++ [kw ".", sp1, kw "[", .tok .term w, kw "@", .tok .term l] ++
    (if disc.isEmpty then [] else [kw ","] ++ joinP [kw ","] (dedupText (piecesL m disc) [])) ++ [kw "]", .sp "\n"]
  | none =>
    let sep := if r.card.isSome then [sp1, kw ";", sp1] else [sp1, kw "|", sp1]
    let hs := joinP sep (r.head.map (headP m))
    let h := if r.head.isEmpty then [] else
      match r.card with
      | none => hs
      | some (lo, hi) =>
        (if lo != "" then [.tok .term lo, sp1, kw "<=", sp1] else []) ++ [kw "{"] ++ hs ++ [kw "}"] ++
        (if hi != "" then [sp1, kw "<=", sp1, .tok .term hi] else [])
    let h := stripP h
    h ++ (if r.body.isEmpty then [] else
      (if r.head.isEmpty then [] else [sp1]) ++ [kw ":-", sp1] ++ bodyP m (!r.head.isEmpty) r.body) ++ [kw ".", .sp "\n"]

structure Program where
  name : String
  rules : List Rule
  deriving Repr

structure Encoding where
  consts : List (String × String)
  programs : List Program
  deriving Repr

def programP (m : Mode) (p : Program) : List Piece :=
  (if p.name != "" then [.sp "\n", kw "#program", sp1, .tok .pred p.name, kw ".", .sp "\n"] else []) ++
  (p.rules.map (ruleP m)).flatten

def constP (c : String × String) : List Piece :=
  if c.2 != "" then [kw "#const", sp1, .tok .pred c.1, sp1, kw "=", sp1, .tok .term c.2, kw ".", .sp "\n"] else []

/-- `str(encoding)`: constants, programs, `.strip() + '\n'` -/
def encodingP (m : Mode) (e : Encoding) : List Piece :=
  stripP ((e.consts.map constP).flatten ++ (e.programs.map (programP m)).flatten) ++ [.sp "\n"]

def printRule (m : Mode) (r : Rule) : String := text (ruleP m r)
def printEncoding (m : Mode) (e : Encoding) : String := text (encodingP m e)

end Cnl2aspModel.PrintProg
