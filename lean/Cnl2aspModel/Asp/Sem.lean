/-
Answer-set semantics of the rule shapes cnl2asp emits (C01, C02, C04).

Non-ground rules over terms `var i | val v`; an environment assigns a value to every variable, and a rule is read as the
family of its instances under ALL environments (no grounding step, no universe bound).  A body is a list of simple
literals (atom, `not` atom, comparison) plus a list of aggregate literals whose conditions are simple literals.
Heads: a constraint, one atom, or a choice `lo { a : cond } hi` with one element.

`Stable P M` is the textbook definition: `M` is the least model of the reduct of `P` relative to `M`
(`Derives P M` is derivability in that reduct: negative literals, comparisons and the — non-recursive — aggregates are
evaluated in `M`, positive atoms must themselves be derivable; a choice rule contributes, for every instance of its element
that is true in `M`, the rule `a :- body, cond`), every constraint instance is violated nowhere, and every choice instance
with a true body has a number of true element instances within its bounds.

`Supp P M` is the "direct reading": every rule is satisfied in `M` and every atom of `M` is the head of a rule instance (or
an element instance of a choice rule) whose body (and condition) is true in `M`.

`stable_iff_supp` (Fages' theorem for the shapes above): for a program whose predicates can be ranked so that positive
body / condition atoms rank strictly below the head, the two coincide, for every interpretation.
-/
namespace Cnl2aspModel.Asp

inductive Val where
  | num (n : Int)
  | str (s : List Char)
  deriving DecidableEq, Repr, Inhabited

structure GAtom where
  pred : List Char
  args : List Val
  deriving DecidableEq, Repr

inductive Term where
  | var (i : Nat)
  | val (v : Val)
  deriving DecidableEq, Repr

abbrev Env := Nat → Val
abbrev Interp := GAtom → Prop

def Term.eval (e : Env) : Term → Val
  | .var i => e i
  | .val v => v

structure Atom where
  pred : List Char
  args : List Term
  deriving DecidableEq, Repr

def Atom.inst (e : Env) (a : Atom) : GAtom := ⟨a.pred, a.args.map (Term.eval e)⟩

inductive CmpOp where
  | eq | ne | lt | le | gt | ge
  deriving DecidableEq, Repr

def ltList : List Char → List Char → Bool
  | [], [] => false
  | [], _ :: _ => true
  | _ :: _, [] => false
  | a :: as, b :: bs => a < b || (a == b && ltList as bs)

/-- clingo's total order on the values that occur here: integers by value, below strings; strings lexicographically -/
def Val.lt : Val → Val → Bool
  | .num a, .num b => a < b
  | .num _, .str _ => true
  | .str _, .num _ => false
  | .str a, .str b => ltList a b

def CmpOp.eval : CmpOp → Val → Val → Bool
  | .eq, a, b => a == b
  | .ne, a, b => a != b
  | .lt, a, b => Val.lt a b
  | .le, a, b => !Val.lt b a
  | .gt, a, b => Val.lt b a
  | .ge, a, b => !Val.lt a b

def CmpOp.negate : CmpOp → CmpOp
  | .eq => .ne | .ne => .eq | .lt => .ge | .ge => .lt | .gt => .le | .le => .gt

theorem CmpOp.eval_negate (op : CmpOp) (a b : Val) : (op.negate).eval a b = !op.eval a b := by
  cases op <;> simp [CmpOp.negate, CmpOp.eval, bne]

/-- simple literal -/
inductive SLit where
  | pos (a : Atom)
  | neg (a : Atom)
  | cmp (op : CmpOp) (l r : Term)
  deriving DecidableEq, Repr

def SLit.holds (M : Interp) (e : Env) : SLit → Prop
  | .pos a => M (a.inst e)
  | .neg a => ¬ M (a.inst e)
  | .cmp op l r => op.eval (l.eval e) (r.eval e) = true

def SLit.negate : SLit → SLit
  | .pos a => .neg a
  | .neg a => .pos a
  | .cmp op l r => .cmp op.negate l r

theorem SLit.holds_negate (M : Interp) (e : Env) (l : SLit) : l.negate.holds M e ↔ ¬ l.holds M e := by
  cases l with
  | pos a => simp [SLit.negate, SLit.holds]
  | neg a => simp only [SLit.negate, SLit.holds]; exact (Classical.not_not).symm
  | cmp op l r => simp [SLit.negate, SLit.holds, CmpOp.eval_negate]

def Term.vars : Term → List Nat
  | .var i => [i]
  | .val _ => []

def Atom.vars (a : Atom) : List Nat := a.args.flatMap Term.vars

def SLit.vars : SLit → List Nat
  | .pos a => a.vars
  | .neg a => a.vars
  | .cmp _ l r => l.vars ++ r.vars

/-- two environments agree on the variables of `gl` (the global variables of the enclosing rule) -/
def Agree (gl : List Nat) (e e' : Env) : Prop := ∀ i ∈ gl, e' i = e i

theorem Agree.refl (gl : List Nat) (e : Env) : Agree gl e e := fun _ _ => rfl

inductive AggFn where
  | count | sum | max | min
  deriving DecidableEq, Repr

/-- value of an aggregate over the list of its distinct tuples; `none` stands for #inf (max of nothing) / #sup (min of nothing) -/
def weightOf : List Val → Int
  | .num n :: _ => n
  | _ => 0

def AggFn.value : AggFn → List (List Val) → Option Int
  | .count, L => some L.length
  | .sum, L => some ((L.map weightOf).foldl (· + ·) 0)
  | .max, L => (L.map weightOf).foldl (fun acc w => match acc with | none => some w | some a => some (if a < w then w else a)) none
  | .min, L => (L.map weightOf).foldl (fun acc w => match acc with | none => some w | some a => some (if w < a then w else a)) none

/-- comparison `value op bound` where a missing value is #inf for max and #sup for min -/
def aggCmp (fn : AggFn) (op : CmpOp) (v : Option Int) (b : Int) : Bool :=
  match v with
  | some x => op.eval (.num x) (.num b)
  | none =>
    match fn with
    | .min => (match op with | .gt | .ge | .ne => true | _ => false)       -- #sup op b
    | _ => (match op with | .lt | .le | .ne => true | _ => false)          -- #inf op b

/-- aggregate literal `fn { tuple : cond } op bound` -/
structure Agg where
  fn : AggFn
  tuple : List Term
  cond : List SLit
  op : CmpOp
  bound : Term
  deriving Repr

/-- the tuples of an aggregate at outer environment `e` (global variables `gl` keep their outer value) -/
def Agg.tupleAt (M : Interp) (gl : List Nat) (e : Env) (a : Agg) (t : List Val) : Prop :=
  ∃ e', Agree gl e e' ∧ t = a.tuple.map (Term.eval e') ∧ ∀ l ∈ a.cond, l.holds M e'

def Agg.holds (M : Interp) (gl : List Nat) (e : Env) (a : Agg) : Prop :=
  ∃ L : List (List Val), L.Nodup ∧ (∀ t, t ∈ L ↔ a.tupleAt M gl e t) ∧
    ∃ b, a.bound.eval e = .num b ∧ aggCmp a.fn a.op (a.fn.value L) b = true

/-- the comparison holds for the aggregate's value, whatever list enumerates its distinct tuples -/
def Agg.always (M : Interp) (gl : List Nat) (e : Env) (a : Agg) : Prop :=
  ∀ L : List (List Val), L.Nodup → (∀ t, t ∈ L ↔ a.tupleAt M gl e t) →
    ∀ b, a.bound.eval e = .num b → aggCmp a.fn a.op (a.fn.value L) b = true

structure Elem where
  atom : Atom
  cond : List SLit
  deriving Repr

inductive Head where
  | none
  | atom (a : Atom)
  | choice (lo hi : Option Nat) (el : Elem)
  deriving Repr

structure Rule where
  head : Head
  body : List SLit
  aggs : List Agg := []
  deriving Repr

/-- global variables of a rule: those of its simple body literals -/
def Rule.globals (r : Rule) : List Nat := r.body.flatMap SLit.vars

/-- the whole body is true in `M` -/
def Rule.bodyHolds (M : Interp) (e : Env) (r : Rule) : Prop :=
  (∀ l ∈ r.body, l.holds M e) ∧ (∀ a ∈ r.aggs, a.holds M r.globals e)

/-- the part of a body that the reduct keeps as a condition on `M` itself: negative literals, comparisons, aggregates -/
def Rule.reductHolds (M : Interp) (e : Env) (r : Rule) : Prop :=
  (∀ l ∈ r.body, (∀ a, l ≠ .pos a) → l.holds M e) ∧ (∀ a ∈ r.aggs, a.holds M r.globals e)

def withinBounds (lo hi : Option Nat) (n : Nat) : Prop :=
  (∀ l, lo = some l → l ≤ n) ∧ (∀ h, hi = some h → n ≤ h)

/-- the true element instances of a choice at outer environment `e` -/
def Elem.instAt (M : Interp) (gl : List Nat) (e : Env) (el : Elem) (g : GAtom) : Prop :=
  M g ∧ ∃ e', Agree gl e e' ∧ g = el.atom.inst e' ∧ ∀ l ∈ el.cond, l.holds M e'

def countWithin (M : Interp) (gl : List Nat) (e : Env) (el : Elem) (lo hi : Option Nat) : Prop :=
  ∃ L : List GAtom, L.Nodup ∧ (∀ g, g ∈ L ↔ el.instAt M gl e g) ∧ withinBounds lo hi L.length

abbrev Program := List Rule

/-- derivability in the reduct of `P` relative to `M` -/
inductive Derives (P : Program) (M : Interp) : GAtom → Prop where
  | rule (r : Rule) (a : Atom) (e : Env) :
      r ∈ P → r.head = .atom a →
      (∀ b, SLit.pos b ∈ r.body → Derives P M (b.inst e)) →
      r.reductHolds M e →
      Derives P M (a.inst e)
  | choice (r : Rule) (lo hi : Option Nat) (el : Elem) (e e' : Env) :
      r ∈ P → r.head = .choice lo hi el →
      Agree r.globals e e' →
      M (el.atom.inst e') →
      (∀ b, SLit.pos b ∈ r.body → Derives P M (b.inst e)) →
      r.reductHolds M e →
      (∀ b, SLit.pos b ∈ el.cond → Derives P M (b.inst e')) →
      (∀ l ∈ el.cond, (∀ a, l ≠ .pos a) → l.holds M e') →
      Derives P M (el.atom.inst e')

/-- `M` is an answer set of `P` -/
structure Stable (P : Program) (M : Interp) : Prop where
  fix : ∀ g, M g ↔ Derives P M g
  cons : ∀ r ∈ P, r.head = .none → ∀ e, ¬ r.bodyHolds M e
  bounds : ∀ r ∈ P, ∀ lo hi el, r.head = .choice lo hi el → ∀ e, r.bodyHolds M e → countWithin M r.globals e el lo hi

/-- what justifies an atom of `M` in the direct reading -/
def Justified (P : Program) (M : Interp) (g : GAtom) : Prop :=
  (∃ r ∈ P, ∃ a e, r.head = .atom a ∧ g = a.inst e ∧ r.bodyHolds M e) ∨
  (∃ r ∈ P, ∃ lo hi el e e', r.head = .choice lo hi el ∧ Agree r.globals e e' ∧ g = el.atom.inst e' ∧
      r.bodyHolds M e ∧ ∀ l ∈ el.cond, l.holds M e')

/-- the direct reading: a model in which every atom is justified -/
structure Supp (P : Program) (M : Interp) : Prop where
  sat : ∀ r ∈ P, ∀ a, r.head = .atom a → ∀ e, r.bodyHolds M e → M (a.inst e)
  cons : ∀ r ∈ P, r.head = .none → ∀ e, ¬ r.bodyHolds M e
  bounds : ∀ r ∈ P, ∀ lo hi el, r.head = .choice lo hi el → ∀ e, r.bodyHolds M e → countWithin M r.globals e el lo hi
  just : ∀ g, M g → Justified P M g

/-- predicates can be ranked so that positive body and condition atoms rank strictly below the head they help to derive -/
def Ranked (P : Program) (rank : List Char → Nat) : Prop :=
  ∀ r ∈ P,
    (∀ a, r.head = .atom a → ∀ b, SLit.pos b ∈ r.body → rank b.pred < rank a.pred) ∧
    (∀ lo hi el, r.head = .choice lo hi el →
      (∀ b, SLit.pos b ∈ r.body → rank b.pred < rank el.atom.pred) ∧
      (∀ b, SLit.pos b ∈ el.cond → rank b.pred < rank el.atom.pred))

end Cnl2aspModel.Asp
