/-
Fages' theorem for the rule shapes of `Asp/Sem.lean`: on a ranked program, answer sets are exactly the supported models.
-/
import Cnl2aspModel.Asp.Sem

namespace Cnl2aspModel.Asp

theorem Rule.bodyHolds_iff (M : Interp) (e : Env) (r : Rule) :
    r.bodyHolds M e ↔ (∀ b, SLit.pos b ∈ r.body → M (b.inst e)) ∧ r.reductHolds M e := by
  unfold Rule.bodyHolds Rule.reductHolds
  constructor
  · rintro ⟨hb, ha⟩
    exact ⟨fun b hb' => hb _ hb', fun l hl _ => hb l hl, ha⟩
  · rintro ⟨hp, hr, ha⟩
    refine ⟨fun l hl => ?_, ha⟩
    cases l with
    | pos b => exact hp b hl
    | neg b => exact hr _ hl (fun a h => by cases h)
    | cmp op x y => exact hr _ hl (fun a h => by cases h)

theorem cond_holds_iff (M : Interp) (e : Env) (c : List SLit) :
    (∀ l ∈ c, l.holds M e) ↔ (∀ b, SLit.pos b ∈ c → M (b.inst e)) ∧ (∀ l ∈ c, (∀ a, l ≠ .pos a) → l.holds M e) := by
  constructor
  · intro h
    exact ⟨fun b hb => h _ hb, fun l hl _ => h l hl⟩
  · rintro ⟨hp, hr⟩ l hl
    cases l with
    | pos b => exact hp b hl
    | neg b => exact hr _ hl (fun a h => by cases h)
    | cmp op x y => exact hr _ hl (fun a h => by cases h)

theorem stable_supp {P : Program} {M : Interp} (h : Stable P M) : Supp P M := by
  refine ⟨?_, h.cons, h.bounds, ?_⟩
  · intro r hr a hh e hb
    rw [Rule.bodyHolds_iff] at hb
    exact (h.fix _).mpr (Derives.rule r a e hr hh (fun b hb' => (h.fix _).mp (hb.1 b hb')) hb.2)
  · intro g hg
    have hd := (h.fix g).mp hg
    cases hd with
    | rule r a e hr hh hpos hred =>
      left
      refine ⟨r, hr, a, e, hh, rfl, ?_⟩
      rw [Rule.bodyHolds_iff]
      exact ⟨fun b hb => (h.fix _).mpr (hpos b hb), hred⟩
    | choice r lo hi el e e' hr hh hag hM hpos hred hcpos hcrest =>
      right
      refine ⟨r, hr, lo, hi, el, e, e', hh, hag, rfl, ?_, ?_⟩
      · rw [Rule.bodyHolds_iff]
        exact ⟨fun b hb => (h.fix _).mpr (hpos b hb), hred⟩
      · rw [cond_holds_iff]
        exact ⟨fun b hb => (h.fix _).mpr (hcpos b hb), hcrest⟩

theorem supp_derives_sound {P : Program} {M : Interp} (h : Supp P M) : ∀ g, Derives P M g → M g := by
  intro g hd
  induction hd with
  | rule r a e hr hh _ hred ih =>
    apply h.sat r hr a hh e
    rw [Rule.bodyHolds_iff]
    exact ⟨ih, hred⟩
  | choice r lo hi el e e' _ _ _ hM _ _ _ _ _ _ => exact hM

theorem supp_derives_complete {P : Program} {M : Interp} {rank : List Char → Nat} (hR : Ranked P rank) (h : Supp P M) :
    ∀ n, ∀ g, rank g.pred = n → M g → Derives P M g := by
  intro n
  induction n using Nat.strongRecOn with
  | _ n ih =>
    intro g hn hg
    rcases h.just g hg with ⟨r, hr, a, e, hh, rfl, hb⟩ | ⟨r, hr, lo, hi, el, e, e', hh, hag, rfl, hb, hc⟩
    · rw [Rule.bodyHolds_iff] at hb
      refine Derives.rule r a e hr hh (fun b hbm => ?_) hb.2
      have hlt := (hR r hr).1 a hh b hbm
      exact ih (rank b.pred) (by rw [← hn]; exact hlt) (b.inst e) rfl (hb.1 b hbm)
    · rw [Rule.bodyHolds_iff] at hb
      rw [cond_holds_iff] at hc
      have hrk := (hR r hr).2 lo hi el hh
      refine Derives.choice r lo hi el e e' hr hh hag hg (fun b hbm => ?_) hb.2 (fun b hbm => ?_) hc.2
      · exact ih (rank b.pred) (by rw [← hn]; exact hrk.1 b hbm) (b.inst e) rfl (hb.1 b hbm)
      · exact ih (rank b.pred) (by rw [← hn]; exact hrk.2 b hbm) (b.inst e') rfl (hc.1 b hbm)

theorem supp_stable {P : Program} {M : Interp} {rank : List Char → Nat} (hR : Ranked P rank) (h : Supp P M) : Stable P M :=
  ⟨fun g => ⟨fun hg => supp_derives_complete hR h _ g rfl hg, supp_derives_sound h g⟩, h.cons, h.bounds⟩

/-- Fages' theorem for ranked programs with choice rules, constraints and non-recursive aggregates -/
theorem stable_iff_supp {P : Program} {rank : List Char → Nat} (hR : Ranked P rank) (M : Interp) : Stable P M ↔ Supp P M :=
  ⟨stable_supp, supp_stable hR⟩

end Cnl2aspModel.Asp

namespace Cnl2aspModel.Asp

/-- what a single rule demands of `M` -/
def RuleSat (M : Interp) (r : Rule) : Prop :=
  match r.head with
  | .none => ∀ e, ¬ r.bodyHolds M e
  | .atom a => ∀ e, r.bodyHolds M e → M (a.inst e)
  | .choice lo hi el => ∀ e, r.bodyHolds M e → countWithin M r.globals e el lo hi

/-- a single rule justifies `g` -/
def RuleJust (M : Interp) (r : Rule) (g : GAtom) : Prop :=
  match r.head with
  | .none => False
  | .atom a => ∃ e, g = a.inst e ∧ r.bodyHolds M e
  | .choice _ _ el => ∃ e e', Agree r.globals e e' ∧ g = el.atom.inst e' ∧ r.bodyHolds M e ∧ ∀ l ∈ el.cond, l.holds M e'

theorem supp_iff (P : Program) (M : Interp) :
    Supp P M ↔ (∀ r ∈ P, RuleSat M r) ∧ (∀ g, M g → ∃ r ∈ P, RuleJust M r g) := by
  constructor
  · intro h
    refine ⟨fun r hr => ?_, fun g hg => ?_⟩
    · unfold RuleSat
      cases hh : r.head with
      | none => exact h.cons r hr hh
      | atom a => exact h.sat r hr a hh
      | choice lo hi el => exact h.bounds r hr lo hi el hh
    · rcases h.just g hg with ⟨r, hr, a, e, hh, hge, hb⟩ | ⟨r, hr, lo, hi, el, e, e', hh, hag, hge, hb, hc⟩
      · exact ⟨r, hr, by unfold RuleJust; rw [hh]; exact ⟨e, hge, hb⟩⟩
      · exact ⟨r, hr, by unfold RuleJust; rw [hh]; exact ⟨e, e', hag, hge, hb, hc⟩⟩
  · rintro ⟨hs, hj⟩
    refine ⟨?_, ?_, ?_, ?_⟩
    · intro r hr a hh
      have := hs r hr; unfold RuleSat at this; rw [hh] at this; exact this
    · intro r hr hh
      have := hs r hr; unfold RuleSat at this; rw [hh] at this; exact this
    · intro r hr lo hi el hh
      have := hs r hr; unfold RuleSat at this; rw [hh] at this; exact this
    · intro g hg
      obtain ⟨r, hr, hj'⟩ := hj g hg
      unfold RuleJust at hj'
      cases hh : r.head with
      | none => rw [hh] at hj'; exact hj'.elim
      | atom a =>
        rw [hh] at hj'
        obtain ⟨e, hge, hb⟩ := hj'
        exact Or.inl ⟨r, hr, a, e, hh, hge, hb⟩
      | choice lo hi el =>
        rw [hh] at hj'
        obtain ⟨e, e', hag, hge, hb, hc⟩ := hj'
        exact Or.inr ⟨r, hr, lo, hi, el, e, e', hh, hag, hge, hb, hc⟩

end Cnl2aspModel.Asp
