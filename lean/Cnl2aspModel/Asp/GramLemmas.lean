/-
Every well-formed element tree prints (default mode) to a derivation of the statement grammar — helper lemmas.
-/
import Cnl2aspModel.Asp.Gram

namespace Cnl2aspModel.Gram
open PrintAtom PrintProg

@[simp] theorem toks_nil : toks [] = [] := rfl
@[simp] theorem toks_tok (k : K) (s : String) (r : List Piece) : toks (.tok k s :: r) = (k, s) :: toks r := rfl
@[simp] theorem toks_sp (s : String) (r : List Piece) : toks (.sp s :: r) = toks r := rfl

@[simp] theorem toks_append (a b : List Piece) : toks (a ++ b) = toks a ++ toks b := by
  induction a with
  | nil => rfl
  | cons x xs ih => cases x <;> simp [toks, ih]

theorem sepBy_joinP {X : List Tk → Prop} {s : Tk} {sep : List Piece} (hs : toks sep = [s]) :
    ∀ (items : List (List Piece)), items ≠ [] → (∀ p ∈ items, X (toks p)) → SepBy X s (toks (joinP sep items))
  | [], h, _ => absurd rfl h
  | [x], _, h => by
    simp only [joinP]
    exact .one (h x (by simp))
  | x :: y :: rest, _, h => by
    simp only [joinP, toks_append, hs, List.append_assoc, List.cons_append, List.nil_append]
    exact .cons (h x (by simp)) (sepBy_joinP hs (y :: rest) (by simp) (fun p hp => h p (List.mem_cons_of_mem _ hp)))

theorem SepBy.mono {X Y : List Tk → Prop} {s : Tk} (h : ∀ a, X a → Y a) : ∀ {a}, SepBy X s a → SepBy Y s a := by
  intro a hs
  induction hs with
  | one hx => exact .one (h _ hx)
  | cons hx _ ih => exact .cons (h _ hx) ih

theorem terms_of_sepBy {a : List Tk} (h : SepBy Term (kt ",") a) : Terms a := by
  induction h with
  | one hx => exact .one hx
  | cons hx _ ih => exact .cons hx ih

theorem term_of_sepBy {o : String} (ho : isArithSym o = true) {a : List Tk} (h : SepBy Term (kt o) a) : Term a := by
  induction h with
  | one hx => exact hx
  | cons hx _ ih => exact .bin o ho hx ih

theorem top_of_sepBy {o : String} (ho : isTelSym o = true) {a : List Tk} (h : SepBy TOp (kt o) a) : TOp a := by
  induction h with
  | one hx => exact hx
  | cons hx _ ih => exact .bin o ho hx ih

theorem cmpTail_of_sepBy {o : String} (ho : isCmp o = true) {a : List Tk} (h : SepBy Term (kt o) a) : CmpTail (kt o :: a) := by
  induction h with
  | one hx => exact .one o ho hx
  | cons hx _ ih =>
    rename_i x y _
    have : kt o :: (x ++ kt o :: y) = kt o :: x ++ (kt o :: y) := by simp
    rw [this]
    exact .more o ho hx ih

/-- two or more terms joined by a comparison symbol are a comparison literal -/
theorem lit_of_sepBy {o : String} (ho : isCmp o = true) {x y : List Tk} (hx : Term x) (h : SepBy Term (kt o) y) :
    Lit (x ++ kt o :: y) := .cmp hx (cmpTail_of_sepBy ho h)

/-! ### atoms -/

theorem args_of_attrs (attrs : List Attr) : Args (toks (joinP [kw ","] (attrs.map fun x => [Piece.tok .term x.value]))) := by
  cases attrs with
  | nil => exact .nil
  | cons x xs =>
    apply Args.some
    apply terms_of_sepBy
    apply sepBy_joinP (X := Term) (by rfl)
    · simp
    · intro p hp
      simp only [List.mem_map] at hp
      obtain ⟨y, _, rfl⟩ := hp
      exact .leaf _

def atomName (a : Atom) : String :=
  (if a.isBefore then "'" else "") ++ (if a.isInitial then "_" else "") ++ (if a.isFinal then "__" else "") ++
        a.name ++ (if a.isAfter then "'" else "")

theorem atomPieces_pos (a : Atom) (h : wfAtomPos a = true) :
    atomPieces a = .tok .pred (atomName a) :: kw "(" :: (joinP [kw ","] (a.attrs.map fun x => [Piece.tok .term x.value]) ++ [kw ")"]) := by
  simp only [wfAtomPos, Bool.and_eq_true, bne_iff_ne, ne_eq, Bool.not_eq_true'] at h
  simp [atomPieces, h.1, h.2, atomName]

theorem atomG_pos (a : Atom) (h : wfAtomPos a = true) : AtomG (toks (atomPieces a)) := by
  rw [atomPieces_pos a h]
  simp only [toks_tok, toks_append, toks_nil]
  exact .mk _ (args_of_attrs a.attrs)

theorem lit_atom (a : Atom) (h : wfAtom a = true) : Lit (toks (atomPieces a)) := by
  simp only [wfAtom, bne_iff_ne, ne_eq] at h
  by_cases hn : a.negated = true
  · have : atomPieces a = kw "not" :: sp1 :: .tok .pred (atomName a) :: kw "(" ::
        (joinP [kw ","] (a.attrs.map fun x => [Piece.tok .term x.value]) ++ [kw ")"]) := by
      simp [atomPieces, h, hn, atomName]
    rw [this]
    simp only [toks_tok, toks_sp, toks_append, toks_nil]
    exact .neg (.mk _ (args_of_attrs a.attrs))
  · exact .pos (atomG_pos a (by simp [wfAtomPos, h, hn]))

theorem hasText_atom (a : Atom) (h : wfAtom a = true) : hasText (atomPieces a) = true := by
  simp only [wfAtom, bne_iff_ne, ne_eq] at h
  simp only [hasText, atomPieces, h, if_false, List.any_eq_true]
  refine ⟨kw "(", by simp, by decide⟩

/-! ### terms -/

theorem operandsL_ne (es : List Elem) (h : es.isEmpty = false) : operandsL none es ≠ [] := by
  cases es with
  | nil => simp at h
  | cons e es => simp [operandsL]

theorem toks_paren (p : List Piece) : toks (paren p) = kt "(" :: toks p ++ [kt ")"] := by
  simp [paren]

mutual
  theorem term_of_wf : ∀ (e : Elem), wfTerm e = true → Term (toks (pieces none e))
    | .val s, _ => by simp only [pieces, toks_tok, toks_nil]; exact .leaf s
    | .atom a, h => by
      simp only [wfTerm] at h
      simp only [pieces, atomP]
      rw [atomPieces_pos a h]
      simp only [toks_tok, toks_append, toks_nil]
      exact .app _ (args_of_attrs a.attrs)
    | .op .plain sym args, h => by
      simp only [wfTerm, Bool.and_eq_true, Bool.not_eq_true', Bool.or_eq_true, beq_iff_eq] at h
      simp only [pieces]
      rcases h.1.1 with ha | hl
      · exact term_of_sepBy ha (sepBy_joinP (by rfl) _ (operandsL_ne args h.1.2) (operands_of_wf args h.2))
      · match args, hl, h with
        | [e], _, h =>
          have := operands_of_wf [e] h.2
          simp only [operandsL, joinP] at this ⊢
          exact this _ (by simp)
    | .op .angle sym args, h => by
      simp only [wfTerm, Bool.and_eq_true, Bool.not_eq_true'] at h
      simp only [pieces, h.1.1, if_true]
      exact term_of_sepBy h.1.1 (sepBy_joinP (by rfl) _ (operandsL_ne args h.1.2) (operands_of_wf args h.2))
    | .op .temporal _ _, h => by simp [wfTerm] at h
    | .agg _ _ _, h => by simp [wfTerm] at h
    | .tel _ _, h => by simp [wfTerm] at h
  theorem operands_of_wf : ∀ (es : List Elem), wfTermL es = true → ∀ p ∈ operandsL none es, Term (toks p)
    | [], _ => by simp [operandsL]
    | e :: es, h => by
      simp only [wfTermL, Bool.and_eq_true] at h
      intro p hp
      simp only [operandsL, List.mem_cons] at hp
      rcases hp with rfl | hp
      · by_cases ho : e.isOp = true
        · simp only [ho, if_true, toks_paren]
          exact .paren (term_of_wf e h.1)
        · simp only [ho]
          exact term_of_wf e h.1
      · exact operands_of_wf es h.2 p hp
end

theorem pieces_of_wfL : ∀ (es : List Elem), wfTermL es = true → ∀ p ∈ piecesL none es, Term (toks p)
  | [], _ => by simp [piecesL]
  | e :: es, h => by
    simp only [wfTermL, Bool.and_eq_true] at h
    intro p hp
    simp only [piecesL, List.mem_cons] at hp
    rcases hp with rfl | hp
    · exact term_of_wf e h.1
    · exact pieces_of_wfL es h.2 p hp

theorem angle_of_wf : ∀ (es : List Elem), wfTermL es = true → ∀ p ∈ angleL none es, Term (toks p)
  | [], _ => by simp [angleL]
  | e :: es, h => by
    simp only [wfTermL, Bool.and_eq_true] at h
    intro p hp
    simp only [angleL, List.mem_cons] at hp
    rcases hp with rfl | hp
    · simp only [toks_append, toks_paren, toks_tok, toks_nil]
      exact .div (.paren (term_of_wf e h.1)) (.leaf "360")
    · exact angle_of_wf es h.2 p hp

/-! ### comparisons and literals -/

theorem operandsL_length (es : List Elem) : (operandsL none es).length = es.length := by
  induction es with
  | nil => simp [operandsL]
  | cons e es ih => simp [operandsL, ih]

theorem angleL_length (es : List Elem) : (angleL none es).length = es.length := by
  induction es with
  | nil => simp [angleL]
  | cons e es ih => simp [angleL, ih]

theorem piecesL_length (es : List Elem) : (piecesL none es).length = es.length := by
  induction es with
  | nil => simp [piecesL]
  | cons e es ih => simp [piecesL, ih]

theorem lit_of_items {o : String} (ho : isCmp o = true) (items : List (List Piece)) (hlen : 2 ≤ items.length)
    (h : ∀ p ∈ items, Term (toks p)) : Lit (toks (joinP [sp1, kw o, sp1] items)) := by
  match items, hlen with
  | x :: y :: rest, _ =>
    simp only [joinP, toks_append, toks_sp, toks_tok, toks_nil, List.append_assoc, List.cons_append, List.nil_append]
    exact lit_of_sepBy ho (h x (by simp)) (sepBy_joinP (by rfl) (y :: rest) (by simp) (fun p hp => h p (List.mem_cons_of_mem _ hp)))

theorem hasText_items (o : String) (items : List (List Piece)) (hlen : 2 ≤ items.length) :
    hasText (joinP [sp1, kw o, sp1] items) = true := by
  match items, hlen with
  | x :: y :: rest, _ =>
    simp only [hasText, joinP, List.any_eq_true]
    exact ⟨sp1, by simp, by decide⟩

theorem cmp_not_arith {o : String} (ho : isCmp o = true) : isArithSym o = false := by
  simp only [isCmp, Bool.or_eq_true, beq_iff_eq] at ho
  rcases ho with ((((rfl | rfl) | rfl) | rfl) | rfl) | rfl <;> decide

theorem cmp_of_wf (e : Elem) (h : wfCmp e = true) : Lit (toks (pieces none e)) ∧ hasText (pieces none e) = true := by
  match e, h with
  | .op .plain sym args, h =>
    simp only [wfCmp, Bool.and_eq_true, decide_eq_true_eq] at h
    simp only [pieces]
    exact ⟨lit_of_items h.1.1 _ (by rw [operandsL_length]; exact h.1.2) (operands_of_wf args h.2),
           hasText_items _ _ (by rw [operandsL_length]; exact h.1.2)⟩
  | .op .angle sym args, h =>
    simp only [wfCmp, Bool.and_eq_true, decide_eq_true_eq] at h
    simp only [pieces, cmp_not_arith h.1.1, Bool.false_eq_true, if_false]
    exact ⟨lit_of_items h.1.1 _ (by rw [angleL_length]; exact h.1.2) (angle_of_wf args h.2),
           hasText_items _ _ (by rw [angleL_length]; exact h.1.2)⟩

theorem lit_of_wf (e : Elem) (h : wfLit e = true) : Lit (toks (pieces none e)) ∧ hasText (pieces none e) = true := by
  match e, h with
  | .atom a, h =>
    simp only [wfLit] at h
    simp only [pieces, atomP]
    exact ⟨lit_atom a h, hasText_atom a h⟩
  | .val s, h => simp [wfLit, wfCmp] at h
  | .op k sym args, h => exact cmp_of_wf _ (by simpa [wfLit] using h)
  | .agg _ _ _, h => simp [wfLit, wfCmp] at h
  | .tel _ _, h => simp [wfLit, wfCmp] at h

/-- a conjunction of literals (aggregate bodies, head conditions): nothing is filtered out, and the result is a literal list -/
theorem conj_of_wf : ∀ (es : List Elem), es.all wfLit = true →
    (piecesL none es).filter hasText = piecesL none es ∧ ∀ p ∈ piecesL none es, Lit (toks p)
  | [], _ => by simp [piecesL]
  | e :: es, h => by
    simp only [List.all_cons, Bool.and_eq_true] at h
    obtain ⟨h1, h2⟩ := conj_of_wf es h.2
    obtain ⟨l, t⟩ := lit_of_wf e h.1
    constructor
    · simp only [piecesL, List.filter_cons, t, if_true, h1]
    · intro p hp
      simp only [piecesL, List.mem_cons] at hp
      rcases hp with rfl | hp
      · exact l
      · exact h2 p hp

theorem piecesL_ne (es : List Elem) (h : es.isEmpty = false) : piecesL none es ≠ [] := by
  cases es with
  | nil => simp at h
  | cons e es => simp [piecesL]

theorem conjP_lits (es : List Elem) (hne : es.isEmpty = false) (h : es.all wfLit = true) :
    SepBy Lit (kt ",") (toks (conjP (piecesL none es))) := by
  obtain ⟨h1, h2⟩ := conj_of_wf es h
  simp only [conjP, h1]
  exact sepBy_joinP (by rfl) _ (piecesL_ne es hne) h2

/-! ### aggregates -/

theorem agg_of_wf (e : Elem) (h : wfAgg e = true) : AggG (toks (pieces none e)) := by
  match e, h with
  | .agg sym disc body, h =>
    simp only [wfAgg, Bool.and_eq_true, Bool.not_eq_true'] at h
    obtain ⟨⟨⟨⟨hs, hd⟩, hdw⟩, hb⟩, hbw⟩ := h
    simp only [pieces, toks_append, toks_tok, toks_sp, toks_nil, List.cons_append, List.nil_append, List.append_assoc]
    have := AggG.mk sym hs (terms_of_sepBy (sepBy_joinP (sep := [kw ","]) (by rfl) _ (piecesL_ne disc hd) (pieces_of_wfL disc hdw)))
      (conjP_lits body hb hbw)
    simpa [List.append_assoc] using this

/-! ### temporal formulas -/

theorem isOp_false_of_wfTF_leaf (e : Elem) (h : wfTF e = true) (ho : e.isOp = false) :
    (∃ s, e = .val s) ∨ (∃ a, e = .atom a ∧ wfAtomPos a = true) := by
  match e, h, ho with
  | .val s, _, _ => exact .inl ⟨s, rfl⟩
  | .atom a, h, _ => exact .inr ⟨a, rfl, by simpa [wfTF] using h⟩
  | .op _ _ _, _, ho => simp [Elem.isOp] at ho
  | .agg _ _ _, h, _ => simp [wfTF] at h
  | .tel _ _, h, _ => simp [wfTF] at h

mutual
  theorem top_of_wf : ∀ (e : Elem), wfTF e = true → TOp (toks (pieces none e))
    | .val s, _ => by simp only [pieces, toks_tok, toks_nil]; exact .term (.leaf s)
    | .atom a, h => by
      simp only [wfTF] at h
      simp only [pieces, atomP]
      exact .term (.atom (atomG_pos a h))
    | .op .temporal sym [], h => by simp [wfTF] at h
    | .op .temporal sym [e], h => by
      simp only [wfTF, wfTFL, Bool.and_eq_true, Bool.and_true] at h
      simp only [pieces, toks_append, toks_tok, toks_sp, toks_nil, List.cons_append, List.nil_append]
      by_cases hp : (e.isOp && e.arity != 1) = true
      · simp only [hp, if_true, toks_paren]
        exact .un sym h.1.1 (.term (.paren (top_of_wf e h.2)))
      · simp only [hp]
        exact .un sym h.1.1 (top_of_wf e h.2)
    | .op .temporal sym (e1 :: e2 :: rest), h => by
      simp only [wfTF, Bool.and_eq_true] at h
      simp only [pieces]
      exact top_of_sepBy h.1.1 (sepBy_joinP (by rfl) _ (operandsL_ne _ (by simp)) (topOperands_of_wf _ h.2))
    | .op .plain _ _, h => by simp [wfTF] at h
    | .op .angle _ _, h => by simp [wfTF] at h
    | .agg _ _ _, h => by simp [wfTF] at h
    | .tel _ _, h => by simp [wfTF] at h
  theorem topOperands_of_wf : ∀ (es : List Elem), wfTFL es = true → ∀ p ∈ operandsL none es, TOp (toks p)
    | [], _ => by simp [operandsL]
    | e :: es, h => by
      simp only [wfTFL, Bool.and_eq_true] at h
      intro p hp
      simp only [operandsL, List.mem_cons] at hp
      rcases hp with rfl | hp
      · by_cases ho : e.isOp = true
        · simp only [ho, if_true, toks_paren]
          exact .term (.paren (top_of_wf e h.1))
        · simp only [ho]
          exact top_of_wf e h.1
      · exact topOperands_of_wf es h.2 p hp
end

theorem markTok_append (k : K) (s : String) (rest stuff : List Piece) :
    markTok k s (rest ++ stuff) = markTok k s rest ++ stuff := by
  unfold markTok
  split
  · rfl
  · split <;> rfl

/-- a marked name / value followed by anything: `>> x`, `<< x` or `x` -/
theorem toks_markTok (k : K) (s : String) (rest : List Piece) :
    ∃ s', toks (markTok k s rest) = (k, s') :: toks rest ∨ toks (markTok k s rest) = kt ">>" :: (k, s') :: toks rest ∨
      toks (markTok k s rest) = kt "<<" :: (k, s') :: toks rest := by
  unfold markTok
  split
  · exact ⟨_, .inr (.inl rfl)⟩
  · split
    · exact ⟨_, .inr (.inr rfl)⟩
    · exact ⟨_, .inl rfl⟩

/-- the marked printing of a name or value operand, and how `mark` commutes with what follows it -/
theorem marked_leaf (e : Elem) (h : wfTF e = true) (ho : e.isOp = false) :
    (∀ stuff, mark (pieces none e ++ stuff) = mark (pieces none e) ++ stuff) ∧ TOp (toks (mark (pieces none e))) := by
  rcases isOp_false_of_wfTF_leaf e h ho with ⟨s, rfl⟩ | ⟨a, rfl, ha⟩
  · constructor
    · intro stuff
      simp only [pieces, List.cons_append, List.nil_append, mark]
      exact markTok_append .term s [] stuff
    · simp only [pieces, mark]
      obtain ⟨s', h1 | h1 | h1⟩ := toks_markTok .term s []
      · rw [h1]; exact .term (.leaf s')
      · rw [h1]; exact .un ">>" (by decide) (.term (.leaf s'))
      · rw [h1]; exact .un "<<" (by decide) (.term (.leaf s'))
  · constructor
    · intro stuff
      simp only [pieces, atomP, atomPieces_pos a ha, List.cons_append, mark]
      exact markTok_append .pred (atomName a) (kw "(" :: (joinP [kw ","] (a.attrs.map fun x => [Piece.tok .term x.value]) ++ [kw ")"])) stuff
    · simp only [pieces, atomP, atomPieces_pos a ha, mark]
      have hat : ∀ s', AtomG ((K.pred, s') :: toks (kw "(" :: (joinP [kw ","] (a.attrs.map fun x => [Piece.tok .term x.value]) ++ [kw ")"]))) := by
        intro s'
        simp only [toks_tok, toks_append, toks_nil]
        exact .mk s' (args_of_attrs a.attrs)
      obtain ⟨s', h1 | h1 | h1⟩ := toks_markTok .pred (atomName a) (kw "(" :: (joinP [kw ","] (a.attrs.map fun x => [Piece.tok .term x.value]) ++ [kw ")"]))
      · rw [h1]; exact .term (.atom (hat s'))
      · rw [h1]; exact .un ">>" (by decide) (.term (.atom (hat s')))
      · rw [h1]; exact .un "<<" (by decide) (.term (.atom (hat s')))

theorem mark_kw (s : String) (r : List Piece) : mark (Piece.tok .kw s :: r) = Piece.tok .kw s :: r := rfl

/-- the marked printing of any operand of the outermost temporal operation -/
theorem marked_of_wf (e : Elem) (h : wfTF e = true) : TOp (toks (mark (pieces none e))) := by
  by_cases ho : e.isOp = true
  · match e, h, ho with
    | .op .temporal sym [], h, _ => simp [wfTF] at h
    | .op .temporal sym [e1], h, _ =>
      have := top_of_wf _ h
      simp only [pieces, List.cons_append, List.nil_append] at this ⊢
      rw [mark_kw]; exact this
    | .op .temporal sym (e1 :: e2 :: rest), h, _ =>
      have hall := top_of_wf _ h
      simp only [wfTF, wfTFL, Bool.and_eq_true] at h
      simp only [pieces, operandsL, joinP] at hall ⊢
      by_cases h1 : e1.isOp = true
      · simp only [h1, if_true, paren, List.cons_append, List.nil_append, List.append_assoc] at hall ⊢
        rw [mark_kw]; exact hall
      · have h1' : e1.isOp = false := by simpa using h1
        simp only [h1', Bool.false_eq_true, if_false] at hall ⊢
        obtain ⟨hc, ht⟩ := marked_leaf e1 h.2.1 (by simpa using h1)
        rw [List.append_assoc, hc]
        simp only [toks_append, toks_sp, toks_tok, toks_nil, List.cons_append, List.nil_append]
        refine .bin sym h.1.1 ht ?_
        have := topOperands_of_wf (e2 :: rest) (by simp [wfTFL, h.2.2])
        exact top_of_sepBy h.1.1 (sepBy_joinP (by rfl) _ (by simp [operandsL]) (by simpa [operandsL] using this))
    | .op .plain _ _, h, _ => simp [wfTF] at h
    | .op .angle _ _, h, _ => simp [wfTF] at h
  · exact (marked_leaf e h (by simpa using ho)).2

theorem markedL_of_wf : ∀ (es : List Elem), wfTFL es = true → ∀ p ∈ markedL none es, TOp (toks p)
  | [], _ => by simp [markedL]
  | e :: es, h => by
    simp only [wfTFL, Bool.and_eq_true] at h
    intro p hp
    simp only [markedL, List.mem_cons] at hp
    rcases hp with rfl | hp
    · by_cases ho : e.isOp = true
      · simp only [ho, if_true, toks_paren]
        exact .term (.paren (marked_of_wf e h.1))
      · simp only [ho]
        exact marked_of_wf e h.1
    · exact markedL_of_wf es h.2 p hp

theorem markedL_ne (es : List Elem) (h : es.isEmpty = false) : markedL none es ≠ [] := by
  cases es with
  | nil => simp at h
  | cons e es => simp [markedL]

/-- `temporal_formula_string` of the outermost operation -/
theorem telTop_of_wf (e : Elem) (h : wfTF e = true) : TOp (toks (telTop none e)) := by
  match e, h with
  | .val s, h => simpa [telTop] using top_of_wf _ h
  | .atom a, h => simpa [telTop] using top_of_wf _ h
  | .op .temporal sym [], h => simp [wfTF] at h
  | .op .temporal sym [e1], h =>
    simp only [wfTF, wfTFL, Bool.and_eq_true, Bool.and_true] at h
    simp only [telTop, toks_append, toks_tok, toks_sp, toks_nil, List.cons_append, List.nil_append]
    by_cases ho : e1.isOp = true
    · simp only [ho, if_true, toks_paren]
      exact .un sym h.1.1 (.term (.paren (marked_of_wf e1 h.2)))
    · simp only [ho]
      exact .un sym h.1.1 (marked_of_wf e1 h.2)
  | .op .temporal sym (e1 :: e2 :: rest), h =>
    simp only [wfTF, Bool.and_eq_true] at h
    simp only [telTop]
    exact top_of_sepBy h.1.1 (sepBy_joinP (by rfl) _ (markedL_ne _ (by simp)) (markedL_of_wf _ h.2))
  | .op .plain _ _, h => simp [wfTF] at h
  | .op .angle _ _, h => simp [wfTF] at h
  | .agg _ _ _, h => simp [wfTF] at h
  | .tel _ _, h => simp [wfTF] at h

/-! ### body literals -/

theorem tel_of_wf (n : Bool) (ops : List Elem) (h : wfTel (.tel n ops) = true) :
    (n = false → TelG (toks (pieces none (.tel n ops)))) ∧ BLit (toks (pieces none (.tel n ops))) ∧
      hasText (pieces none (.tel n ops)) = true := by
  match ops, h with
  | [e], h =>
    simp only [wfTel] at h
    have ht := telTop_of_wf e h
    have hx : hasText (pieces none (.tel n [e])) = true := by
      simp only [hasText, pieces, List.any_eq_true]
      exact ⟨kw "&tel", by simp, by decide⟩
    refine ⟨?_, ?_, hx⟩
    · intro hn
      subst hn
      simp only [pieces, telL, joinP, toks_append, toks_tok, toks_sp, toks_nil, List.cons_append, List.nil_append, Bool.false_eq_true, if_false]
      exact .mk ht
    · cases n
      · simp only [pieces, telL, joinP, toks_append, toks_tok, toks_sp, toks_nil, List.cons_append, List.nil_append, Bool.false_eq_true, if_false]
        exact .tel (.mk ht)
      · simp only [pieces, telL, joinP, toks_append, toks_tok, toks_sp, toks_nil, List.cons_append, List.nil_append, if_true]
        exact .notTel (.mk ht)

theorem agg_not_op (e : Elem) (h : wfAgg e = true) : e.isOp = false := by
  match e, h with
  | .agg _ _ _, _ => rfl

theorem toks_operand_term (e : Elem) (h : wfTerm e = true) :
    Term (toks (if e.isOp = true then paren (pieces none e) else pieces none e)) := by
  by_cases ho : e.isOp = true
  · simp only [ho, if_true, toks_paren]; exact .paren (term_of_wf e h)
  · simp only [ho]; exact term_of_wf e h

theorem aggCmp_of_wf (sym : String) (hs : isCmp sym = true) (args : List Elem) (h : wfAggCmp args = true) :
    BLit (toks (pieces none (.op .plain sym args))) := by
  match args, h with
  | [a, b], h =>
    simp only [wfAggCmp, Bool.or_eq_true, Bool.and_eq_true] at h
    simp only [pieces, operandsL, joinP, toks_append, toks_sp, toks_tok, toks_nil, List.cons_append, List.nil_append]
    rcases h with ⟨ha, hb⟩ | ⟨ha, hb⟩
    · simp only [agg_not_op a ha, Bool.false_eq_true, if_false]
      simpa [List.append_assoc] using BLit.aggR sym hs (agg_of_wf a ha) (toks_operand_term b hb)
    · simp only [agg_not_op b hb, Bool.false_eq_true, if_false]
      simpa [List.append_assoc] using BLit.aggL sym hs (toks_operand_term a ha) (agg_of_wf b hb)
  | [a, b, c], h =>
    simp only [wfAggCmp, Bool.and_eq_true] at h
    simp only [pieces, operandsL, joinP, toks_append, toks_sp, toks_tok, toks_nil, List.cons_append, List.nil_append,
      agg_not_op b h.1.2, Bool.false_eq_true, if_false, List.append_assoc]
    simpa [List.append_assoc] using BLit.aggLR sym hs (toks_operand_term a h.1.1) (agg_of_wf b h.1.2) (toks_operand_term c h.2)

theorem aggCmp_len (args : List Elem) (h : wfAggCmp args = true) : 2 ≤ args.length := by
  match args, h with
  | [_, _], _ => simp
  | [_, _, _], _ => simp

theorem body_of_wf (e : Elem) (h : wfBody e = true) : BLit (toks (pieces none e)) ∧ hasText (pieces none e) = true := by
  match e, h with
  | .atom a, h =>
    simp only [wfBody] at h
    simp only [pieces, atomP]
    exact ⟨.lit (lit_atom a h), hasText_atom a h⟩
  | .tel n ops, h =>
    simp only [wfBody] at h
    exact (tel_of_wf n ops h).2
  | .op k sym args, h =>
    simp only [wfBody, Bool.or_eq_true, Bool.and_eq_true, beq_iff_eq] at h
    rcases h with h | ⟨⟨hk, hs⟩, ha⟩
    · exact ⟨.lit (cmp_of_wf _ h).1, (cmp_of_wf _ h).2⟩
    · subst hk
      refine ⟨aggCmp_of_wf sym hs args ha, ?_⟩
      simp only [pieces]
      exact hasText_items _ _ (by rw [operandsL_length]; exact aggCmp_len args ha)
  | .val _, h => simp [wfBody] at h
  | .agg _ _ _, h => simp [wfBody] at h

/-- a body element as it is printed in a rule with / without a head -/
theorem wrapped_of_wf (hasHead : Bool) (e : Elem) (h : wfBody e = true) : BLit (toks (wrapItem hasHead (e, pieces none e))) := by
  by_cases hw : (hasHead && e.isPosTel) = true
  · simp only [wrapItem, hw, if_true, toks_append, toks_tok, toks_sp, toks_nil, List.cons_append, List.nil_append]
    match e, h, hw with
    | .tel false ops, h, _ =>
      simp only [wfBody] at h
      exact .notNotTel ((tel_of_wf false ops h).1 rfl)
    | .tel true ops, _, hw => simp [Elem.isPosTel] at hw
    | .atom _, _, hw => simp [Elem.isPosTel] at hw
    | .val _, _, hw => simp [Elem.isPosTel] at hw
    | .op _ _ _, _, hw => simp [Elem.isPosTel] at hw
    | .agg _ _ _, _, hw => simp [Elem.isPosTel] at hw
  · simp only [wrapItem, hw, List.nil_append]
    exact (body_of_wf e h).1

theorem zip_piecesL : ∀ (es : List Elem), es.zip (piecesL none es) = es.map fun e => (e, pieces none e)
  | [] => by simp [piecesL]
  | e :: es => by simp [piecesL, zip_piecesL es]

theorem bodyItems_of_wf (body : List Elem) (h : body.all wfBody = true) :
    bodyItems none body = body.map fun e => (e, pieces none e) := by
  simp only [bodyItems, zip_piecesL]
  apply List.filter_eq_self.mpr
  intro x hx
  simp only [List.mem_map] at hx
  obtain ⟨e, he, rfl⟩ := hx
  exact (body_of_wf e (List.all_eq_true.mp h e he)).2

theorem bodyRest_sep (hasHead : Bool) {x : List Tk} (hx : BLit x) :
    ∀ (es : List Elem), es.all wfBody = true →
      SepBy BLit (kt ",") (x ++ toks (bodyRest hasHead (es.map fun e => (e, pieces none e))))
  | [], _ => by simpa [bodyRest] using SepBy.one hx
  | e :: es, h => by
    simp only [List.all_cons, Bool.and_eq_true] at h
    have ih := bodyRest_sep hasHead (wrapped_of_wf hasHead e h.1) es h.2
    simp only [List.map_cons, bodyRest, toks_append]
    by_cases hw : (hasHead && e.isPosTel) = true
    · simp only [hw, if_true, toks_tok, toks_nil, List.cons_append, List.nil_append]
      simpa [toks_append] using SepBy.cons hx ih
    · simp only [hw, toks_tok, toks_sp, toks_nil, List.cons_append, List.nil_append]
      simpa [toks_append] using SepBy.cons hx ih

theorem bodyP_of_wf (hasHead : Bool) (body : List Elem) (hne : body.isEmpty = false) (h : body.all wfBody = true) :
    SepBy BLit (kt ",") (toks (bodyP none hasHead body)) := by
  match body, hne, h with
  | e :: es, _, h =>
    simp only [bodyP, bodyItems_of_wf _ h, List.map_cons, toks_append]
    simp only [List.all_cons, Bool.and_eq_true] at h
    exact bodyRest_sep hasHead (wrapped_of_wf hasHead e h.1) es h.2

/-! ### heads, rules, statements -/

theorem hasText_joinP_of_first (sep : List Piece) (x : List Piece) (rest : List (List Piece)) (hx : hasText x = true) :
    hasText (joinP sep (x :: rest)) = true := by
  cases rest with
  | nil => simpa [joinP] using hx
  | cons y ys =>
    simp only [hasText, List.any_eq_true] at hx ⊢
    obtain ⟨p, hp, ht⟩ := hx
    exact ⟨p, by simp [joinP, hp], ht⟩

theorem head_of_wf (h : Head) (hw : wfHead h = true) : HeadElem (toks (headP none h)) := by
  obtain ⟨elem, cond⟩ := h
  simp only [wfHead, Bool.and_eq_true] at hw
  match elem, hw with
  | .atom a, hw =>
    simp only [headP, pieces, atomP]
    cases cond with
    | nil =>
      simp only [piecesL, conjP, List.filter_nil, joinP, hasText, List.any_nil, Bool.false_eq_true, if_false, List.append_nil]
      exact .plain (atomG_pos a hw.1)
    | cons c cs =>
      obtain ⟨h1, h2⟩ := conj_of_wf (c :: cs) hw.2
      have hne : hasText (conjP (piecesL none (c :: cs))) = true := by
        rw [conjP, h1]
        simp only [piecesL]
        exact hasText_joinP_of_first _ _ _ (lit_of_wf c (by simpa using (List.all_eq_true.mp hw.2 c (by simp)))).2
      simp only [hne, if_true, toks_append, toks_tok, toks_sp, toks_nil, List.cons_append, List.nil_append]
      exact .cond (atomG_pos a hw.1) (conjP_lits (c :: cs) rfl hw.2)

theorem toks_dropWhile_isSp (l : List Piece) : toks (l.dropWhile isSp) = toks l := by
  induction l with
  | nil => rfl
  | cons x xs ih => cases x <;> simp [List.dropWhile, isSp, ih]

theorem toks_reverse (l : List Piece) : toks l.reverse = (toks l).reverse := by
  induction l with
  | nil => rfl
  | cons x xs ih => cases x <;> simp [ih]

theorem toks_stripP (l : List Piece) : toks (stripP l) = toks l := by
  simp [stripP, toks_reverse, toks_dropWhile_isSp]

theorem heads_sep (sep : List Piece) (s : Tk) (hs : toks sep = [s]) (hd : List Head) (hne : hd.isEmpty = false)
    (hw : hd.all wfHead = true) : SepBy HeadElem s (toks (joinP sep (hd.map (headP none)))) := by
  apply sepBy_joinP hs
  · cases hd with
    | nil => simp at hne
    | cons _ _ => simp
  · intro p hp
    simp only [List.mem_map] at hp
    obtain ⟨h, hh, rfl⟩ := hp
    exact head_of_wf h (List.all_eq_true.mp hw h hh)

theorem mem_dedupText : ∀ (l : List (List Piece)) (seen : List String), ∀ p ∈ dedupText l seen, p ∈ l
  | [], _, p, hp => by simp [dedupText] at hp
  | x :: xs, seen, p, hp => by
    simp only [dedupText] at hp
    split at hp
    · exact List.mem_cons_of_mem _ (mem_dedupText xs seen p hp)
    · rcases List.mem_cons.mp hp with rfl | hp
      · simp
      · exact List.mem_cons_of_mem _ (mem_dedupText xs _ p hp)

theorem dedupText_ne (l : List (List Piece)) (h : l ≠ []) : dedupText l [] ≠ [] := by
  cases l with
  | nil => exact absurd rfl h
  | cons x xs => simp [dedupText]

theorem headG_of_wf (r : Rule) (hne : r.head.isEmpty = false) (hw : r.head.all wfHead = true) :
    HeadG (toks (match r.card with
      | none => joinP (if r.card.isSome then [sp1, kw ";", sp1] else [sp1, kw "|", sp1]) (r.head.map (headP none))
      | some (lo, hi) =>
        (if lo != "" then [Piece.tok .term lo, sp1, kw "<=", sp1] else []) ++ [kw "{"] ++
          joinP (if r.card.isSome then [sp1, kw ";", sp1] else [sp1, kw "|", sp1]) (r.head.map (headP none)) ++ [kw "}"] ++
        (if hi != "" then [sp1, kw "<=", sp1, Piece.tok .term hi] else []))) := by
  cases hc : r.card with
  | none =>
    simp only [Option.isSome_none, Bool.false_eq_true, if_false]
    exact .disj (heads_sep _ (kt "|") (by rfl) r.head hne hw)
  | some c =>
    obtain ⟨lo, hi⟩ := c
    simp only [Option.isSome_some, if_true, toks_append, toks_tok, toks_nil, List.cons_append, List.nil_append, List.append_assoc]
    have hs := heads_sep [sp1, kw ";", sp1] (kt ";") (by rfl) r.head hne hw
    have := HeadG.choice lo hi hs
    have e1 : toks (if (lo != "") = true then [Piece.tok K.term lo, sp1, kw "<=", sp1] else []) = boundL lo := by
      unfold boundL; split <;> rfl
    have e2 : toks (if (hi != "") = true then [sp1, kw "<=", sp1, Piece.tok K.term hi] else []) = boundR hi := by
      unfold boundR; split <;> rfl
    rw [e1, e2]
    simpa [List.append_assoc] using this

/-- every well-formed rule prints to a statement of the grammar -/
theorem stmt_of_wf (r : Rule) (h : wfRule r = true) : Stmt (toks (ruleP none r)) := by
  simp only [wfRule, Bool.and_eq_true] at h
  obtain ⟨hb, h⟩ := h
  cases hwk : r.weak with
  | some w =>
    obtain ⟨wt, lv, disc⟩ := w
    simp only [hwk, Bool.and_eq_true, Bool.not_eq_true'] at h
    obtain ⟨⟨_, hbn⟩, hd⟩ := h
    have hbody := bodyP_of_wf false r.body hbn hb
    simp only [ruleP, hwk, hbn, Bool.false_eq_true, if_false, toks_append, toks_tok, toks_sp, toks_nil, List.cons_append,
      List.nil_append, List.append_assoc]
    cases hdisc : disc with
    | nil =>
      simp only [List.isEmpty_nil, if_true, toks_nil, List.nil_append]
      have := Stmt.weak hbody (.plain wt lv)
      simpa [List.append_assoc] using this
    | cons d ds =>
      subst hdisc
      simp only [List.isEmpty_cons, Bool.false_eq_true, if_false, toks_append, toks_tok, toks_nil, List.cons_append, List.nil_append]
      have hterms : Terms (toks (joinP [kw ","] (dedupText (piecesL none (d :: ds)) []))) :=
        terms_of_sepBy (sepBy_joinP (sep := [kw ","]) (by rfl) _ (dedupText_ne _ (piecesL_ne _ rfl))
          (fun p hp => pieces_of_wfL _ hd p (mem_dedupText _ _ p hp)))
      have := Stmt.weak hbody (.disc wt lv hterms)
      simpa [List.append_assoc] using this
  | none =>
    simp only [hwk, Bool.and_eq_true, Bool.or_eq_true, Bool.not_eq_true'] at h
    obtain ⟨hh, hne⟩ := h
    simp only [ruleP, hwk, toks_append, toks_stripP, toks_tok, toks_sp, toks_nil]
    by_cases hhe : r.head.isEmpty = true
    · have hbn : r.body.isEmpty = false := by
        rcases hne with h | h
        · rw [hhe] at h; cases h
        · exact h
      simp only [hhe, if_true, hbn, Bool.false_eq_true, if_false, toks_nil, List.nil_append, toks_append, toks_tok, toks_sp,
        Bool.not_true, List.cons_append]
      exact .constraint (bodyP_of_wf false r.body hbn hb)
    · have hhe' : r.head.isEmpty = false := by simpa using hhe
      have hg := headG_of_wf r hhe' hh
      simp only [hhe', Bool.false_eq_true, if_false, Bool.not_false]
      by_cases hbe : r.body.isEmpty = true
      · simp only [hbe, if_true, List.append_nil]
        have := Stmt.fact hg
        simp only [toks_nil, List.append_nil] at this ⊢
        exact this
      · have hbn : r.body.isEmpty = false := by simpa using hbe
        simp only [hbn, Bool.false_eq_true, if_false, toks_append, toks_tok, toks_sp, toks_nil, List.cons_append, List.nil_append]
        have := Stmt.rule hg (bodyP_of_wf true r.body hbn hb)
        simp only [List.append_assoc] at this ⊢
        exact this

theorem Prog.append {a b : List Tk} (ha : Prog a) (hb : Prog b) : Prog (a ++ b) := by
  induction ha with
  | nil => simpa using hb
  | cons hs _ ih => simpa [List.append_assoc] using Prog.cons hs ih

theorem prog_of_rules : ∀ (rs : List Rule), rs.all wfRule = true → Prog (toks (rs.map (ruleP none)).flatten)
  | [], _ => by simpa using Prog.nil
  | r :: rs, h => by
    simp only [List.all_cons, Bool.and_eq_true] at h
    simp only [List.map_cons, List.flatten_cons, toks_append]
    exact .cons (stmt_of_wf r h.1) (prog_of_rules rs h.2)

theorem prog_of_program (p : Program) (h : p.rules.all wfRule = true) : Prog (toks (programP none p)) := by
  simp only [programP, toks_append]
  apply Prog.append _ (prog_of_rules p.rules h)
  split
  · simp only [toks_sp, toks_tok, toks_nil]
    simpa using Prog.cons (.program p.name) .nil
  · exact .nil

theorem prog_of_consts : ∀ (cs : List (String × String)), Prog (toks (cs.map constP).flatten)
  | [] => by simpa using Prog.nil
  | c :: cs => by
    simp only [List.map_cons, List.flatten_cons, toks_append]
    apply Prog.append _ (prog_of_consts cs)
    unfold constP
    split
    · simp only [toks_sp, toks_tok, toks_nil]
      simpa using Prog.cons (.const c.1 c.2) .nil
    · exact .nil

theorem prog_of_programs : ∀ (ps : List Program), (ps.all fun p => p.rules.all wfRule) = true →
    Prog (toks (ps.map (programP none)).flatten)
  | [], _ => by simpa using Prog.nil
  | p :: ps, h => by
    simp only [List.all_cons, Bool.and_eq_true] at h
    simp only [List.map_cons, List.flatten_cons, toks_append]
    exact Prog.append (prog_of_program p h.1) (prog_of_programs ps h.2)

/-- every encoding whose rules are well-formed prints to a program of the grammar -/
theorem prog_of_encoding (e : Encoding) (h : (e.programs.all fun p => p.rules.all wfRule) = true) :
    Prog (toks (encodingP none e)) := by
  simp only [encodingP, toks_append, toks_stripP, toks_sp, toks_nil, List.append_nil]
  exact Prog.append (prog_of_consts e.consts) (prog_of_programs e.programs h)

end Cnl2aspModel.Gram
