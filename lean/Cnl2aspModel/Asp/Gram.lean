/-
The statement grammar of the target language (clingo's input language, the fragment cnl2asp emits, with telingo's `&tel{…}`
theory atoms) over the token pieces of `Asp/PrintProg.lean`, the well-formedness condition on element trees, and the proof
that every well-formed tree prints (default mode) to a derivation of that grammar.

The grammar is relative to the leaves: a leaf value (`K.term`) counts as a term, a name (`K.pred`) as an identifier — that
the values the converter puts there are numbers, variables, `_`, constants or string literals is `Value.C06_value`.
White space never matters (the solver's lexer drops it), so derivations are over `toks`, the pieces without `sp`.
-/
import Cnl2aspModel.Asp.PrintProg

namespace Cnl2aspModel.Gram
open PrintAtom PrintProg

abbrev Tk := K × String

def toks : List Piece → List Tk
  | [] => []
  | .tok k s :: r => (k, s) :: toks r
  | .sp _ :: r => toks r

abbrev kt (s : String) : Tk := (.kw, s)

/-! ## the grammar -/

inductive SepBy (X : List Tk → Prop) (sep : Tk) : List Tk → Prop
  | one {a} : X a → SepBy X sep a
  | cons {a b} : X a → SepBy X sep b → SepBy X sep (a ++ sep :: b)

def isCmp (s : String) : Bool := s == "=" || s == "!=" || s == ">" || s == "<" || s == ">=" || s == "<="
def isAggSym (s : String) : Bool := s == "count" || s == "sum" || s == "max" || s == "min"
/-- the operators of telingo's `tel` theory that cnl2asp uses (ASPTemporalOperation.asp_temporal_operators, `<<`, `>>`) -/
def isTelSym (s : String) : Bool :=
  ["&", "|", "<-", "->", "<>", "~", "<", "<:", "<*", "<?", "<;", "<:;", ">", ">:", ">*", ">?", ";>", ";>:", "<<", ">>"].contains s

mutual
  /-- term -/
  inductive Term : List Tk → Prop
    | leaf (s : String) : Term [(.term, s)]
    | paren {a} : Term a → Term (kt "(" :: a ++ [kt ")"])
    | bin {a b} (o : String) : isArithSym o = true → Term a → Term b → Term (a ++ kt o :: b)
    | div {a b} : Term a → Term b → Term (a ++ kt "/" :: b)
    | app {a} (f : String) : Args a → Term ((.pred, f) :: kt "(" :: a ++ [kt ")"])
  /-- non-empty comma-separated terms -/
  inductive Terms : List Tk → Prop
    | one {a} : Term a → Terms a
    | cons {a b} : Term a → Terms b → Terms (a ++ kt "," :: b)
  /-- argument tuple contents -/
  inductive Args : List Tk → Prop
    | nil : Args []
    | some {a} : Terms a → Args a
end

/-- `name(args)`; the name carries telingo's primes / the initial and final marks (all identifier characters for the lexer) -/
inductive AtomG : List Tk → Prop
  | mk {a} (p : String) : Args a → AtomG ((.pred, p) :: kt "(" :: a ++ [kt ")"])

inductive CmpTail : List Tk → Prop
  | one {b} (o : String) : isCmp o = true → Term b → CmpTail (kt o :: b)
  | more {b c} (o : String) : isCmp o = true → Term b → CmpTail c → CmpTail (kt o :: b ++ c)

/-- literal: atom, default-negated atom, (chained) comparison -/
inductive Lit : List Tk → Prop
  | pos {a} : AtomG a → Lit a
  | neg {a} : AtomG a → Lit (kt "not" :: a)
  | cmp {a t} : Term a → CmpTail t → Lit (a ++ t)

/-- `#f{terms: literals}` -/
inductive AggG : List Tk → Prop
  | mk {d b} (f : String) : isAggSym f = true → Terms d → SepBy Lit (kt ",") b →
      AggG (kt ("#" ++ f) :: kt "{" :: d ++ kt ":" :: b ++ [kt "}"])

mutual
  /-- theory terms of a `&tel` atom, as clingo's parser reads them: terms and operator applications -/
  inductive TTerm : List Tk → Prop
    | atom {a} : AtomG a → TTerm a
    | leaf (s : String) : TTerm [(.term, s)]
    | paren {a} : TOp a → TTerm (kt "(" :: a ++ [kt ")"])
  inductive TOp : List Tk → Prop
    | term {a} : TTerm a → TOp a
    | un {a} (o : String) : isTelSym o = true → TOp a → TOp (kt o :: a)
    | bin {a b} (o : String) : isTelSym o = true → TOp a → TOp b → TOp (a ++ kt o :: b)
end

inductive TelG : List Tk → Prop
  | mk {a} : TOp a → TelG (kt "&tel" :: kt "{" :: a ++ [kt "}"])

/-- body literal -/
inductive BLit : List Tk → Prop
  | lit {a} : Lit a → BLit a
  | aggR {a b} (o : String) : isCmp o = true → AggG a → Term b → BLit (a ++ kt o :: b)
  | aggL {a b} (o : String) : isCmp o = true → Term a → AggG b → BLit (a ++ kt o :: b)
  | aggLR {a b c} (o : String) : isCmp o = true → Term a → AggG b → Term c → BLit (a ++ kt o :: b ++ kt o :: c)
  | tel {a} : TelG a → BLit a
  | notTel {a} : TelG a → BLit (kt "not" :: a)
  | notNotTel {a} : TelG a → BLit (kt "not" :: kt "not" :: a)

inductive HeadElem : List Tk → Prop
  | plain {a} : AtomG a → HeadElem a
  | cond {a c} : AtomG a → SepBy Lit (kt ",") c → HeadElem (a ++ kt ":" :: c)

def boundL (lo : String) : List Tk := if lo != "" then [(.term, lo), kt "<="] else []
def boundR (hi : String) : List Tk := if hi != "" then [kt "<=", (.term, hi)] else []

inductive HeadG : List Tk → Prop
  | disj {h} : SepBy HeadElem (kt "|") h → HeadG h
  | choice {h} (lo hi : String) : SepBy HeadElem (kt ";") h → HeadG (boundL lo ++ kt "{" :: h ++ kt "}" :: boundR hi)

/-- `[w@l]` / `[w@l,t1,…,tn]` -/
inductive WTuple : List Tk → Prop
  | plain (w l : String) : WTuple [(.term, w), kt "@", (.term, l)]
  | disc {d} (w l : String) : Terms d → WTuple ((.term, w) :: kt "@" :: (.term, l) :: kt "," :: d)

inductive Stmt : List Tk → Prop
  | fact {h} : HeadG h → Stmt (h ++ [kt "."])
  | rule {h b} : HeadG h → SepBy BLit (kt ",") b → Stmt (h ++ kt ":-" :: b ++ [kt "."])
  | constraint {b} : SepBy BLit (kt ",") b → Stmt (kt ":-" :: b ++ [kt "."])
  | weak {b w} : SepBy BLit (kt ",") b → WTuple w → Stmt (kt ":~" :: b ++ kt "." :: kt "[" :: w ++ [kt "]"])
  | const (n v : String) : Stmt [kt "#const", (.pred, n), kt "=", (.term, v), kt "."]
  | program (n : String) : Stmt [kt "#program", (.pred, n), kt "."]

inductive Prog : List Tk → Prop
  | nil : Prog []
  | cons {a b} : Stmt a → Prog b → Prog (a ++ b)

/-! ## well-formed element trees (decidable; evaluated by the driver on every real tree) -/

def wfAtom (a : Atom) : Bool := a.name != ""
def wfAtomPos (a : Atom) : Bool := a.name != "" && !a.negated

/- a one-operand operation (the `in absolute value` wrapper, whose `|` is never printed — finding F19) prints as its operand -/
mutual
  def wfTerm : Elem → Bool
    | .val _ => true
    | .atom a => wfAtomPos a
    | .op .plain sym args => (isArithSym sym || args.length == 1) && !args.isEmpty && wfTermL args
    | .op .angle sym args => isArithSym sym && !args.isEmpty && wfTermL args
    | _ => false
  def wfTermL : List Elem → Bool
    | [] => true
    | e :: es => wfTerm e && wfTermL es
end

def wfCmp : Elem → Bool
  | .op .plain sym args => isCmp sym && decide (2 ≤ args.length) && wfTermL args
  | .op .angle sym args => isCmp sym && decide (2 ≤ args.length) && wfTermL args
  | _ => false

def wfLit : Elem → Bool
  | .atom a => wfAtom a
  | e => wfCmp e

def wfAgg : Elem → Bool
  | .agg sym disc body => isAggSym sym && !disc.isEmpty && wfTermL disc && !body.isEmpty && body.all wfLit
  | _ => false

mutual
  def wfTF : Elem → Bool
    | .val _ => true
    | .atom a => wfAtomPos a
    | .op .temporal sym args => isTelSym sym && !args.isEmpty && wfTFL args
    | _ => false
  def wfTFL : List Elem → Bool
    | [] => true
    | e :: es => wfTF e && wfTFL es
end

def wfTel : Elem → Bool
  | .tel _ [e] => wfTF e
  | _ => false

/-- the operands of a comparison with an aggregate: `agg ⋈ t`, `t ⋈ agg`, `t ⋈ agg ⋈ t` -/
def wfAggCmp : List Elem → Bool
  | [a, b] => (wfAgg a && wfTerm b) || (wfTerm a && wfAgg b)
  | [a, b, c] => wfTerm a && wfAgg b && wfTerm c
  | _ => false

def wfBody : Elem → Bool
  | .atom a => wfAtom a
  | .tel n ops => wfTel (.tel n ops)
  | .op k sym args => wfCmp (.op k sym args) || (k == .plain && isCmp sym && wfAggCmp args)
  | _ => false

def wfHead (h : Head) : Bool :=
  (match h.elem with
   | .atom a => wfAtomPos a
   | _ => false) && h.cond.all wfLit

def wfRule (r : Rule) : Bool :=
  r.body.all wfBody &&
  match r.weak with
  | some (_, _, disc) => r.head.isEmpty && !r.body.isEmpty && wfTermL disc
  | none => r.head.all wfHead && (!r.head.isEmpty || !r.body.isEmpty)

end Cnl2aspModel.Gram
