/-
Printing of an atom in the two modes (C14).

Transcribes asp_atom.py `ASPAtom.__str__`:
  default mode:   [not ]['][_][__]name['](v1,…,vn)
  function mode:  attributes are visited left to right; an attribute whose origin names another
                  concept opens a term `origin(…)` that collects it and every *later, not yet
                  visited* attribute whose origin has the same head name (in order), each with its
                  origin stripped of that head; the nested term is printed by the same procedure.
The `visited` list of the code holds attribute *objects* compared by identity (after the repair of
F8): that is position-based bookkeeping, which the partition below expresses.
`nameEq` is `NameComponent.__eq__` (singular/plural-insensitive, via `inflect`): a parameter.
-/
namespace Cnl2aspModel.PrintAtom

structure Attr where
  name : String
  value : String
  origin : List String      -- chain of origin names, outermost first; [] = no origin
  deriving DecidableEq, Repr

structure Atom where
  name : String
  attrs : List Attr
  negated : Bool := false
  isBefore : Bool := false
  isAfter : Bool := false
  isInitial : Bool := false
  isFinal : Bool := false
  deriving DecidableEq, Repr

/-- function-mode argument tree -/
inductive FTerm where
  | leaf (v : String)
  | node (f : String) (args : List FTerm)
  deriving Repr

def stripHead (a : Attr) : Attr := { a with origin := a.origin.tail }

/-- does attribute `b` belong to the group opened by origin head `h`? (`attribute2.origin and
attribute1.origin.name == attribute2.origin.name`) -/
def sameGroupO (nameEq : String → String → Bool) (h : String) (o : List String) : Bool :=
  match o with
  | [] => false
  | g :: _ => nameEq h g

def sameGroup (nameEq : String → String → Bool) (h : String) (b : Attr) : Bool := sameGroupO nameEq h b.origin

/-- an attribute opens a group iff it has an origin whose head differs from the atom's name -/
def opensGroup (nameEq : String → String → Bool) (self : String) (a : Attr) : Option String :=
  match a.origin with
  | [] => none
  | h :: _ => if nameEq h self then none else some h

/-- the argument trees of an atom named `self` (fuel: recursion depth + list length budget) -/
def group (nameEq : String → String → Bool) : Nat → String → List Attr → List FTerm
  | 0, _, _ => []
  | _ + 1, _, [] => []
  | fuel + 1, self, a :: rest =>
    match opensGroup nameEq self a with
    | none => .leaf a.value :: group nameEq fuel self rest
    | some h =>
      let same := rest.filter (sameGroup nameEq h)
      let others := rest.filter (fun b => !sameGroup nameEq h b)
      .node h (group nameEq fuel h (stripHead a :: same.map stripHead)) :: group nameEq fuel self others

/-- enough fuel for `group`: every step consumes one unit and either shortens the list or the origins -/
def weight (a : Attr) : Nat := 1 + a.origin.length
def measure (attrs : List Attr) : Nat := (attrs.map weight).sum + 1

mutual
  def leaves : FTerm → List String
    | .leaf v => [v]
    | .node _ args => leavesL args
  def leavesL : List FTerm → List String
    | [] => []
    | t :: ts => leaves t ++ leavesL ts
end

mutual
  def render : FTerm → String
    | .leaf v => v
    | .node f args => f ++ "(" ++ ",".intercalate (renderL args) ++ ")"
  def renderL : List FTerm → List String
    | [] => []
    | t :: ts => render t :: renderL ts
end

def header (a : Atom) : String :=
  (if a.negated then "not " else "") ++ (if a.isBefore then "'" else "") ++ (if a.isInitial then "_" else "") ++
  (if a.isFinal then "__" else "") ++ a.name ++ (if a.isAfter then "'" else "") ++ "("

/-- default mode -/
def printFlat (a : Atom) : String :=
  if a.name = "" then "" else header a ++ ",".intercalate (a.attrs.map (·.value)) ++ ")"

def fnTree (nameEq : String → String → Bool) (a : Atom) : List FTerm :=
  group nameEq (measure a.attrs) a.name a.attrs

/-- function mode -/
def printFn (nameEq : String → String → Bool) (a : Atom) : String :=
  if a.name = "" then "" else header a ++ ",".intercalate (renderL (fnTree nameEq a)) ++ ")"

/-- flattening: drop the wrapping function symbols, keep the leaves in order -/
def flattenFn (nameEq : String → String → Bool) (a : Atom) : String :=
  if a.name = "" then "" else header a ++ ",".intercalate (leavesL (fnTree nameEq a)) ++ ")"

/-- every group is contiguous: the attributes collected by a group immediately follow its opener
(checked at every nesting level).  This is the hypothesis under which flattening preserves order. -/
def contiguous (nameEq : String → String → Bool) : Nat → String → List Attr → Bool
  | 0, _, _ => true
  | _ + 1, _, [] => true
  | fuel + 1, self, a :: rest =>
    match opensGroup nameEq self a with
    | none => contiguous nameEq fuel self rest
    | some h =>
      let same := rest.filter (sameGroup nameEq h)
      let others := rest.filter (fun b => !sameGroup nameEq h b)
      decide (rest = same ++ others) &&
        contiguous nameEq fuel h (stripHead a :: same.map stripHead) && contiguous nameEq fuel self others

end Cnl2aspModel.PrintAtom
