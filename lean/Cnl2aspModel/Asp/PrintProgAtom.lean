/-
The two models of the default-mode atom printer agree: the pieces of `PrintProg.atomPieces` concatenate to `PrintAtom.printFlat`
(the string C14's theorems speak about), so the program-level model of C06 and the atom-level model of C14 print the same atoms.
-/
import Cnl2aspModel.Asp.PrintProg

namespace Cnl2aspModel.PrintProg
open PrintAtom

theorem foldl_append_init (acc : String) (xs : List String) :
    List.foldl (fun r s => r ++ s) acc xs = acc ++ List.foldl (fun r s => r ++ s) "" xs := by
  induction xs generalizing acc with
  | nil => simp
  | cons x xs ih => simp only [List.foldl_cons]; rw [ih, ih ("" ++ x)]; simp [String.append_assoc]

theorem join_cons (x : String) (xs : List String) : String.join (x :: xs) = x ++ String.join xs := by
  simp only [String.join, List.foldl_cons]
  rw [foldl_append_init]; simp

theorem join_append (xs ys : List String) : String.join (xs ++ ys) = String.join xs ++ String.join ys := by
  induction xs with
  | nil => simp [String.join]
  | cons x xs ih => simp only [List.cons_append, join_cons, ih, String.append_assoc]

theorem text_append (a b : List Piece) : text (a ++ b) = text a ++ text b := by
  simp [text, join_append]

theorem text_cons (p : Piece) (ps : List Piece) : text (p :: ps) = p.text ++ text ps := by
  simp [text, join_cons]

/-- comma-joined argument pieces print the comma-separated values -/
theorem text_args : ∀ (vs : List String), text (joinP [kw ","] (vs.map fun v => [Piece.tok .term v])) = ",".intercalate vs
  | [] => by simp [joinP, text, String.join]
  | [v] => by simp [joinP, text, String.join, Piece.text]
  | v :: w :: rest => by
    have ih := text_args (w :: rest)
    simp only [List.map_cons] at ih ⊢
    simp only [joinP, text_append, text_cons, Piece.text, ih, String.intercalate_cons_cons]
    simp [text, String.join, String.append_assoc]

theorem atomPieces_text (a : Atom) : text (atomPieces a) = printFlat a := by
  unfold atomPieces printFlat
  split
  · simp [text, String.join]
  · have hargs := text_args (a.attrs.map (·.value))
    simp only [List.map_map, Function.comp_def] at hargs
    simp only [text_append, text_cons, Piece.text, hargs, header]
    cases a.negated
    · simp [text, String.join, String.append_assoc, Piece.text]
    · simp only [if_true, List.cons_append, List.nil_append, text_cons, Piece.text, String.append_assoc]
      have e : ∀ x : String, "not" ++ (" " ++ x) = "not " ++ x := by
        intro x; rw [← String.append_assoc]; rfl
      rw [e]
      simp [text, String.join, String.append_assoc]

end Cnl2aspModel.PrintProg
