/-
Weak constraints and optimal answer sets (C04).

A weak constraint `:~ body. [w@l, t…]` contributes, to level `l`, the SET of tuples `(w, t…)` for which some instance of its
body holds; the cost of an interpretation at a level is the sum of the weights of the distinct tuples of that level (tuples of
different weak constraints of one level are one set, as in clingo).  `M'` is better than `M` when it costs less at some level
and the same at every higher level; an optimal answer set is an answer set no answer set is better than.
-/
import Cnl2aspModel.Asp.Sem
import Cnl2aspModel.Asp.AggLemmas

namespace Cnl2aspModel.Asp

structure Weak where
  body : List SLit
  aggs : List Agg := []
  neg : Bool            -- the weight is printed with a leading '-'
  weight : Term
  level : Nat
  terms : List Term
  deriving Repr

def Weak.asRule (w : Weak) : Rule := { head := .none, body := w.body, aggs := w.aggs }

/-- `(weight, terms)` is a tuple of `w` in `M` -/
def Weak.tupleAt (M : Interp) (w : Weak) (x : Int × List Val) : Prop :=
  ∃ e, w.asRule.bodyHolds M e ∧ ∃ k, w.weight.eval e = .num k ∧ x = ((if w.neg then -k else k), w.terms.map (Term.eval e))

def levelTuple (ws : List Weak) (M : Interp) (l : Nat) (x : Int × List Val) : Prop :=
  ∃ w ∈ ws, w.level = l ∧ w.tupleAt M x

def sumWeights (L : List (Int × List Val)) : Int := (L.map Prod.fst).foldl (· + ·) 0

/-- `c` is the cost of `M` at level `l` -/
def CostAt (ws : List Weak) (M : Interp) (l : Nat) (c : Int) : Prop :=
  ∃ L : List (Int × List Val), L.Nodup ∧ (∀ x, x ∈ L ↔ levelTuple ws M l x) ∧ c = sumWeights L

/-- `M'` is better than `M`: cheaper at some level, equal at all higher levels -/
def Better (ws : List Weak) (M' M : Interp) : Prop :=
  ∃ l c' c, CostAt ws M' l c' ∧ CostAt ws M l c ∧ c' < c ∧
    ∀ l', l < l' → ∀ d' d, CostAt ws M' l' d' → CostAt ws M l' d → d' = d

def Optimal (P : Program) (ws : List Weak) (M : Interp) : Prop :=
  Stable P M ∧ ¬ ∃ M', Stable P M' ∧ Better ws M' M

theorem sumWeights_perm {L L' : List (Int × List Val)} (p : L.Perm L') : sumWeights L = sumWeights L' :=
  foldl_perm (· + ·) (fun b x y => by omega) (p.map Prod.fst) 0

/-- the cost at a level is unique -/
theorem CostAt.unique {ws : List Weak} {M : Interp} {l : Nat} {c c' : Int} (h : CostAt ws M l c) (h' : CostAt ws M l c') : c = c' := by
  obtain ⟨L, hnd, hL, rfl⟩ := h
  obtain ⟨L', hnd', hL', rfl⟩ := h'
  exact sumWeights_perm ((List.perm_ext_iff_of_nodup hnd hnd').mpr (fun x => by rw [hL x, hL' x]))

theorem sumWeights_const (L : List (Int × List Val)) (k : Int) (h : ∀ x ∈ L, x.1 = k) : sumWeights L = k * L.length := by
  unfold sumWeights
  have gen : ∀ (L : List (Int × List Val)) (a : Int), (∀ x ∈ L, x.1 = k) → (L.map Prod.fst).foldl (· + ·) a = a + k * L.length := by
    intro L
    induction L with
    | nil => intro a _; simp
    | cons x xs ih =>
      intro a hx
      simp only [List.map_cons, List.foldl_cons, List.length_cons]
      rw [ih _ (fun y hy => hx y (List.mem_cons_of_mem _ hy)), hx x (List.mem_cons_self ..)]
      rw [Int.natCast_succ, Int.mul_add]; omega
  rw [gen L 0 h]; omega

end Cnl2aspModel.Asp
