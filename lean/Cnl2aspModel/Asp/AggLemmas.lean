/-
The value of an aggregate does not depend on the order in which its distinct tuples are listed.
-/
import Cnl2aspModel.Asp.Sem

namespace Cnl2aspModel.Asp

def maxStep (acc : Option Int) (w : Int) : Option Int :=
  match acc with | none => some w | some a => some (if a < w then w else a)
def minStep (acc : Option Int) (w : Int) : Option Int :=
  match acc with | none => some w | some a => some (if w < a then w else a)

theorem maxStep_comm (acc : Option Int) (a b : Int) : maxStep (maxStep acc a) b = maxStep (maxStep acc b) a := by
  cases acc with
  | none => simp only [maxStep]; congr 1; split <;> split <;> omega
  | some x =>
    simp only [maxStep]
    congr 1
    repeat' split
    all_goals omega

theorem minStep_comm (acc : Option Int) (a b : Int) : minStep (minStep acc a) b = minStep (minStep acc b) a := by
  cases acc with
  | none => simp only [minStep]; congr 1; split <;> split <;> omega
  | some x =>
    simp only [minStep]
    congr 1
    repeat' split
    all_goals omega

theorem foldl_perm {α β : Type} (f : β → α → β) (hf : ∀ b x y, f (f b x) y = f (f b y) x) {l₁ l₂ : List α} (p : l₁.Perm l₂) :
    ∀ b, l₁.foldl f b = l₂.foldl f b := by
  induction p with
  | nil => intro b; rfl
  | cons x _ ih => intro b; simp only [List.foldl_cons]; exact ih _
  | swap x y l => intro b; simp only [List.foldl_cons]; rw [hf]
  | trans _ _ ih₁ ih₂ => intro b; rw [ih₁, ih₂]

theorem AggFn.value_perm (fn : AggFn) {L L' : List (List Val)} (p : L.Perm L') : fn.value L = fn.value L' := by
  cases fn with
  | count => simp only [AggFn.value]; rw [p.length_eq]
  | sum =>
    simp only [AggFn.value]
    congr 1
    exact foldl_perm (· + ·) (fun b x y => by omega) (p.map weightOf) 0
  | max => exact foldl_perm maxStep maxStep_comm (p.map weightOf) none
  | min => exact foldl_perm minStep minStep_comm (p.map weightOf) none

/-- two duplicate-free lists with the same members give the same aggregate value -/
theorem AggFn.value_unique (fn : AggFn) {L L' : List (List Val)} (h : L.Nodup) (h' : L'.Nodup)
    (hm : ∀ t, t ∈ L ↔ t ∈ L') : fn.value L = fn.value L' :=
  fn.value_perm ((List.perm_ext_iff_of_nodup h h').mpr hm)

/-- when the qualifying tuples are finitely many and the bound is a number, "the comparison holds" has one meaning:
the existential reading (a constraint body) and the universal reading (a requirement) coincide -/
theorem Agg.holds_iff_always (M : Interp) (gl : List Nat) (e : Env) (a : Agg)
    (hfin : ∃ L : List (List Val), L.Nodup ∧ ∀ t, t ∈ L ↔ a.tupleAt M gl e t) (hb : ∃ b, a.bound.eval e = .num b) :
    a.holds M gl e ↔ a.always M gl e := by
  obtain ⟨L₀, hnd₀, hL₀⟩ := hfin
  obtain ⟨b₀, hb₀⟩ := hb
  constructor
  · rintro ⟨L, hnd, hL, b, hb, hc⟩ L' hnd' hL' b' hb'
    have : b' = b := by rw [hb] at hb'; injection hb' with h; exact h.symm
    subst this
    rw [← a.fn.value_unique hnd hnd' (fun t => by rw [hL t, hL' t])]
    exact hc
  · intro h
    exact ⟨L₀, hnd₀, hL₀, b₀, hb₀, h L₀ hnd₀ hL₀ b₀ hb₀⟩

/-- `#count` is the number of distinct qualifying tuples -/
theorem AggFn.count_value (L : List (List Val)) : AggFn.count.value L = some (L.length : Int) := rfl

end Cnl2aspModel.Asp
