/-
C07 — invented variables never capture or merge with the author's.  Property theorems only.
The two namers of `Compiler/Naming.lean` are tied to /repo by harness/props/c07.py (the real
create_new_field_value / _new_field_value on adversarial avoid-lists), the collision list by a layer
correspondence (author variables ⊆ the real `proposition.defined_attributes`), and the property itself is
searched for by adversarial renaming of author variables to the compiler's own names.
-/
import Cnl2aspModel.Compiler.Naming

namespace Cnl2aspModel.Naming

/-- any name generator: avoid-list → base name → (name, new avoid-list) -/
abbrev Namer := List (List Char) → List Char → Option (List Char × List (List Char))

/-- what hygiene needs from a namer: the name is not in the avoid-list, and the new avoid-list keeps the
old names and records the new one -/
def Sound (nm : Namer) : Prop :=
  ∀ av b r av', nm av b = some (r, av') → r ∉ av ∧ (∀ x, x ∈ av → x ∈ av') ∧ r ∈ av'

/-- The converter's generator returns only names outside `_created_fields`, for every avoid-list and
every base name (adversarial ones included: bases whose stripped form is taken, digit suffixes, …). -/
theorem C07_converter_fresh : ∀ fuel, Sound (converterNamer fuel) := by
  intro fuel
  induction fuel with
  | zero => intro av b r av' h; simp [converterNamer] at h
  | succ fuel ih =>
    intro av b r av' h
    simp only [converterNamer] at h
    split at h
    · -- collision: recursion on the bumped name, with the same avoid-list
      split at h
      · cases h
      · next _ r1 c1 hrec =>
        simp only [Option.some.injEq, Prod.mk.injEq] at h
        obtain ⟨rfl, rfl⟩ := h
        obtain ⟨h1, h2, h3⟩ := ih av _ r1 c1 hrec
        exact ⟨h1, fun x hx => List.mem_append_left _ (h2 x hx), List.mem_append_right _ (by simp)⟩
    · rename_i hnot
      cases h
      refine ⟨?_, fun x hx => List.mem_append_left _ hx, List.mem_append_right _ (by simp)⟩
      intro hmem
      exact hnot (List.contains_iff_mem.mpr hmem)

/-- The parser's generator returns only names outside `_defined_variables`. -/
theorem C07_parser_fresh : ∀ fuel, Sound (parserNamer fuel) := by
  intro fuel
  induction fuel with
  | zero => intro av b r av' h; simp [parserNamer] at h
  | succ fuel ih =>
    intro av b r av' h
    simp only [parserNamer] at h
    split at h
    · exact ih av _ r av' h
    · rename_i hnot
      cases h
      refine ⟨?_, fun x hx => List.mem_append_left _ hx, List.mem_append_right _ (by simp)⟩
      intro hmem
      exact hnot (List.contains_iff_mem.mpr hmem)

/-- a rule's worth of inventions: the namer is called for each base in turn on the evolving avoid-list -/
def inventAll (nm : Namer) : List (List Char) → List (List Char) → Option (List (List Char) × List (List Char))
  | av, [] => some ([], av)
  | av, b :: bs =>
    match nm av b with
    | none => none
    | some (r, av') =>
      match inventAll nm av' bs with
      | none => none
      | some (rs, av'') => some (r :: rs, av'')

/-- Hygiene, for ANY sound namer: all names invented within one rule are pairwise distinct (no two invented
variables merge) and none of them is in the initial avoid-list. -/
theorem C07_invented_distinct (nm : Namer) (hs : Sound nm) :
    ∀ (bs : List (List Char)) (av rs av' : List (List Char)), inventAll nm av bs = some (rs, av') →
      rs.Nodup ∧ (∀ r ∈ rs, r ∉ av) ∧ (∀ x, x ∈ av → x ∈ av') := by
  intro bs
  induction bs with
  | nil => intro av rs av' h; simp [inventAll] at h; obtain ⟨rfl, rfl⟩ := h; simp
  | cons b bs ih =>
    intro av rs av' h
    simp only [inventAll] at h
    split at h
    · cases h
    · next _ r av1 h1 =>
      split at h
      · cases h
      · next _ rs1 av2 h2 =>
        simp only [Option.some.injEq, Prod.mk.injEq] at h
        obtain ⟨rfl, rfl⟩ := h
        obtain ⟨f1, f2, f3⟩ := hs av b r av1 h1
        obtain ⟨g1, g2, g3⟩ := ih av1 rs1 av2 h2
        refine ⟨List.nodup_cons.mpr ⟨fun hm => g2 r hm f3, g1⟩, ?_, fun x hx => g3 x (f2 x hx)⟩
        intro x hx
        rcases List.mem_cons.mp hx with rfl | hx
        · exact f1
        · exact fun hav => g2 x hx (f2 x hav)

/-- Capture-freeness: if every variable the author wrote in the sentence is in the collision list, no
invented name is one of the author's variables — whatever the author called them, including names the
compiler itself would have chosen. -/
theorem C07_no_capture (nm : Namer) (hs : Sound nm) (author av bs rs av' : List (List Char))
    (hcomplete : ∀ v ∈ author, v ∈ av) (h : inventAll nm av bs = some (rs, av')) :
    ∀ r ∈ rs, r ∉ author := by
  intro r hr hauth
  exact (C07_invented_distinct nm hs bs av rs av' h).2.1 r hr (hcomplete r hauth)

/-- non-vacuity: the adversarial cases of the pinned tests and beyond -/
example : converterNamer 10 ["ND_D".toList] "node_id".toList = some ("ND_D1".toList, ["ND_D".toList, "ND_D1".toList, "ND_D1".toList]) := by
  decide
example : (converterNamer 10 ["CNT".toList, "CNT1".toList, "CNT2".toList] "count".toList).map (·.1) = some "CNT3".toList := by
  decide

end Cnl2aspModel.Naming
