/-
C16 — temporal concepts enumerate their range in chronological order.  Property theorems only.
The model (`Compiler/TemporalRange.lean`) is tied to /repo by the correspondence check of
harness/props/c16.py (real `TemporalEntityComponent(...).values` and `datetime` vs the model).
-/
import Cnl2aspModel.Compiler.TemporalRangeLemmas

namespace Cnl2aspModel.TemporalRange

/-- Exactly the points A, A+L, … not exceeding B, in order, numbered consecutively from 0 —
for every range and every length. -/
theorem C16_points (a b l : Nat) (hl : 0 < l) (hab : a ≤ b) :
    points a b l hl = (List.range ((b - a) / l + 1)).map (fun k => (a + k * l, k)) :=
  points_eq a b l hl hab

/-- Membership form of the same statement. -/
theorem C16_points_mem (a b l : Nat) (hl : 0 < l) (hab : a ≤ b) (p i : Nat) :
    (p, i) ∈ points a b l hl ↔ p = a + i * l ∧ a + i * l ≤ b := by
  rw [points_eq a b l hl hab]
  simp only [List.mem_map, List.mem_range, Prod.mk.injEq]
  constructor
  · rintro ⟨k, hk, rfl, rfl⟩
    refine ⟨rfl, ?_⟩
    have : k * l ≤ b - a := by
      have := Nat.div_mul_le_self (b - a) l
      have h2 : k ≤ (b - a) / l := by omega
      exact Nat.le_trans (Nat.mul_le_mul_right l h2) this
    omega
  · rintro ⟨rfl, h⟩
    refine ⟨i, ?_, rfl, rfl⟩
    have : i * l ≤ b - a := by omega
    have := (Nat.le_div_iff_mul_le hl).mpr this
    omega

/-- Ids follow chronological order: for two points of a range, the id of one is smaller than the
id of the other exactly when it is chronologically earlier.  This is what makes the emitted
comparison `Id > id(V)` / `Id < id(V)` mean "after V" / "before V". -/
theorem C16_before_after (a b l : Nat) (hl : 0 < l) (hab : a ≤ b) (p i v j : Nat)
    (hp : (p, i) ∈ points a b l hl) (hv : (v, j) ∈ points a b l hl) :
    (i < j ↔ p < v) ∧ (i > j ↔ p > v) := by
  obtain ⟨rfl, _⟩ := (C16_points_mem a b l hl hab p i).mp hp
  obtain ⟨rfl, _⟩ := (C16_points_mem a b l hl hab v j).mp hv
  constructor
  · constructor
    · intro h; have := Nat.mul_lt_mul_of_pos_right h hl; omega
    · intro h
      have : i * l < j * l := by omega
      exact Nat.lt_of_mul_lt_mul_right this
  · constructor
    · intro h; have := Nat.mul_lt_mul_of_pos_right h hl; omega
    · intro h
      have : j * l < i * l := by omega
      exact Nat.lt_of_mul_lt_mul_right this

/-- The 12-hour clock text determines the minute: no two points of a day print alike, hence no
dictionary entry is ever overwritten. -/
theorem C16_fmtTime_inj (m n : Nat) (hm : m < 1440) (hn : n < 1440) (h : fmtTime m = fmtTime n) : m = n :=
  fmtTime_inj m n hm hn h

/-- AM/PM and noon/midnight boundaries (kernel-evaluated). -/
theorem C16_ampm :
    fmtTime 0 = "12:00 AM".toList ∧ fmtTime 59 = "12:59 AM".toList ∧ fmtTime 60 = "01:00 AM".toList ∧
    fmtTime 719 = "11:59 AM".toList ∧ fmtTime 720 = "12:00 PM".toList ∧ fmtTime 780 = "01:00 PM".toList ∧
    fmtTime 1439 = "11:59 PM".toList ∧
    parseTime "12:00 AM".toList = some 0 ∧ parseTime "12:00 PM".toList = some 720 ∧
    parseTime "11:59 PM".toList = some 1439 := by decide

/-- Printing then reading a time gives the minute back, for every minute of the day. -/
theorem C16_time_roundtrip : ∀ m : Fin 1440, parseTime (fmtTime m.1) = some m.1 := by
  decide +kernel

/-- Time ranges: the dictionary of a time concept is exactly the list of its points' printed
values with ids 0, 1, 2, … -/
theorem C16_time_values (s e l : Nat) (hl : 0 < l) (hse : s ≤ e) (he : e < 1440) :
    dictOf ((points s e l hl).map fun p => (fmtTime p.1, p.2)) =
      (List.range ((e - s) / l + 1)).map (fun k => (fmtTime (s + k * l), k)) := by
  have hpts := points_eq s e l hl hse
  have hmap : (points s e l hl).map (fun p => (fmtTime p.1, p.2)) =
      (List.range ((e - s) / l + 1)).map (fun k => (fmtTime (s + k * l), k)) := by
    rw [hpts, List.map_map]; rfl
  rw [hmap]
  apply dictOf_nodup
  rw [List.map_map, List.Nodup, List.pairwise_map]
  have hr : (List.range ((e - s) / l + 1)).Pairwise (· ≠ ·) := List.nodup_range
  refine hr.imp_of_mem ?_
  intro x y hx hy hne hxy
  apply hne
  simp only [Function.comp] at hxy
  have bound : ∀ k, k ∈ List.range ((e - s) / l + 1) → s + k * l ≤ e := by
    intro k hk
    have h1 : k ≤ (e - s) / l := by simp at hk; omega
    have h2 := Nat.mul_le_mul_right l h1
    have h3 := Nat.div_mul_le_self (e - s) l
    omega
  have bx := bound x hx
  have by' := bound y hy
  have := fmtTime_inj (s + x * l) (s + y * l) (by omega) (by omega) hxy
  have : x * l = y * l := by omega
  exact Nat.eq_of_mul_eq_mul_right hl this

/-- Calendar: the next day of a valid date is valid and is exactly one ordinal later; month ends,
year ends and leap years included. -/
theorem C16_nextDay (t : Date) (h : t.Valid) : (nextDay t).Valid ∧ toOrd (nextDay t) = toOrd t + 1 :=
  ⟨nextDay_valid t h, toOrd_nextDay t h⟩

/-- Chronological (lexicographic) order of valid dates is the order of their ordinals. -/
theorem C16_date_order (a b : Date) (ha : a.Valid) (hb : b.Valid) : a.lt b ↔ toOrd a < toOrd b :=
  lt_iff_ord a b ha hb

/-- Refinement: the date enumeration is the integer enumeration on ordinals — so `C16_points`,
`C16_points_mem` and `C16_before_after` hold for day ranges across month and year ends, for every
length. -/
theorem C16_date_refines (a b : Date) (ha : a.Valid) (hb : b.Valid) (l : Nat) (hl : 0 < l) :
    (datePoints a b l (toOrd b + 2 - toOrd a)).map (fun p => (toOrd p.1, p.2)) =
      points (toOrd a) (toOrd b) l hl := by
  unfold datePoints points
  obtain ⟨hv, ho⟩ := addDays_ord l a ha
  simp only [List.map_cons]
  rw [dateLoop_ord l hl b hb _ (addDays l a) 1 hv (by omega), ho]

/-- A value that is not a point of the range has no id: the lookup fails (and the compiler raises
a compilation error, checked by the correspondence). -/
theorem C16_reject (vals : List (List Char × Nat)) (v : List Char) (h : ∀ p ∈ vals, p.1 ≠ v) :
    valueId vals v = none := by
  unfold valueId
  induction vals with
  | nil => rfl
  | cons p ps ih =>
    have hp : p.1 ≠ v := h p (by simp)
    have : (v == p.1) = false := by simpa using fun e => hp e.symm
    rw [List.lookup_cons, this]
    exact ih (fun q hq => h q (by simp [hq]))

/-- non-vacuity: a concrete range meets the hypotheses -/
example : points 450 480 10 (by decide) = [(450, 0), (460, 1), (470, 2), (480, 3)] := by
  rw [points_eq _ _ _ _ (by decide)]; decide
example : (⟨2024, 2, 28⟩ : Date).Valid ∧ nextDay ⟨2024, 2, 28⟩ = ⟨2024, 2, 29⟩ ∧
    nextDay ⟨2023, 2, 28⟩ = ⟨2023, 3, 1⟩ ∧ nextDay ⟨2023, 12, 31⟩ = ⟨2024, 1, 1⟩ := by decide

end Cnl2aspModel.TemporalRange
