/-
C11 — temporal block headers route rules to the right program part only.  Property theorems only.
`problemIdentifierPhrases` is regenerated from /repo on every run (T-gen); the state machine of
`Compiler/Route.lean` is tied to /repo by harness/props/c11.py (real outputs of header layouts).
-/
import Cnl2aspModel.Compiler.RouteLemmas

namespace Cnl2aspModel.Route
open Generated

/-- The four headers of the grammar are mapped to the four part names the property states. -/
theorem C11_names :
    partName "The following propositions apply in the initial state:" = some "initial" ∧
    partName "The following propositions always apply except in the initial state:" = some "dynamic" ∧
    partName "The following propositions always apply:" = some "always" ∧
    partName "The following propositions apply in the final state:" = some "final" ∧
    problemIdentifierPhrases.length = 4 := by
  decide

/-- every header phrase of the regenerated terminal names a part -/
theorem C11_headers_total : ∀ row ∈ problemIdentifierPhrases, (partName row.1).isSome = true := by
  decide

/-- Routing: for every document — any number of headers, in any order, repeated, with sentences
before the first header, and however the parser splits blocks into `specification` nodes — each rule
of the output stands under the directive of the last header written before its sentence (under no
directive if there is none), and the rules appear in sentence order. -/
theorem C11_route (es : List Event) (hh : ∀ h, .header h ∈ es → (partName h).isSome) :
    tagLines none (emit (run es)) = refTagged none es := by
  rw [run_eq]
  have := fold_spec es init none hh
  simpa [outOf, init, emit, emitProblem, tagLines, endTag] using this

/-- Splits are invisible: where Lark cuts a block in two does not change the routing. -/
theorem C11_splits_invisible (es : List Event) (hh : ∀ h, .header h ∈ es → (partName h).isSome) :
    tagLines none (emit (run es)) = tagLines none (emit (run (es.filter (· ≠ .split)))) := by
  rw [C11_route es hh, C11_route _ (fun h hm => hh h (List.mem_filter.mp hm).1)]
  have : ∀ (t : Option String) (l : List Event), refTagged t l = refTagged t (l.filter (· ≠ .split)) := by
    intro t l
    induction l generalizing t with
    | nil => rfl
    | cons e l ih =>
      cases e with
      | header h => simp [refTagged, ih]
      | sent rs => simp [refTagged, ih]
      | split => simp [refTagged, ih]
  exact this none es

/-- Deleting all headers changes nothing except that the directives disappear: the rule sequence of
the headed document is the rule sequence of the header-free one. -/
theorem C11_strip (es : List Event) (hh : ∀ h, .header h ∈ es → (partName h).isSome) :
    (tagLines none (emit (run es))).map (·.2) = (tagLines none (emit (run (dropHeaders es)))).map (·.2) := by
  rw [C11_route es hh, C11_route (dropHeaders es) (by
    intro h hm
    simp [dropHeaders] at hm)]
  have : ∀ (t t' : Option String) (l : List Event),
      (refTagged t l).map (·.2) = (refTagged t' (dropHeaders l)).map (·.2) := by
    intro t t' l
    induction l generalizing t t' with
    | nil => rfl
    | cons e l ih =>
      cases e with
      | header h => simpa [refTagged, dropHeaders] using ih (partName h) t'
      | sent rs =>
        have e : dropHeaders (Event.sent rs :: l) = Event.sent rs :: dropHeaders l := by simp [dropHeaders]
        rw [e]
        simp only [refTagged, List.map_append, List.map_map]
        have e2 : ∀ u : Option String, List.map ((fun x : Option String × Rule => x.2) ∘ fun r => (u, r)) rs = rs := by
          intro u; simp [Function.comp_def]
        rw [e2 t, e2 t', ih t t']
      | split => simpa [refTagged, dropHeaders] using ih t t'
  exact this none none es

/-- non-vacuity: a layout with pre-header sentences, a repeated header and a split -/
example : tagLines none (emit (run [.sent ["a."], .header "The following propositions apply in the initial state:",
      .sent ["b."], .split, .sent ["c."], .header "The following propositions apply in the initial state:", .sent ["d."]]))
    = [(none, "a."), (some "initial", "b."), (some "initial", "c."), (some "initial", "d.")] := by decide

end Cnl2aspModel.Route
