/-
C13 — the reported symbol table matches the predicates actually emitted.  Property theorems only.
The model (`Compiler/Signatures.lean`) is tied to /repo by harness/props/c13.py: the real
SignatureManager.add_signature / get_symbols on generated declaration sequences vs the model, and the
emitted atoms of real compilations vs the reported arities in both printing modes.
-/
import Cnl2aspModel.Compiler.Signatures
import Cnl2aspModel.Compiler.SignaturesFn

namespace Cnl2aspModel.Signatures

/-- An atom carries all keys and all attributes of its signature, and that is exactly the flat arity
`get_symbols` reports — for every signature shape (keys only, attributes only, both, none). -/
theorem C13_emit_arity (s : Sig) : atomArity s = flatArity s := by
  unfold atomArity flatArity Sig.all Sig.getKeys Sig.getAttributes
  by_cases hk : s.keys = []
  · simp [hk]
  · simp [hk]

/-- The table is append-only in names: adding a signature never removes or renames an earlier concept. -/
theorem C13_names_append (nameEq : String → String → Bool) (table : List Sig) (e : Sig) :
    (addSignature nameEq table e).map (·.name) = table.map (·.name) ∨
    (addSignature nameEq table e).map (·.name) = table.map (·.name) ++ [e.name] := by
  unfold addSignature
  split
  · left; rfl
  · right
    simp only [List.map_append, List.map_map, List.map_cons, List.map_nil]
    congr 1
    apply List.map_congr_left
    intro s _
    simp only [Function.comp, rewriteSig]
    split
    · rfl
    · split <;> rfl

/-- A concept that is already declared is never overwritten by a later declaration of the same name. -/
theorem C13_first_declaration_wins (nameEq : String → String → Bool) (table : List Sig) (e : Sig)
    (h : table.any (fun s => nameEq s.name e.name) = true) : addSignature nameEq table e = table := by
  simp [addSignature, h]

/-- A later concept leaves the arity of an earlier one alone when the earlier one does not mention it. -/
theorem C13_stable_arity_unmentioned (nameEq : String → String → Bool) (e s : Sig)
    (h : ∀ a ∈ s.all, nameEq a.name e.name = false) : rewriteSig nameEq e s = s := by
  unfold rewriteSig
  have : s.all.filter (fun a => nameEq a.name e.name) = [] := by
    rw [List.filter_eq_nil_iff]
    intro a ha
    simp [h a ha]
  simp [this]

/-- Function-term mode: the nested arity `get_symbols` reports (the number of distinct own attribute names and inherited
concepts) IS the number of top-level arguments the function-mode printer of C14 (`PrintAtom.group`) produces for an instance
of the signature — for every signature whose own attribute names are pairwise distinct and differ from the names of the
concepts it inherits from (decidable hypothesis `ownOkB`, evaluated by the driver on every table of every run; a signature
outside it is the shape of the repaired defect F22). -/
theorem C13_fn_arity (s : Sig) (h : ownOkB s.name (instanceAttrs s) = true) : printedFnArity seq s = fnArity s :=
  fn_arity_printed s h

/-- non-vacuity: a concept with one own key and two attributes inherited from the same concept has nested arity 2 -/
example : ownOkB "seat" (instanceAttrs ⟨"seat", [⟨"id", ["seat"]⟩], [⟨"id", ["room"]⟩, ⟨"floor", ["room"]⟩]⟩) = true ∧
    fnArity ⟨"seat", [⟨"id", ["seat"]⟩], [⟨"id", ["room"]⟩, ⟨"floor", ["room"]⟩]⟩ = 2 := by decide

/-- non-vacuity: a forward reference is expanded in place (`seat` mentions `room` before `room` is declared
with two keys): the arity of `seat` changes from 2 to 3 — the reason why the property is checked on the
emitted atoms, not only on the table. -/
example : (addSignature (· == ·) [⟨"seat", [⟨"id", ["seat"]⟩], [⟨"room", ["seat"]⟩]⟩]
      ⟨"room", [⟨"id", ["room"]⟩, ⟨"floor", ["room"]⟩], []⟩).map atomArity = [3, 2] := by decide

end Cnl2aspModel.Signatures
