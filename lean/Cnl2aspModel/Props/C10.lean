/-
C10 — sentences are compiled independently and in order.  Property theorems only.
The machine of `Compiler/Pipeline.lean` is tied to /repo by harness/props/c10.py: monitors on the real
CNLTransformer / ASPConverter objects (scratch state equal to its initial value at every sentence boundary;
signatures without per-occurrence marks) and the prefix / removal differential on real compilations.
-/
import Cnl2aspModel.Compiler.Pipeline

namespace Cnl2aspModel.Pipeline

variable {ε κ Sent Rule : Type}

/-- Refinement: because the scratch state is reset at every boundary, the implementation IS the fold of the
per-sentence function over the environment — for every behaviour of the sentences. -/
theorem C10_refines (m : Machine ε κ Sent Rule) (hr : ResetsAtBoundary m) :
    ∀ (ss : List Sent) (e : ε), (implRun m e m.k0 ss).2.2 = rules m e ss ∧ (implRun m e m.k0 ss).1 = envAfter m e ss := by
  intro ss
  induction ss with
  | nil => intro e; exact ⟨rfl, rfl⟩
  | cons s ss ih =>
    intro e
    simp only [implRun, rules, envAfter, sent1]
    rw [hr (m.raw e m.k0 s).2.1]
    obtain ⟨h1, h2⟩ := ih (m.raw e m.k0 s).1
    exact ⟨by rw [h1], h2⟩

/-- Prefix law: the rules of a prefix are a prefix of the rules of the whole, and the rest are the rules of the
remaining sentences in the environment the prefix leaves. -/
theorem C10_prefix (m : Machine ε κ Sent Rule) (xs ys : List Sent) (e : ε) :
    rules m e (xs ++ ys) = rules m e xs ++ rules m (envAfter m e xs) ys := by
  induction xs generalizing e with
  | nil => rfl
  | cons x xs ih => simp only [List.cons_append, rules, envAfter, ih, List.append_assoc]

theorem C10_env_append (m : Machine ε κ Sent Rule) (xs ys : List Sent) (e : ε) :
    envAfter m e (xs ++ ys) = envAfter m (envAfter m e xs) ys := by
  induction xs generalizing e with
  | nil => rfl
  | cons x xs ih => simp only [List.cons_append, envAfter, ih]

/-- Removal law: a sentence that leaves the environment as it found it (it introduces no signature, constant
or temporal concept) can be removed: exactly its rules disappear, every other rule stays, in the same order. -/
theorem C10_removal (m : Machine ε κ Sent Rule) (xs ys : List Sent) (s : Sent) (e : ε)
    (hs : (sent1 m (envAfter m e xs) s).1 = envAfter m e xs) :
    rules m e (xs ++ s :: ys) = rules m e xs ++ (sent1 m (envAfter m e xs) s).2 ++ rules m (envAfter m e xs) ys ∧
    rules m e (xs ++ ys) = rules m e xs ++ rules m (envAfter m e xs) ys := by
  constructor
  · rw [C10_prefix]
    simp only [rules, hs, List.append_assoc]
  · exact C10_prefix m xs ys e

/-- Order: the rule sequence is the concatenation, in sentence order, of the per-sentence rule lists. -/
theorem C10_order (m : Machine ε κ Sent Rule) (ss : List Sent) (e : ε) :
    ∃ parts : List (List Rule), parts.length = ss.length ∧ rules m e ss = parts.flatten := by
  induction ss generalizing e with
  | nil => exact ⟨[], rfl, rfl⟩
  | cons s ss ih =>
    obtain ⟨ps, hl, hr⟩ := ih (sent1 m e s).1
    exact ⟨(sent1 m e s).2 :: ps, by simp [hl], by simp [rules, hr]⟩

/-- non-vacuity: a machine whose sentences DO read the scratch state (a counter): with the reset the output
of a sentence does not depend on its position, without it it would. -/
example : (implRun (⟨0, fun e k s => (e, k + 1, [s ++ toString k]), fun _ => 0⟩ : Machine Unit Nat String String) () 0 ["a", "b"]).2.2
    = ["a0", "b0"] := by decide

end Cnl2aspModel.Pipeline
