/-
C09 — documented paraphrases compile to the same program.  Property theorems only.
The callback tables are regenerated from /repo on every run (T-gen): the synonym theorems are statements about what
the current grammar terminals and transformer callbacks do.  The string normalisers of `Compiler/Surface.lean` are
tied by harness/props/c09.py, which also carries the part that rests on Lark (articles, commas, white space,
comments): the same specification under different surface choices must give byte-identical real outputs.
-/
import Cnl2aspModel.Compiler.Surface
import Cnl2aspModel.Generated.Tables

namespace Cnl2aspModel.Surface
open Generated

/-- same value under the callback, both phrases being phrases of the terminal -/
def syn {α : Type} [DecidableEq α] (table : List (String × α)) (p q : String) : Bool :=
  match table.lookup p, table.lookup q with
  | some a, some b => a == b
  | _, _ => false

/-- Every synonym pair the property lists is a pair of phrases of the current grammar terminal that the current
callback maps to one and the same operator. -/
theorem C09_synonyms :
    syn comparisonPhrases "equal to" "the same as" = true ∧
    syn comparisonPhrases "more than" "greater than" = true ∧
    syn comparisonPhrases "at least" "greater than or equal to" = true ∧
    syn comparisonPhrases "at most" "less than or equal to" = true ∧
    syn comparisonPhrases "at most" "not after" = true ∧
    syn aggregatePhrases "the highest" "the biggest" = true ∧
    syn aggregatePhrases "the lowest" "the smallest" = true ∧
    syn dualPhrases "imply" "implies" = true ∧
    syn dualPhrases "trigger" "triggers" = true ∧
    syn temporalTypePhrases "minute" "minutes" = true ∧
    syn temporalTypePhrases "day" "days" = true ∧
    syn temporalTypePhrases "step" "steps" = true := by
  decide

/-- … and no two phrases that are NOT synonyms collapse: distinct listed meanings stay distinct. -/
theorem C09_distinct :
    syn comparisonPhrases "equal to" "different from" = false ∧
    syn comparisonPhrases "more than" "less than" = false ∧
    syn comparisonPhrases "at least" "at most" = false ∧
    syn comparisonPhrases "more than" "at least" = false ∧
    syn aggregatePhrases "the highest" "the lowest" = false ∧
    syn aggregatePhrases "the number" "the total" = false ∧
    syn temporalTypePhrases "minute" "day" = false := by
  decide

/-- the keyword alternatives the property lists are alternatives of the current terminals -/
theorem C09_keywords_present :
    "every" ∈ quantifiers ∧ "any" ∈ quantifiers ∧ "goes" ∈ goesWords ∧ "ranges" ∈ goesWords ∧
    "hold" ∈ holdWords ∧ "holds" ∈ holdWords ∧
    (∀ n ∈ ["do not", "does not", "don't", "doesn't", "are not", "aren't", "not"], n ∈ verbNegations) := by
  decide

/-- Third-person -s: for every verb word that does not itself end in `s`, with any preposition, the form with a
final `s` names the same predicate. -/
theorem C09_verb_s (w : List Char) (prep : Option (List Char)) (toHave : Bool) (_hne : w ≠ [])
    (hs : w.getLast? ≠ some 's') :
    verbKey (w ++ ['s']) prep toHave = verbKey w prep toHave := by
  have h1 : stripS (w ++ ['s']) = w := by
    unfold stripS
    simp [List.getLast?_append]
  have h2 : stripS w = w := by
    unfold stripS; simp [hs]
  unfold verbKey
  rw [h1, h2]

theorem ascii_lu : ∀ n : Fin 128, lowerChar (upperChar (Char.ofNat n.1)) = lowerChar (Char.ofNat n.1) := by decide
theorem ascii_ll : ∀ n : Fin 128, lowerChar (lowerChar (Char.ofNat n.1)) = lowerChar (Char.ofNat n.1) := by decide

/-- Letter case of a concept name does not matter: for every (ASCII) word, the capitalised spelling and the
all-lower-case spelling have the key of the word as written. -/
theorem C09_case (w : List Char) (hascii : ∀ c ∈ w, c.toNat < 128) :
    conceptKey (capitalize w) = conceptKey w ∧ conceptKey (lower w) = conceptKey w := by
  have lu : ∀ c : Char, c.toNat < 128 → lowerChar (upperChar c) = lowerChar c := by
    intro c h
    have := ascii_lu ⟨c.toNat, h⟩
    simpa [Char.ofNat_toNat] using this
  have ll : ∀ c : Char, c.toNat < 128 → lowerChar (lowerChar c) = lowerChar c := by
    intro c h
    have := ascii_ll ⟨c.toNat, h⟩
    simpa [Char.ofNat_toNat] using this
  constructor
  · cases w with
    | nil => rfl
    | cons c cs =>
      simp only [capitalize, conceptKey, lower, List.map_cons, List.cons.injEq, and_true]
      exact lu c (hascii c (by simp))
  · simp only [conceptKey, lower, List.map_map]
    apply List.map_congr_left
    intro c hc
    exact ll c (hascii c hc)

end Cnl2aspModel.Surface
