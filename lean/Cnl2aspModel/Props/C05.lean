/-
C05 — temporal connectives mean what they say on every trace.  Property theorems only.
`dualPhrases`, `telingoConstantPhrases`, `telSymbol`, `Op.name` are regenerated from /repo on every run (T-gen), so
every theorem is re-checked against the current operator tables.  The compiled TREE is tied to the printed TEXT by
harness/props/c05.py (clingo's theory-term parser with telingo's own operator table reads the real output), and
`Tel.eval` is validated against the real telingo on all traces up to the property's bound.
-/
import Cnl2aspModel.Compiler.TemporalLemmas

namespace Cnl2aspModel.Temporal
open Tel Generated

/-- MAIN: for every temporal condition — any nesting of operands and tails, every leading / hold operator
combination, every dual operator, the constants — for every finite trace and every state: wherever the reference
reading of the CNL sentence is defined and the compiler accepts the sentence, the compiled telingo rule fires
exactly when the condition is true. -/
theorem C05_main (t : TOp) (σ : Trace) (cf : Bool × F) (p : Pred)
    (hc : compileT t = some cf) (hh : holds σ t = some p) :
    ∀ i, fires σ cf i = p i := by
  unfold compileT at hc
  unfold holds at hh
  cases hb : compileBody t with
  | none => simp [hb] at hc
  | some f =>
    cases hq : holdsBody σ t with
    | none => simp [hq] at hh
    | some q =>
      simp [hb] at hc
      simp [hq] at hh
      subst hc; subst hh
      intro i
      have := body_ok σ t f q hb hq i
      unfold fires
      by_cases hn : topNeg t = true <;> simp [hn, this]

/-- Every phrase of the regenerated TELINGO_DUAL_OPERATOR terminal is mapped to an operator that telingo reads as a
binary connective (no phrase is lost, none maps to a symbol telingo does not know as binary). -/
theorem C05_dual_table : ∀ row ∈ dualPhrases, ((row.2.bind binaryOp).isSome) = true := by
  decide

/-- The four constants are mapped to telingo's keywords. -/
theorem C05_constant_table : ∀ row ∈ telingoConstantPhrases, ((row.2.bind constF).isSome) = true := by
  decide

/-- Each of the fourteen leading/hold combinations of the reference reading is accepted by the compiler's
operator-name assembly (no KeyError) and is a unary telingo operator. -/
theorem C05_combinations_total :
    ∀ lh ∈ [(Lead.before, Lead.always), (.always, .before), (.before, .eventually), (.eventually, .before),
            (.after, .always), (.always, .after), (.after, .eventually), (.eventually, .after),
            (.always, .sinceBefore), (.eventually, .sinceBefore), (.always, .sinceAfter), (.eventually, .sinceAfter)],
      (((opOfName (combinedName lh.1 lh.2)).bind unaryOp).isSome) = true := by
  decide

/-- Sanity of the semantics: since / trigger and until / release are duals on every trace. -/
theorem C05_duality (σ : Trace) (f g : F) (i : Nat) :
    eval σ (.trigger f g) i = !eval σ (.since (.neg f) (.neg g)) i ∧
    eval σ (.release f g) i = !eval σ (.until_ (.neg f) (.neg g)) i := by
  constructor <;> simp [eval, List.all_eq_not_any_not, Bool.not_and, Bool.not_or]

/-- non-vacuity: a nested condition is supported, compiled, and fires on a concrete trace -/
example : let t := TOp.chain ⟨false, some .after, .leaf (.ent .none 0), some (false, .eventually)⟩ "and"
                     (.single ⟨false, none, .dual (.ent .none 1) "since" (.leaf (.ent .none 0)), none⟩)
    (compileT t).isSome ∧ (holds [[0], [1], [0, 1]] t).isSome ∧
    ((compileT t).map fun cf => fires [[0], [1], [0, 1]] cf 1) = some true := by decide

end Cnl2aspModel.Temporal
