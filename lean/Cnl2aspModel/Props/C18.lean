/-
C18 — the command line never crashes and never leaves a partial result.  Property theorems only.
The model (`Compiler/Cli.lean`) is tied to /repo by harness/props/c18.py: the real
`get_uncrecognized_word`, `ParserError(...)` and `main()` are run on the same inputs as the model.
-/
import Cnl2aspModel.Compiler.Cli

namespace Cnl2aspModel.Cli
open Cnl2aspModel.LineCol

/-- No flag set and no behaviour of the compiler makes `main` end with an uncaught exception. -/
theorem C18_no_uncaught : ∀ (f : Flags) (o : Outcome), (cli f o).uncaught = false := by
  intro f o
  unfold cli
  split <;> (try split) <;> rfl

/-- Whenever an error is reported no output file is opened (hence none is written). -/
theorem C18_no_file_on_error : ∀ (f : Flags) (o : Outcome), (∀ b, o ≠ .ok b) → (cli f o).fileOpened = false := by
  intro f o h
  unfold cli
  split
  · rename_i b _; exact absurd rfl (h b)
  · rfl
  · rfl
  · rfl

/-- The outcome class decides the diagnostic: a parser error is reported as a parser diagnostic,
in every mode. -/
theorem C18_diagnostic_kind : ∀ (f : Flags), (cli f .unexpectedCharacters).printed = .parserDiagnostic ∧
    (cli f .visitError).printed = .compilationDiagnostic ∧ (cli f .other).printed = .conversionDiagnostic := by
  intro f
  unfold cli
  cases h : f.mode <;> simp [diagnostic]

/-- The word extractor is a total function whose result is a blank-free piece of the line that
contains the offending position (so building the diagnostic can never fail, wherever the
unexpected character stands: first/last word, no blank at all, …). -/
theorem C18_word_no_blank (s : List Char) (i : Nat) : ' ' ∉ unrecognizedWord s i :=
  word_no_blank s i

/-- The diagnostic cites exactly the (line, column) of the exception, and that pair determines the
offset of the offending character (round trip through the position arithmetic). -/
theorem C18_linecol (s : List Char) (k : Nat) (hk : k ≤ s.length) :
    offsetOf s (lineCol s k).1 (lineCol s k).2 = k :=
  offsetOf_lineCol s k hk

theorem C18_headline_cites (line col : Nat) (ch : List Char) :
    headline line col ch = "Parser error at line ".toList ++ (toString line).toList ++ ", col ".toList ++
      (toString col).toList ++ ". Unexpected char \"".toList ++ ch ++ "\":\n".toList := rfl

/-- non-vacuity -/
example : unrecognizedWord "A node is identified by an id%.".toList 29 = "id%.".toList := by decide
example : unrecognizedWord "%".toList 0 = "%".toList := by decide
example : (cli ⟨true, false, false, false, true, false⟩ .unexpectedCharacters) = ⟨false, .parserDiagnostic, false⟩ := by decide

end Cnl2aspModel.Cli
