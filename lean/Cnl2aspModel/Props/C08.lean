/-
C08 — automatic joins connect only positions that denote the same attribute.  Property theorems only.
The linker model (`Compiler/Link.lean`) is tied to /repo by harness/props/c08.py (the real AttributeOrigin.__eq__,
is_same_origin and ASPConverter._link_two_atoms on generated inputs vs the model).
-/
import Cnl2aspModel.Compiler.Link

namespace Cnl2aspModel.Link

theorem originEq_last (nameEq : String → String → Bool) : ∀ (c1 c2 : Chain), originEq nameEq c1 c2 = true →
    c1 ≠ [] → ∃ a b, c1.getLast? = some a ∧ c2.getLast? = some b ∧ nameEq a b = true := by
  intro c1
  induction c1 with
  | nil => intro c2 _ h; exact absurd rfl h
  | cons a as ih =>
    intro c2 he _
    cases c2 with
    | nil => simp [originEq] at he
    | cons b bs =>
      simp only [originEq, Bool.and_eq_true] at he
      obtain ⟨hab, hrest⟩ := he
      cases as with
      | nil =>
        cases bs with
        | nil => exact ⟨a, b, by simp, by simp, hab⟩
        | cons _ _ => simp [originEq] at hrest
      | cons a2 as2 =>
        obtain ⟨x, y, hx, hy, hxy⟩ := ih bs hrest (by simp)
        cases bs with
        | nil => simp [originEq] at hrest
        | cons b2 bs2 =>
          refine ⟨x, y, ?_, ?_, hxy⟩
          · simpa [List.getLast?_cons_cons] using hx
          · simpa [List.getLast?_cons_cons] using hy

/-- Only origins with the same innermost concept are ever identified: if `is_same_origin` accepts two origins they
are both absent, or their innermost concept names are equal under the name equality. -/
theorem C08_sameOrigin_leaf (nameEq : String → String → Bool) (o1 o2 : Option Chain)
    (h1 : ∀ c, o1 = some c → c ≠ []) (h2 : ∀ c, o2 = some c → c ≠ [])
    (h : isSameOrigin nameEq o1 o2 = true) :
    (o1 = none ∧ o2 = none) ∨ ∃ a b, leaf o1 = some a ∧ leaf o2 = some b ∧ (nameEq a b = true ∨ nameEq b a = true) := by
  cases o1 with
  | none => cases o2 with
    | none => left; exact ⟨rfl, rfl⟩
    | some c => simp [isSameOrigin] at h
  | some c1 => cases o2 with
    | none => simp [isSameOrigin] at h
    | some c2 =>
      right
      have n1 := h1 c1 rfl
      have n2 := h2 c2 rfl
      simp only [isSameOrigin, Bool.or_eq_true, Bool.and_eq_true, decide_eq_true_eq] at h
      rcases h with (h | ⟨ht, h⟩) | ⟨ht, h⟩
      · obtain ⟨a, b, ha, hb, hab⟩ := originEq_last nameEq c1 c2 h n1
        exact ⟨a, b, ha, hb, Or.inl hab⟩
      · obtain ⟨a, b, ha, hb, hab⟩ := originEq_last nameEq c1.tail c2 h ht
        refine ⟨a, b, ?_, hb, Or.inl hab⟩
        cases c1 with
        | nil => exact absurd rfl n1
        | cons x xs =>
          cases xs with
          | nil => exact absurd rfl ht
          | cons y ys => simpa [leaf, List.getLast?_cons_cons] using ha
      · obtain ⟨a, b, ha, hb, hab⟩ := originEq_last nameEq c2.tail c1 h ht
        refine ⟨b, a, hb, ?_, Or.inr hab⟩
        cases c2 with
        | nil => exact absurd rfl n2
        | cons x xs =>
          cases xs with
          | nil => exact absurd rfl ht
          | cons y ys => simpa [leaf, List.getLast?_cons_cons] using ha

/-- `set_attributes_value` writes at most one position; that position was null, carries the linked attribute's name and
has an origin `is_same_origin` accepts; every other position is untouched. -/
theorem setFirstNull_spec (nameEq : String → String → Bool) (name : String) (origin : Option Chain) (v : String) :
    ∀ (l l' : List Attr) (p : Option Nat), setFirstNull nameEq name origin v l = (l', p) →
      (p = none → l' = l) ∧
      (∀ k, p = some k → ∃ a, l[k]? = some a ∧ a.name = name ∧ isSameOrigin nameEq a.origin origin = true ∧ isNull a = true ∧
          l' = l.set k { a with value := v }) := by
  intro l
  induction l with
  | nil => intro l' p h; simp [setFirstNull] at h; obtain ⟨rfl, rfl⟩ := h; simp
  | cons a as ih =>
    intro l' p h
    simp only [setFirstNull] at h
    split at h
    · rename_i hc
      simp only [Prod.mk.injEq] at h
      obtain ⟨rfl, rfl⟩ := h
      simp only [Bool.and_eq_true, beq_iff_eq] at hc
      refine ⟨by simp, ?_⟩
      intro k hk
      cases hk
      exact ⟨a, by simp, hc.1.1, hc.1.2, hc.2, by simp⟩
    · cases hr : setFirstNull nameEq name origin v as with
      | mk as' q =>
        simp only [hr, Prod.mk.injEq] at h
        obtain ⟨rfl, rfl⟩ := h
        obtain ⟨i1, i2⟩ := ih as' q hr
        constructor
        · intro hq
          cases q with
          | none => rw [i1 rfl]
          | some _ => simp at hq
        · intro k hk
          cases q with
          | none => simp at hk
          | some k0 =>
            simp only [Option.map_some, Option.some.injEq] at hk
            subst hk
            obtain ⟨b, hb, h1, h2, h3, h4⟩ := i2 k0 rfl
            exact ⟨b, by simpa using hb, h1, h2, h3, by simp [h4]⟩

/-- A link step writes one value into (at most) one position of the searched atom and into the linked attribute; the
written position has the linked attribute's name and a compatible origin. -/
theorem C08_link_compatible (nameEq : String → String → Bool) (st st' : St) (i j : Nat)
    (h : tryLink nameEq st i j = (st', true)) :
    ∃ tgt v, st.a2.attrs[j]? = some tgt ∧ st'.a2.attrs = st.a2.attrs.set j { tgt with value := v } ∧
      (st'.a1.attrs = st.a1.attrs ∨
       ∃ k a, st.a1.attrs[k]? = some a ∧ a.name = tgt.name ∧ isSameOrigin nameEq a.origin tgt.origin = true ∧ isNull a = true ∧
         st'.a1.attrs = st.a1.attrs.set k { a with value := v }) := by
  unfold tryLink at h
  split at h
  · rename_i x tgt hx ht
    split at h
    · simp at h
    · split at h
      · simp at h
      · split at h
        · split at h
          · simp at h
          · simp only [Prod.mk.injEq, and_true] at h
            cases hs : setFirstNull nameEq tgt.name tgt.origin
                (if (!isNull x) = true then x.value else if (!isNull tgt) = true then tgt.value else fresh (st.supply + 1 - 1)) st.a1.attrs with
            | mk l' p =>
              obtain ⟨s1, s2⟩ := setFirstNull_spec nameEq _ _ _ _ _ _ hs
              subst h
              refine ⟨tgt, _, ht, rfl, ?_⟩
              simp only [hs]
              cases p with
              | none => left; exact s1 rfl
              | some k =>
                right
                obtain ⟨a, ha, h1, h2, h3, h4⟩ := s2 k rfl
                exact ⟨k, a, ha, h1, h2, h3, h4⟩
        · simp at h
  · simp at h

/-- the abstract rule state: every position has a key (attribute name, innermost concept) and holds a value -/
abbrev Key := String × Option String

/-- invented variables are held only by positions with one and the same key -/
def Inv (invented : String → Bool) (ps : List (Key × String)) : Prop :=
  ∀ p ∈ ps, ∀ q ∈ ps, invented p.2 = true → p.2 = q.2 → p.1 = q.1

/-- writing a value into positions -/
def writeAt (ps : List (Key × String)) (idx : List Nat) (v : String) : List (Key × String) :=
  ps.zipIdx.map fun (p, i) => if idx.contains i then (p.1, v) else p

/-- A link step preserves the invariant: it writes a value `v` into positions that all have the key `k`, where `v`
is either fresh (held by nobody) or already held only by positions with key `k` (the source of the copy). -/
theorem C08_link_inv (invented : String → Bool) (ps : List (Key × String)) (idx : List Nat) (v : String) (k : Key)
    (hinv : Inv invented ps)
    (hkeys : ∀ i ∈ idx, ∀ p, ps[i]? = some p → p.1 = k)
    (hsrc : ∀ p ∈ ps, p.2 = v → p.1 = k) :
    Inv invented (writeAt ps idx v) := by
  intro p hp q hq hi hpq
  simp only [writeAt, List.mem_map] at hp hq
  obtain ⟨⟨p0, ip⟩, hp0, rfl⟩ := hp
  obtain ⟨⟨q0, iq⟩, hq0, rfl⟩ := hq
  have hp1 := List.mem_zipIdx hp0
  have hq1 := List.mem_zipIdx hq0
  simp only [Nat.zero_add, Nat.sub_zero] at hp1 hq1
  have gp : ps[ip]? = some p0 := by rw [hp1.2.2]; exact List.getElem?_eq_getElem hp1.2.1
  have gq : ps[iq]? = some q0 := by rw [hq1.2.2]; exact List.getElem?_eq_getElem hq1.2.1
  have mp : p0 ∈ ps := List.mem_of_getElem? gp
  have mq : q0 ∈ ps := List.mem_of_getElem? gq
  by_cases cp : idx.contains ip = true <;> by_cases cq : idx.contains iq = true <;> simp only [cp, cq, if_true] at hi hpq ⊢
  · rw [hkeys ip (by simpa using cp) p0 gp, hkeys iq (by simpa using cq) q0 gq]
  · simp only [Bool.false_eq_true, if_false] at hpq ⊢
    rw [hkeys ip (by simpa using cp) p0 gp]
    exact (hsrc q0 mq hpq.symm).symm
  · simp only [Bool.false_eq_true, if_false] at hi hpq ⊢
    rw [hkeys iq (by simpa using cq) q0 gq]
    exact hsrc p0 mp hpq
  · simp only [Bool.false_eq_true, if_false] at hi hpq ⊢
    exact hinv p0 mp q0 mq hi hpq

/-- Rule level: any sequence of link steps (any sequence of relations) preserves the invariant. -/
theorem C08_rule_inv (invented : String → Bool) (steps : List (List Nat × String × Key)) :
    ∀ ps : List (Key × String), Inv invented ps →
      (∀ ps' : List (Key × String), ∀ s ∈ steps, Inv invented ps' →
        (∀ i ∈ s.1, ∀ p, ps'[i]? = some p → p.1 = s.2.2) ∧ (∀ p ∈ ps', p.2 = s.2.1 → p.1 = s.2.2)) →
      Inv invented (steps.foldl (fun st s => writeAt st s.1 s.2.1) ps) := by
  induction steps with
  | nil => intro ps h _; exact h
  | cons s ss ih =>
    intro ps h hsteps
    simp only [List.foldl_cons]
    obtain ⟨hk, hs⟩ := hsteps ps s (by simp) h
    exact ih _ (C08_link_inv invented ps s.1 s.2.1 s.2.2 h hk hs)
      (fun ps' s' hs' hinv' => hsteps ps' s' (List.mem_cons_of_mem _ hs') hinv')

/-- non-vacuity: the pinned test of the repository (`test_link_two_atoms`-like shapes) -/
example : let r := linkTwoAtoms (· == ·) ⟨"node", [⟨"id", "_", some ["node"]⟩]⟩
                     ⟨"assigned_to", [⟨"id", "_", some ["assigned_to", "node"]⟩, ⟨"id", "_", some ["assigned_to", "color"]⟩]⟩
                     [("id", some ["node"])] [("id", some ["assigned_to", "node"]), ("id", some ["assigned_to", "color"])] [] 0
    (r.a2.attrs.map (·.value), r.a1.attrs.map (·.value)) = (["F0"], ["F0", "_"]) := by decide

end Cnl2aspModel.Link
