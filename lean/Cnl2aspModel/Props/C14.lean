/-
C14 — function-term mode prints the same program with foreign keys wrapped.  Property theorems only.
The model (`Asp/PrintAtom.lean`) is tied to /repo by harness/props/c14.py: the real `str(ASPAtom)`
in both modes on generated and harvested atoms vs `printFlat` / `printFn`.
-/
import Cnl2aspModel.Asp.PrintAtomLemmas

namespace Cnl2aspModel.PrintAtom

/-- No argument is dropped or duplicated: for every atom, every name-equality and every argument
pattern (several `_`, repeated variables, origins nested to any depth), the leaves of the
function-mode term are a permutation of the default-mode arguments. -/
theorem C14_no_drop_no_dup (nameEq : String → String → Bool) (a : Atom) :
    (leavesL (fnTree nameEq a)).Perm (a.attrs.map (·.value)) :=
  leaves_perm nameEq _ a.name a.attrs (Nat.le_refl _)

/-- Flattening gives back the default-mode atom exactly whenever every group of inherited
attributes is contiguous in the signature. -/
theorem C14_flatten_partial (nameEq : String → String → Bool) (a : Atom)
    (hc : contiguous nameEq (measure a.attrs) a.name a.attrs = true) :
    flattenFn nameEq a = printFlat a := by
  unfold flattenFn printFlat
  split
  · rfl
  · rw [show leavesL (fnTree nameEq a) = a.attrs.map (·.value) from
      leaves_eq nameEq _ a.name a.attrs (Nat.le_refl _) hc]

/- FULL STATEMENT (the property's; false when a concept's foreign-key group is interleaved with other
attributes, see Findings/C14.lean, finding F20):
theorem C14_flatten (nameEq) (a : Atom) : flattenFn nameEq a = printFlat a
-/

/-- A predicate keeps one shape: the nesting of the printed atom is a function of the atom's name and
its attributes' origins only. -/
theorem C14_shape (nameEq : String → String → Bool) (a b : Atom) (hn : a.name = b.name)
    (ho : origins a.attrs = origins b.attrs) :
    shapeL (fnTree nameEq a) = shapeL (fnTree nameEq b) := by
  unfold fnTree
  have hm : measure a.attrs = measure b.attrs := by
    have : a.attrs.map weight = b.attrs.map weight := by
      have e : ∀ l : List Attr, l.map weight = (origins l).map (fun o => 1 + o.length) := by
        intro l; simp [origins, weight, List.map_map, Function.comp_def]
      rw [e, e, ho]
    simp [measure, this]
  rw [hm, hn]
  exact shape_indep nameEq _ b.name a.attrs b.attrs ho

/-- non-vacuity: two anonymous foreign keys of the same concept, and a two-level origin -/
example : printFn (· == ·) ⟨"order", [⟨"name", "_", ["serve", "waiter"]⟩, ⟨"name", "_", ["waiter"]⟩, ⟨"tip", "3", ["order"]⟩], false, false, false, false, false⟩
    = "order(serve(waiter(_)),waiter(_),3)" := by decide
end Cnl2aspModel.PrintAtom
