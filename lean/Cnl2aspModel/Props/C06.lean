/-
C06 — every compiled program is accepted by the solver it targets.  Property theorems only (term layer).
`Compiler/Value.lean` is tied to /repo by harness/props/c06.py (the real convert_value on generated values); that whole
programs parse and ground is decided with the real clingo / telingo on every output of the generators and the corpus.
-/
import Cnl2aspModel.Compiler.Value
import Cnl2aspModel.Cnl.Safety
import Cnl2aspModel.Asp.GramLemmas
import Cnl2aspModel.Asp.PrintProgAtom
import Cnl2aspModel.Generated.Tables

namespace Cnl2aspModel.Value

theorem alnum_not_quote (c : Char) (h : isAlnumU c = true) : (c != '"' && c != '\\') = true := by
  unfold isAlnumU isDigit isUpperC isLowerC at h
  simp only [Bool.or_eq_true, decide_eq_true_eq, beq_iff_eq] at h
  have : c ≠ '"' ∧ c ≠ '\\' := by
    constructor <;> (intro e; subst e; revert h; decide)
  simp [this.1, this.2]

theorem all_noquote (v : List Char) (h : v.all (fun c => isAlnumU c || c == ' ') = true) :
    v.all (fun c => c != '"' && c != '\\') = true := by
  rw [List.all_eq_true] at h ⊢
  intro x hx
  have := h x hx
  simp only [Bool.or_eq_true, beq_iff_eq] at this
  rcases this with h1 | h1
  · exact alnum_not_quote x h1
  · subst h1; decide

theorem alnum_all_space (v : List Char) (h : v.all isAlnumU = true) : v.all (fun c => isAlnumU c || c == ' ') = true := by
  rw [List.all_eq_true] at h ⊢
  intro x hx; simp [h x hx]

/-- Quoting never produces a broken token: every value the grammar can deliver (for letter-initial names and integer
numbers) is printed as a number, a variable, `_`, a declared constant, or a string literal without an inner quote or
backslash — whatever the set of declared constants. -/
theorem C06_value (consts : List (List Char)) (v : List Char) (hg : FromGrammar v)
    (hconst : ∀ k ∈ consts, ∃ c cs, k = c :: cs ∧ isLowerC c = true ∧ cs.all isAlnumU = true) :
    WFTerm consts (convertValue consts v) := by
  have hall : v.all (fun c => isAlnumU c || c == ' ') = true ∨ isNumeric v = true := by
    rcases hg with h | ⟨c, cs, rfl, hc, hcs⟩ | ⟨h, _⟩
    · right; exact h
    · left
      apply alnum_all_space
      simp only [List.all_cons, Bool.and_eq_true]
      refine ⟨?_, hcs⟩
      unfold isAlnumU
      simp only [Bool.or_eq_true] at hc ⊢
      rcases hc with h | h <;> simp [h]
    · left; exact h
  have hne : v.isEmpty = false := by
    rcases hg with h | ⟨c, cs, rfl, _, _⟩ | ⟨_, h⟩
    · cases v with
      | nil => simp [isNumeric] at h
      | cons _ _ => rfl
    · rfl
    · cases v with
      | nil => simp at h
      | cons _ _ => rfl
  unfold convertValue
  simp only [hne, Bool.false_eq_true, if_false]
  by_cases hc : consts.contains v = true
  · simp only [hc, Bool.not_true, Bool.false_and, Bool.false_eq_true, if_false]
    right; right; right; right
    exact ⟨hc, hconst v (by simpa using hc)⟩
  · by_cases hu : v = ['_']
    · subst hu
      simp only [hc, bne_self_eq_false, Bool.and_false, Bool.false_and, Bool.false_eq_true, if_false]
      right; right; left; rfl
    · by_cases hn : isNumeric v = true
      · simp only [hn, Bool.not_true, Bool.and_false, Bool.false_and, Bool.false_eq_true, if_false]
        left; exact hn
      · by_cases hup : isUpper v = true
        · simp only [hup, Bool.not_true, Bool.and_false, Bool.false_eq_true, if_false]
          right; left
          rcases hg with h | ⟨c, cs, rfl, hcl, hcs⟩ | ⟨_, hlow⟩
          · exact absurd h hn
          · refine ⟨c, cs, rfl, ?_, hcs⟩
            unfold isUpper at hup
            simp only [List.any_cons, Bool.and_eq_true, Bool.or_eq_true, Bool.not_eq_true', Bool.or_eq_false_iff] at hup
            rcases (Bool.or_eq_true _ _).mp hcl with h | h
            · exact h
            · simp [h] at hup
          · unfold isUpper at hup
            simp [hlow] at hup
        · have hq : (!consts.contains v && v != ['_'] && !isNumeric v && !isUpper v) = true := by
            have hc' : ¬ v ∈ consts := by simpa using hc
            simp [hc', hu, hn, hup]
          simp only [hq, if_true]
          right; right; right; left
          refine ⟨v, rfl, ?_⟩
          rcases hall with h | h
          · exact all_noquote v h
          · exact absurd h hn

/-- Choice bounds are printed exactly when they are present — `0` included (bounds are the parser's strings). -/
theorem C06_bounds (lo hi inner : List Char) (hl : lo ≠ []) (hh : hi ≠ []) :
    printBounds (some lo) (some hi) inner = lo ++ " <= ".toList ++ ['{'] ++ inner ++ ['}'] ++ " <= ".toList ++ hi ∧
    printBounds none none inner = ['{'] ++ inner ++ ['}'] := by
  constructor
  · unfold printBounds
    have h1 : lo.isEmpty = false := by cases lo <;> simp_all
    have h2 : hi.isEmpty = false := by cases hi <;> simp_all
    simp [h1, h2]
  · simp [printBounds]

/-- non-vacuity -/
example : convertValue [] "red".toList = "\"red\"".toList ∧ convertValue [] "X1".toList = "X1".toList ∧
    convertValue ["kk".toList] "kk".toList = "kk".toList ∧ convertValue [] "12".toList = "12".toList := by decide

end Cnl2aspModel.Value


namespace Cnl2aspModel.Core.Exec
open Asp Core

/-- safety layer, core fragment: every rule printed for a range-restricted core sentence (facts, choices, definitions,
prohibitions, requirements — the decidable check `safeB` is evaluated by the driver on every generated specification) satisfies
the solver's safety condition: each variable of the rule occurs in a positive body atom, each variable of a choice element in a
positive atom of the body or of the element's condition.  The compiler's invented variables are variables of these rules. -/
theorem C06_core_safe (σ : Sentence) (h : Sentence.safeB σ = true) : ∀ r ∈ σ.rules, RuleSafe r :=
  rules_safe σ (Sentence.safeB_sound σ h)

end Cnl2aspModel.Core.Exec


namespace Cnl2aspModel.Gram
open PrintAtom PrintProg

/-- statement syntax: every well-formed rule object (head atoms, conditions, choice bounds, body atoms, comparisons over
arithmetic terms, aggregates, `&tel` formulas with any nesting; weak constraints) is printed by the model of the `__str__`
methods as a statement of the solver's grammar — for all names, values, operand counts and nesting depths.  `wfRule` is
decidable and evaluated by the driver on every real rule object; the printer model is compared with the real printer byte
for byte on every run (harness/props/c06.py: printer_layer). -/
theorem C06_rule_syntax (r : Rule) (h : wfRule r = true) : Stmt (toks (ruleP none r)) := stmt_of_wf r h

/-- a whole encoding (constant directives, program parts, rules) prints to a program of the grammar -/
theorem C06_program_syntax (e : Encoding) (h : (e.programs.all fun p => p.rules.all wfRule) = true) :
    Prog (toks (encodingP none e)) := prog_of_encoding e h

/-- the program-level printer model and the atom-level model of C14 print the same default-mode atoms: the pieces of an atom
concatenate to `PrintAtom.printFlat`, the string the theorems of C14 (no argument dropped, flattening) speak about -/
theorem C06_atoms_are_C14_atoms (a : Atom) : text (atomPieces a) = printFlat a := atomPieces_text a

/-- the symbols of the compiler's own tables (regenerated from the current source before every build: ASPOperation.operators,
ASPTemporalOperation.asp_temporal_operators, ASPAggregate.symbols) are symbols of the grammar: every comparison / arithmetic
symbol, every temporal operator, every aggregate function name the printers can emit -/
theorem C06_symbols_in_grammar :
    (∀ o s, Generated.aspSymbol o = some s → isCmp s = true ∨ isArithSym s = true ∨ s = "|") ∧
    (∀ o s, Generated.telSymbol o = some s → isTelSym s = true) ∧
    (∀ o s, Generated.aggSymbol o = some s → isAggSym s = true) := by
  refine ⟨?_, ?_, ?_⟩
  · intro o s h
    cases o <;> simp only [Generated.aspSymbol, Option.some.injEq, reduceCtorEq] at h <;> subst h <;> decide
  · intro o s h
    cases o <;> simp only [Generated.telSymbol, Option.some.injEq, reduceCtorEq] at h <;> subst h <;> decide
  · intro o s h
    cases o <;> simp only [Generated.aggSymbol, Option.some.injEq, reduceCtorEq] at h <;> subst h <;> decide

/-- non-vacuity: a choice rule with a head condition, a body with a negated atom, an aggregate comparison, an arithmetic
comparison and a temporal formula is well-formed (the driver prints it as
`1 <= {assigned_to(X,C): colour(C)} :- node(X), not node(Y), #count{Z: edge(X,Z)} > 1, X + 1 <= Y,not not &tel {< << on(X)}.`) -/
example :
    let node : Atom := { name := "node", attrs := [⟨"id", "X", []⟩] }
    let r : Rule := {
      head := [{ elem := .atom { name := "assigned_to", attrs := [⟨"id", "X", []⟩, ⟨"id", "C", []⟩] },
                 cond := [.atom { name := "colour", attrs := [⟨"id", "C", []⟩] }] }],
      body := [.atom node, .atom { node with negated := true, attrs := [⟨"id", "Y", []⟩] },
               .op .plain ">" [.agg "count" [.val "Z"] [.atom { name := "edge", attrs := [⟨"a", "X", []⟩, ⟨"b", "Z", []⟩] }], .val "1"],
               .op .plain "<=" [.op .plain "+" [.val "X", .val "1"], .val "Y"],
               .tel false [.op .temporal "<" [.atom { name := "on", attrs := [⟨"id", "X", []⟩], isInitial := true }]]],
      card := some ("1", "") }
    wfRule r = true := by
  decide

end Cnl2aspModel.Gram
