/-
C12 — compilation is a pure function of the text and the options.  Property theorems only.
The state machine of `Compiler/Api.lean` is tied to /repo by harness/props/c12.py: monitors around real API
calls (which process-wide components each call reads, writes and resets; module-level objects and shared
default arguments never change) and the frame condition `FlagBlind`.
-/
import Cnl2aspModel.Compiler.Api

namespace Cnl2aspModel.Api

variable {σ ρ Out : Type}

/-- History independence: whatever was compiled, checked or rejected before — any sequence of API calls, from
any process state — the result of a call is the result it has in a fresh process.  Holds for every front end
(parser, converters) whatsoever. -/
theorem C12_history (F : Front σ ρ Out) (hb : FlagBlind F) (g0 : G σ) (h : List Call) (c : Call) :
    (step F (run F g0 h) c).2 = (step F ⟨F.empty, true⟩ c).2 := by
  generalize run F g0 h = g
  cases c with
  | compile t al pf => rfl
  | getSymbols t => rfl
  | checkSyntax t =>
    simp only [step, parseInput]
    cases hg : g.autoLink
    · exact ((hb F.empty t).1).symm
    · rfl
  | cnlToJson t =>
    simp only [step, parseInput]
    cases hg : g.autoLink
    · exact ((hb F.empty t).2).symm
    · rfl

/-- Repetition: calling the same thing again gives the same result. -/
theorem C12_repeat (F : Front σ ρ Out) (hb : FlagBlind F) (g0 : G σ) (c : Call) :
    (step F (step F g0 c).1 c).2 = (step F g0 c).2 := by
  have h1 := C12_history F hb g0 [c] c
  have h2 := C12_history F hb g0 [] c
  simp only [run] at h1 h2
  rw [h1, h2]

/-- What a call leaves behind never depends on what was there before (so histories cannot accumulate state):
the table after a call is a function of the call alone. -/
theorem C12_state_after (F : Front σ ρ Out) (g g' : G σ) (c : Call) (hf : g.autoLink = g'.autoLink) :
    (step F g c).1.sigs = (step F g' c).1.sigs := by
  cases c <;> simp [step, parseInput, hf]

/-- non-vacuity: a front end whose parse really depends on the table it is given (a table of declared names;
a text is valid iff it was declared) — history independence still holds because every entry point empties it. -/
example : (step (⟨[], fun s t _ => (t :: s, s.contains t), fun r _ => toString r, fun s _ => toString s.length,
    fun r => toString r, fun s r => toString (s.length, r)⟩ : Front (List String) Bool String)
    ⟨["node"], false⟩ (.checkSyntax "node")).2 = "false" := by decide

end Cnl2aspModel.Api
