/-
C12 — compilation is a pure function of the text and the options.  Property theorems only.
The state machine of `Compiler/Api.lean` is tied to /repo by harness/props/c12.py: monitors around real API
calls (which process-wide components each call reads, writes and resets — in particular that the auto-link flag is back at its
start value after every call; module-level objects and shared default arguments never change).
-/
import Cnl2aspModel.Compiler.Api

namespace Cnl2aspModel.Api

variable {σ ρ Out : Type}

/-- no call changes the auto-link flag beyond its own duration -/
theorem step_flag (F : Front σ ρ Out) (g : G σ) (c : Call) : (step F g c).1.autoLink = g.autoLink := by
  cases c <;> simp [step, parseInput]

theorem run_flag (F : Front σ ρ Out) (g : G σ) (h : List Call) : (run F g h).autoLink = g.autoLink := by
  induction h generalizing g with
  | nil => rfl
  | cons c cs ih => simp only [run]; rw [ih, step_flag]

/-- History independence: whatever was compiled (with or without auto-linking), checked or rejected before — any sequence
of API calls from the state a process starts in — the result of a call is the result it has in a fresh process.  Holds for every
front end (parser, converters) whatsoever; no assumption about how results depend on the flag. -/
theorem C12_history (F : Front σ ρ Out) (g0 : G σ) (h0 : g0.autoLink = true) (h : List Call) (c : Call) :
    (step F (run F g0 h) c).2 = (step F ⟨F.empty, true⟩ c).2 := by
  have hf : (run F g0 h).autoLink = true := by rw [run_flag, h0]
  generalize run F g0 h = g at hf
  cases c with
  | compile t al pf => rfl
  | getSymbols t => rfl
  | checkSyntax t => simp only [step, parseInput, hf]
  | cnlToJson t => simp only [step, parseInput, hf]

/-- Repetition: calling the same thing again gives the same result. -/
theorem C12_repeat (F : Front σ ρ Out) (g0 : G σ) (h0 : g0.autoLink = true) (c : Call) :
    (step F (step F g0 c).1 c).2 = (step F g0 c).2 := by
  have h1 := C12_history F g0 h0 [c] c
  have h2 := C12_history F g0 h0 [] c
  simp only [run] at h1 h2
  rw [h1, h2]

/-- What a call leaves behind never depends on what was there before (so histories cannot accumulate state):
the table after a call is a function of the call alone. -/
theorem C12_state_after (F : Front σ ρ Out) (g g' : G σ) (c : Call) (hf : g.autoLink = g'.autoLink) :
    (step F g c).1.sigs = (step F g' c).1.sigs := by
  cases c <;> simp [step, parseInput, hf]

/-- non-vacuity: a front end whose parse really depends on the table it is given (a table of declared names;
a text is valid iff it was declared) — history independence still holds because every entry point empties it. -/
example : (step (⟨[], fun s t _ => (t :: s, s.contains t), fun r _ => toString r, fun s _ => toString s.length,
    fun r => toString r, fun s r => toString (s.length, r)⟩ : Front (List String) Bool String)
    ⟨["node"], false⟩ (.checkSyntax "node")).2 = "false" := by decide

end Cnl2aspModel.Api
