/-
C15 — model explanations state exactly the model.  Property theorems only (the pure string layer); the selection of
atoms, the distribution of arguments over subject / entity / objects, distinctness and the read-back round trip are
decided on the real code by harness/props/c15.py.
-/
import Cnl2aspModel.Compiler.Explain
import Cnl2aspModel.Compiler.ExplainSentenceLemmas

namespace Cnl2aspModel.Explain

/-- The final capitalisation changes at most the first character: no value is altered (before the repair it
lower-cased the whole sentence). -/
theorem C15_capitalize_keeps_values (s : List Char) :
    (capFirst s).length = s.length ∧ (capFirst s).drop 1 = s.drop 1 := by
  cases s <;> simp [capFirst]

/-- Every value handed to the entity printer occurs in what it prints, before stripping — for one attribute (bare
value) and for any number of attributes. -/
theorem C15_printer_mentions (symbol : List Char) (attrs : List (List Char × List Char)) (_hne : attrs.length ≠ 1) :
    ∀ a ∈ attrs, a.2 <:+: attrs.flatMap (item symbol) := by
  intro a ha
  obtain ⟨l1, l2, rfl⟩ := List.append_of_mem ha
  refine ⟨l1.flatMap (item symbol) ++ (kWith ++ stripSpaces (removePrefix symbol a.1) ++ kEq),
    kSep ++ l2.flatMap (item symbol), ?_⟩
  simp only [List.flatMap_append, List.flatMap_cons, item, List.append_assoc]

theorem C15_printer_single (symbol v : List Char) :
    v <:+: (replaceUnderscore symbol ++ [' '] ++ v) := by
  exact ⟨replaceUnderscore symbol ++ [' '], [], by simp⟩

/-- The copula is normalised to one of three spellings. -/
theorem C15_verb (v : String) : convertVerb v = "is " ∨ convertVerb v = "has " ∨ convertVerb v = "" := by
  unfold convertVerb
  split
  · left; rfl
  · split
    · right; left; rfl
    · right; right; rfl

/-- non-vacuity -/
example : entityPrinter "color".toList [("color name".toList, "Red".toList), ("color code".toList, "7".toList)]
    = "color with name equal to Red, with code equal to 7".toList := by decide
example : capFirst "there is node Red.".toList = "There is node Red.".toList := by decide

end Cnl2aspModel.Explain


namespace Cnl2aspModel.ExplainS

/-- sentence-construction layer: whatever the signature (entity, subject, objects, any names and origins) and whatever the
arguments, the values the sentence mentions — with the subject, with the objects, with the concept itself — are, counted with
multiplicity, exactly the values of the atom's attributes: nothing is dropped and nothing is said twice.  Hypothesis (decidable,
evaluated by the driver on every real case): no key of the atom equals in name and value a non-key attribute (the two
`remove` calls of `_convert_attribute_to_entity` would then delete both).  `ne` is NameComponent.__eq__ (reflexive). -/
theorem C15_sentence_mentions_all (ne : NameEq) (hr : ∀ x, ne x x = true) (entity : Ent) (subject : Option Ent) (objects : List Ent)
    (args : List String) (hnc : noCrossB ne (parseSymbol entity args) = true) :
    (mentioned ne entity subject objects args).Perm ((parseSymbol entity args).all.map (·.value)) :=
  mentioned_perm ne hr entity subject objects args (noCrossB_sound ne _ hnc)

/-- … and those values are the arguments of the symbol, in order, when the symbol has the arity of the signature -/
theorem C15_sentence_values_are_arguments (e : Ent) (args : List String) (h : args.length = e.all.length) :
    (parseSymbol e args).all.map (·.value) = args := parseSymbol_values e args h

end Cnl2aspModel.ExplainS
