/-
C01 — the compiled program has exactly the models the specification describes.  Property theorems only.

`Asp/Sem.lean`   answer sets (least model of the reduct; choice bounds; constraints), for all interpretations and all environments
`Cnl/Core.lean`  resolved core sentences, the rules printed for them (`compile`), and their direct reading (`RefModel`)
The tie of `compile` to /repo is harness/props/c01.py: the real compiler's output for the surface text of generated resolved
specifications is compared, rule by rule, with `compile`'s; clingo's answer sets of the REAL output are compared with the
reference models.
-/
import Cnl2aspModel.Cnl.CoreLemmas
import Cnl2aspModel.Cnl.Stratify
import Cnl2aspModel.Cnl.RefExecSound

namespace Cnl2aspModel.Core
open Asp

/-- the answer sets of the compiled program are exactly the models of the direct reading — for every specification of the
core fragment without positive recursion, every interpretation, every domain size and every bound -/
theorem C01_main (s : Spec) (rank : List Char → Nat) (h : s.Stratified rank) (M : Interp) :
    Stable (compile s) M ↔ RefModel s M :=
  (stable_iff_supp h M).trans (supp_compile_iff s M)

/-- every cardinality phrase prints bounds that mean what the phrase says (over the regenerated phrase table) -/
theorem C01_bounds_table (card : Card) (k : Nat) : withinBounds card.bounds.1 card.bounds.2 k ↔ card.meaning k :=
  Card.bounds_meaning card k

/-- a prohibited situation occurs in no answer set -/
theorem C01_prohibited (s : Spec) (rank : List Char → Nat) (h : s.Stratified rank) (M : Interp) (hM : Stable (compile s) M)
    (cs : List Clause) (hin : Sentence.prohibited cs ∈ s) (e : Env) : ¬ ∀ c ∈ cs, c.holds M e :=
  ((C01_main s rank h M).mp hM).sat _ hin e

/-- a required situation holds in every answer set, for every assignment of its labels to instances -/
theorem C01_required (s : Spec) (rank : List Char → Nat) (h : s.Stratified rank) (M : Interp) (hM : Stable (compile s) M)
    (m : Clause) (conds : List Clause) (hin : Sentence.required m conds ∈ s) (e : Env)
    (hg : ∀ l ∈ m.guards, l.holds M e) (hc : ∀ c ∈ conds, c.holds M e) : m.core.holds M e :=
  ((C01_main s rank h M).mp hM).sat _ hin e hg hc

/-- a choice sentence picks, per qualifying subject, a set of admissible relation instances whose size is within the phrase's bounds -/
theorem C01_choice (s : Spec) (rank : List Char → Nat) (h : s.Stratified rank) (M : Interp) (hM : Stable (compile s) M)
    (conds : List Clause) (v : VerbUse) (card : Card) (hin : Sentence.choice conds v card ∈ s) (e : Env)
    (hs : M (v.subj.atom.inst e)) (hc : ∀ c ∈ conds, c.holds M e) :
    ∃ picks : List GAtom, picks.Nodup ∧ (∀ g, g ∈ picks ↔ M g ∧ admissiblePick M conds v e g) ∧ card.meaning picks.length :=
  ((C01_main s rank h M).mp hM).sat _ hin e hs hc

/-- nothing holds in an answer set without a sentence that gives a reason for it (a listed fact, a definition whose conditions
hold, or an admissible pick of a choice sentence) -/
theorem C01_closed (s : Spec) (rank : List Char → Nat) (h : s.Stratified rank) (M : Interp) (hM : Stable (compile s) M)
    (g : GAtom) (hg : M g) : ∃ σ ∈ s, σ.justifies M g :=
  ((C01_main s rank h M).mp hM).closed g hg

/-- the decidable stratification check the harness evaluates on every generated specification is sufficient -/
theorem C01_stratified_check (s : Spec) (order : List (List Char)) (h : stratifiedB s order = true) :
    s.Stratified (rankOf order) := stratifiedB_sound s order h

/-- answer-set-hood of a finite interpretation is DECIDED by the executable reading: for a stratified, range-restricted,
aggregate-free specification and a finite interpretation whose values lie in the universe `U`, `M` is an answer set of the
compiled program iff `refCheckB s U M` evaluates to true (all three side conditions are evaluated by the driver) -/
theorem C01_decide (s : Spec) (order : List (List Char)) (U : List Val) (M : List GAtom)
    (hst : stratifiedB s order = true) (hsafe : s.all Exec.Sentence.safeB = true) (hcov : Exec.coversB U M = true) :
    Stable (compile s) (Exec.interp M) ↔ Exec.refCheckB s U M = true :=
  (C01_main s (rankOf order) (stratifiedB_sound s order hst) (Exec.interp M)).trans
    (Exec.refCheckB_iff (Exec.coversB_sound hcov) s
      (fun σ hσ => Exec.Sentence.safeB_sound σ (List.all_eq_true.mp hsafe σ hσ))).symm

/-! non-vacuity: graph colouring is in the fragment and stratified -/
def node (t : Term) : Ent := ⟨"node".toList, [t], 1⟩
def color (t : Term) : Ent := ⟨"color".toList, [t], 1⟩
def assignedTo (neg : Bool) (x c : Term) : VerbUse := ⟨"assigned_to".toList, neg, node x, [color c]⟩
def edge (x y : Term) : Ent := ⟨"edge".toList, [x, y], 2⟩

def graphColouring : Spec := [
  .facts "node".toList [[.num 1], [.num 2], [.num 3]],
  .facts "color".toList [[.str "red".toList], [.str "green".toList]],
  .facts "edge".toList [[.num 1, .num 2], [.num 2, .num 3]],
  .choice [] (assignedTo false (.var 0) (.var 1)) (.single .EXACTLY 1),
  .prohibited [.verb (assignedTo false (.var 0) (.var 2)), .verb (assignedTo false (.var 1) (.var 2)), .ent false (edge (.var 0) (.var 1))]
]

example : graphColouring.Stratified (rankOf ["node".toList, "color".toList, "edge".toList, "assigned_to".toList]) :=
  C01_stratified_check _ _ (by decide)

/-! … and, decided in the kernel through `C01_decide`: a proper colouring IS an answer set of the compiled program, the same
interpretation with a second colour for node 1 is NOT -/
def gcU : List Val := [.num 1, .num 2, .num 3, .str "red".toList, .str "green".toList]
def ga (p : String) (args : List Val) : GAtom := ⟨p.toList, args⟩
def gcM : List GAtom := [
  ga "node" [.num 1], ga "node" [.num 2], ga "node" [.num 3],
  ga "color" [.str "red".toList], ga "color" [.str "green".toList],
  ga "edge" [.num 1, .num 2], ga "edge" [.num 2, .num 3],
  ga "assigned_to" [.num 1, .str "red".toList], ga "assigned_to" [.num 2, .str "green".toList], ga "assigned_to" [.num 3, .str "red".toList]]
def gcBad : List GAtom := gcM ++ [ga "assigned_to" [.num 1, .str "green".toList]]

set_option maxRecDepth 100000 in
example : Stable (compile graphColouring) (Exec.interp gcM) :=
  (C01_decide graphColouring ["node".toList, "color".toList, "edge".toList, "assigned_to".toList] gcU gcM
    (by decide +kernel) (by decide +kernel) (by decide +kernel)).mpr (by decide +kernel)

set_option maxRecDepth 100000 in
example : ¬ Stable (compile graphColouring) (Exec.interp gcBad) := fun h =>
  absurd ((C01_decide graphColouring ["node".toList, "color".toList, "edge".toList, "assigned_to".toList] gcU gcBad
    (by decide +kernel) (by decide +kernel) (by decide +kernel)).mp h) (by decide +kernel)

end Cnl2aspModel.Core
