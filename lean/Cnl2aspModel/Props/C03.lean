/-
C03 — 'required' and 'prohibited' are exact complements for every comparison phrase.
Property theorems only.  The tables (`comparisonPhrases`, `negation`, `aspSymbol`) are
regenerated from /repo on every run, so each theorem is re-checked against the current source.
-/
import Cnl2aspModel.Compiler.Cmp
import Cnl2aspModel.Generated.GridC03

namespace Cnl2aspModel
open Generated

/-- Every phrase the property lists is a phrase of the current grammar terminal, and every phrase of
the terminal is mapped by the callback to an operator whose printed symbol denotes, on all
integers, the relation the phrase names. -/
theorem C03_phrases_present : ∀ p ∈ requiredPhrases, (comparisonPhrases.lookup p).isSome := by
  decide

theorem C03_phrase_meaning :
    ∀ row ∈ comparisonPhrases,
      (row.2.bind opRel).isSome = true ∧ row.2.bind opRel = phraseMeaning row.1 := by
  decide

/-- The negation table maps every comparison operator a phrase can produce to its exact complement
on all integers. -/
theorem C03_negation_complement :
    ∀ row ∈ comparisonPhrases, ∀ o, row.2 = some o →
      ∃ r r' o', opRel o = some r ∧ negation o = some o' ∧ opRel o' = some r' ∧
        ∀ a b : Int, r'.holds a b ↔ ¬ r.holds a b := by
  intro row hrow o ho
  have : o ∈ [Op.EQUALITY, .INEQUALITY, .GREATER_THAN, .LESS_THAN, .GREATER_THAN_OR_EQUAL_TO,
      .LESS_THAN_OR_EQUAL_TO] := by
    revert row o
    decide
  simp only [List.mem_cons, List.mem_nil_iff, or_false] at this
  rcases this with rfl | rfl | rfl | rfl | rfl | rfl <;>
    refine ⟨_, _, _, rfl, rfl, rfl, ?_⟩ <;> intro a b <;> simp only [Rel.holds] <;> omega

/-- Two-operand comparisons: for every phrase of the grammar, all operand terms and all valuations,
the `required` constraint fires exactly when the `prohibited` one does not, and the prohibited one
fires exactly when the relation the phrase names holds. -/
theorem C03_required_prohibited :
    ∀ row ∈ comparisonPhrases, ∀ (a b : Term) (ρ : String → Int),
      ∃ lp lr m, compileCmp .prohibited (.two row.1 a b) = some lp ∧
        compileCmp .required (.two row.1 a b) = some lr ∧
        phraseMeaning row.1 = some m ∧
        (fires ρ lp ↔ m.holds (a.eval ρ) (b.eval ρ)) ∧
        (fires ρ lr ↔ ¬ fires ρ lp) := by
  intro row hrow a b ρ
  -- finite, decidable part: the row's operator is one of the six comparison operators, and the
  -- model's table lookup returns it
  have hfin : ∃ o, phraseOp row.1 = some o ∧ opRel o = phraseMeaning row.1 ∧
      o ∈ [Op.EQUALITY, .INEQUALITY, .GREATER_THAN, .LESS_THAN, .GREATER_THAN_OR_EQUAL_TO,
        .LESS_THAN_OR_EQUAL_TO] := by
    revert row
    decide
  obtain ⟨o, hp, hm, ho⟩ := hfin
  simp only [List.mem_cons, List.mem_nil_iff, or_false] at ho
  -- infinite part: all terms, all valuations
  rcases ho with rfl | rfl | rfl | rfl | rfl | rfl <;>
    refine ⟨_, _, _, by simp [compileCmp, hp, effectiveOp, aspSymbol]; rfl,
      by simp [compileCmp, hp, effectiveOp, aspSymbol, isBelowConjunction, negation, Op.val]; rfl,
      hm.symm.trans (by simp [opRel, aspSymbol, symRel]; rfl), ?_, ?_⟩ <;>
    simp [fires, CmpLit.holds, symRel, Rel.holds] <;> omega

/-- `prohibited … between lo and hi` fires exactly on lo ≤ x ≤ hi. -/
theorem C03_between_prohibited (x lo hi : Term) (ρ : String → Int) :
    ∃ lp, compileCmp .prohibited (.between x lo hi) = some lp ∧
      (fires ρ lp ↔ lo.eval ρ ≤ x.eval ρ ∧ x.eval ρ ≤ hi.eval ρ) := by
  refine ⟨_, rfl, ?_⟩
  simp [fires, CmpLit.holds, symRel, Rel.holds]

/- FULL STATEMENT (the property's; false of the current code, see Findings/C03.lean, finding F1):
theorem C03_between_required (x lo hi : Term) (ρ : String → Int) :
    ∃ lr, compileCmp .required (.between x lo hi) = some lr ∧
      (fires ρ lr ↔ ¬ (lo.eval ρ ≤ x.eval ρ ∧ x.eval ρ ≤ hi.eval ρ))
-/
/-- Partial: what the code does for `required … between` is sound but not complete — whenever the
emitted constraint fires the value is indeed outside the interval. -/
theorem C03_between_required_partial (x lo hi : Term) (ρ : String → Int) :
    ∃ lr, compileCmp .required (.between x lo hi) = some lr ∧
      (fires ρ lr → ¬ (lo.eval ρ ≤ x.eval ρ ∧ x.eval ρ ≤ hi.eval ρ)) := by
  refine ⟨_, rfl, ?_⟩
  simp [fires, CmpLit.holds, symRel, Rel.holds]
  omega

/-- The hand model reproduces, literal for literal, what the real compiler emitted for every point
of the regenerated syntactic grid (phrase × polarity × operand shapes). -/
theorem C03_model_eq_grid : ∀ row ∈ gridC03, compileCmp row.pol row.sentence = some row.emitted := by
  decide +kernel

/-- non-vacuity: the hypotheses are met by a concrete sentence and valuation -/
example : ∃ lp, compileCmp .prohibited (.two "more than" (.var "X") (.num 3)) = some lp ∧
    fires (fun _ => 5) lp := by
  refine ⟨_, rfl, ?_⟩
  simp [fires, CmpLit.holds, symRel, Rel.holds, Term.eval]

end Cnl2aspModel
