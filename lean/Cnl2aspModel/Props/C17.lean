/-
C17 — faulty specifications are rejected with the fault's name and line.  Property theorems only.
The checker of `Compiler/Scope.lean` is tied to /repo by harness/props/c17.py (fault injection on valid
specifications: the real exception's kind, name and line vs the model's); the line arithmetic is `LineCol`.
-/
import Cnl2aspModel.Compiler.Scope

namespace Cnl2aspModel.Scope
open Cnl2aspModel.LineCol

/-- Completeness of rejection: if some sentence contains a faulty use, the specification is rejected — it is never
silently accepted — and the reported sentence is not later than that sentence. -/
theorem C17_never_silent (e : Env) (k : Nat) (ss : List Sentence) :
    check e k ss = none → ∀ (i : Nat) (hi : i < ss.length),
      firstFault ((ss.take i).foldl (fun e s => { e with concepts := e.concepts ++ s.declares }) e) (ss[i]).labels (ss[i]).uses = none := by
  induction ss generalizing e k with
  | nil => intro _ i hi; simp at hi
  | cons s ss ih =>
    intro h i hi
    simp only [check] at h
    cases hf : firstFault e s.labels s.uses with
    | some f => simp [hf] at h
    | none =>
      simp only [hf] at h
      cases i with
      | zero => simpa using hf
      | succ i =>
        have := ih _ _ h i (by simpa using hi)
        simpa using this

/-- The reported fault is a fault of the reported sentence, under the declarations in force before it, and every
earlier sentence is fault-free (first fault wins; sentences are checked in order). -/
theorem C17_reports_first (e : Env) (k : Nat) (ss : List Sentence) (n : Nat) (f : Fault)
    (h : check e k ss = some (n, f)) :
    ∃ i, ∃ hi : i < ss.length, n = k + i ∧
      firstFault ((ss.take i).foldl (fun e s => { e with concepts := e.concepts ++ s.declares }) e) (ss[i]).labels (ss[i]).uses = some f ∧
      ∀ j, (hj : j < i) → firstFault ((ss.take j).foldl (fun e s => { e with concepts := e.concepts ++ s.declares }) e)
        (ss[j]'(Nat.lt_trans hj hi)).labels (ss[j]'(Nat.lt_trans hj hi)).uses = none := by
  induction ss generalizing e k with
  | nil => simp [check] at h
  | cons s ss ih =>
    simp only [check] at h
    cases hf : firstFault e s.labels s.uses with
    | some g =>
      simp [hf] at h
      obtain ⟨rfl, rfl⟩ := h
      exact ⟨0, by simp, by simp, by simpa using hf, fun j hj => absurd hj (Nat.not_lt_zero j)⟩
    | none =>
      simp only [hf] at h
      obtain ⟨i, hi, hn, hfi, hprev⟩ := ih _ _ h
      refine ⟨i + 1, by simpa using hi, by omega, by simpa using hfi, ?_⟩
      intro j hj
      cases j with
      | zero => simpa using hf
      | succ j => simpa using hprev j (by omega)

/-- An undeclared concept used in a non-defining position is reported by name. -/
theorem C17_undeclared (e : Env) (labels : List String) (c : String) (h : e.hasConcept c = false) :
    checkUse e labels (.concept c) = some (.entityNotFound c) := by
  simp [checkUse, h]

theorem C17_attribute (e : Env) (labels : List String) (c a : String) (hc : e.hasConcept c = true)
    (ha : (e.attrs c).contains a = false) : checkUse e labels (.attribute c a) = some (.attributeNotFound c a) := by
  show (if (!e.hasConcept c) = true then some (Fault.entityNotFound c)
      else if (e.attrs c).contains a = true then none else some (Fault.attributeNotFound c a)) = _
  rw [hc, ha]
  rfl

theorem C17_label (e : Env) (labels : List String) (l : String) (h : labels.contains l = false) :
    checkUse e labels (.label l) = some (.labelNotFound l) := by
  show (if labels.contains l = true then none else some (Fault.labelNotFound l)) = _
  rw [h]
  rfl

theorem C17_cardinality (e : Env) (labels : List String) :
    checkUse e labels (.secondCardinality false) = some .doubleCardinality := rfl

/-- Prepending blank or comment lines (padding made of complete lines) shifts the cited line by exactly the number
of lines prepended and leaves the column alone — for every text, offset and padding. -/
theorem C17_line_shift (pad s : List Char) (k : Nat) (hpad : pad = [] ∨ pad.getLast? = some '\n') :
    (lineCol (pad ++ s) (pad.length + k)).1 = (lineCol s k).1 + newlines pad := by
  rw [lineCol_pad pad s k hpad]

/-- non-vacuity: a use before its declaration is reported at the using sentence, the same use after it is not -/
example : check ⟨[], [], []⟩ 0 [⟨[], [], [.concept "node"]⟩, ⟨[("node", ["id"])], [], []⟩] = some (0, .entityNotFound "node") ∧
    check ⟨[], [], []⟩ 0 [⟨[("node", ["id"])], [], []⟩, ⟨[], [], [.attribute "node" "id", .attribute "node" "age"]⟩] =
      some (1, .attributeNotFound "node" "age") := by decide

end Cnl2aspModel.Scope
