/-
C02 — aggregate sentences count, sum and bound what they say.  Property theorems only.

An aggregate literal `fn { tuple : cond } op bound` is read over the SET of distinct tuples for which the condition holds
under some extension of the outer assignment to the aggregate's local variables (`Agg.tupleAt`; a variable is outer iff it
occurs in a simple body literal of the sentence, i.e. in a `whenever` clause or a comparison): `#count` is the number of those
tuples, `#sum` adds their first components, `#max` / `#min` take the extreme first component (`AggFn.value`).
`Sentence.aggProhibited / aggRequired / aggRequired2` (Cnl/Core.lean) are the resolved aggregate sentences; their direct reading
is `Sentence.sat`, and C02_main is C01_main for specifications that contain them.
-/
import Cnl2aspModel.Cnl.CoreLemmas
import Cnl2aspModel.Cnl.Stratify
import Cnl2aspModel.Asp.AggLemmas

namespace Cnl2aspModel.Core
open Asp

/-- answer sets = models of the direct reading, for every stratified specification with aggregate constraints -/
theorem C02_main (s : Spec) (rank : List Char → Nat) (h : s.Stratified rank) (M : Interp) :
    Stable (compile s) M ↔ RefModel s M :=
  (stable_iff_supp h M).trans (supp_compile_iff s M)

/-- prohibited: in no answer set, for no binding of the `whenever` labels, do all the aggregate comparisons hold -/
theorem C02_prohibited (s : Spec) (rank : List Char → Nat) (h : s.Stratified rank) (M : Interp) (hM : Stable (compile s) M)
    (aggs : List Agg) (cmps : List SLit) (conds : List Clause) (hin : Sentence.aggProhibited aggs cmps conds ∈ s) (e : Env)
    (hc : ∀ c ∈ conds, c.holds M e) (hm : ∀ l ∈ cmps, l.holds M e) :
    ¬ ∀ a ∈ aggs, a.holds M ((litsOf conds ++ cmps).flatMap SLit.vars) e :=
  ((C02_main s rank h M).mp hM).sat _ hin e hc hm

/-- required: in every answer set, for every binding of the `whenever` labels, the comparison holds for the aggregate's value -/
theorem C02_required (s : Spec) (rank : List Char → Nat) (h : s.Stratified rank) (M : Interp) (hM : Stable (compile s) M)
    (a : Agg) (conds : List Clause) (hin : Sentence.aggRequired a conds ∈ s) (e : Env) (hc : ∀ c ∈ conds, c.holds M e) :
    a.always M ((litsOf conds).flatMap SLit.vars) e :=
  ((C02_main s rank h M).mp hM).sat _ hin e hc

/-- required, aggregate against aggregate: whenever the result variables are the aggregates' values, the comparison holds -/
theorem C02_required_vs (s : Spec) (rank : List Char → Nat) (h : s.Stratified rank) (M : Interp) (hM : Stable (compile s) M)
    (aggs : List Agg) (c : SLit) (conds : List Clause) (hin : Sentence.aggRequired2 aggs c conds ∈ s) (e : Env)
    (hc : ∀ c ∈ conds, c.holds M e) (ha : ∀ a ∈ aggs, a.holds M ((litsOf conds ++ [c]).flatMap SLit.vars) e) : c.holds M e :=
  ((C02_main s rank h M).mp hM).sat _ hin e hc ha

/-- the value of an aggregate is a function of the SET of its qualifying tuples (distinct tuples, any order) -/
theorem C02_value_of_set (fn : AggFn) (L L' : List (List Val)) (h : L.Nodup) (h' : L'.Nodup) (hm : ∀ t, t ∈ L ↔ t ∈ L') :
    fn.value L = fn.value L' := fn.value_unique h h' hm

/-- `#count` is the number of distinct qualifying tuples -/
theorem C02_count (L : List (List Val)) : AggFn.count.value L = some (L.length : Int) := rfl

/-- on finitely many qualifying tuples and a numeric bound, `required` (every listing) and the complement of `prohibited`
(some listing) speak about the same value -/
theorem C02_one_value (M : Interp) (gl : List Nat) (e : Env) (a : Agg)
    (hfin : ∃ L : List (List Val), L.Nodup ∧ ∀ t, t ∈ L ↔ a.tupleAt M gl e t) (hb : ∃ b, a.bound.eval e = .num b) :
    a.holds M gl e ↔ a.always M gl e := Agg.holds_iff_always M gl e a hfin hb

/-- a comparison and its negation (what `required` prints) are complementary for every value, including the value of an empty
`#max` / `#min` -/
theorem C02_negation (fn : AggFn) (op : CmpOp) (v : Option Int) (b : Int) : aggCmp fn op.negate v b = !aggCmp fn op v b :=
  aggCmp_negate fn op v b

/-- locality: the outer variables of the printed rule are exactly the labels of the sentence's `whenever` clauses and comparisons -/
theorem C02_locality (aggs : List Agg) (cmps : List SLit) (conds : List Clause) :
    ∀ r ∈ (Sentence.aggProhibited aggs cmps conds).rules, r.globals = (litsOf conds ++ cmps).flatMap SLit.vars := by
  intro r hr
  simp only [Sentence.rules, List.mem_singleton] at hr
  subst hr
  rfl

/-- what the English aggregate words say (the specification side; hand-written on purpose) -/
def aggPhraseMeaning : String → Option Generated.AggOp
  | "the number" => some .COUNT
  | "the total" => some .SUM
  | "the highest" => some .MAX
  | "the biggest" => some .MAX
  | "the lowest" => some .MIN
  | "the smallest" => some .MIN
  | _ => none

/-- the function each aggregate operator is printed as, in the semantics of `Asp/Sem.lean` -/
def aggFnOf : Generated.AggOp → AggFn
  | .COUNT => .count | .SUM => .sum | .MAX => .max | .MIN => .min

def symbolFn : String → Option AggFn
  | "count" => some .count | "sum" => some .sum | "max" => some .max | "min" => some .min | _ => none   -- printed after `#`

/-- every aggregate word of the live grammar is mapped by the live callback to the operator the word means … -/
theorem C02_phrase_table : ∀ p ∈ Generated.aggregatePhrases, aggPhraseMeaning p.1 = p.2 := by decide

/-- … and every operator is printed with the solver's symbol for that function (regenerated `ASPAggregate.symbols`) -/
theorem C02_symbol_table : ∀ o ∈ Generated.AggOp.all, (Generated.aggSymbol o).bind symbolFn = some (aggFnOf o) := by decide

/-! non-vacuity: a counting constraint over the graph-colouring choice -/
def cntSpec : Spec := [
  .facts "node".toList [[.num 1], [.num 2], [.num 3]],
  .facts "color".toList [[.str "red".toList], [.str "green".toList]],
  .choice [] ⟨"assigned_to".toList, false, ⟨"node".toList, [.var 0], 1⟩, [⟨"color".toList, [.var 1], 1⟩]⟩ (.single .EXACTLY 1),
  .aggProhibited [⟨.count, [.var 1], [.pos ⟨"assigned_to".toList, [.var 1, .var 0]⟩, .pos ⟨"color".toList, [.var 0]⟩], .gt, .val (.num 2)⟩] []
    [.ent false ⟨"color".toList, [.var 0], 1⟩]
]

example : cntSpec.Stratified (rankOf ["node".toList, "color".toList, "assigned_to".toList]) :=
  stratifiedB_sound _ _ (by decide)

end Cnl2aspModel.Core
