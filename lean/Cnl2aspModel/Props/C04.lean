/-
C04 — preferences optimise the stated quantity, direction and priority.  Property theorems only.
-/
import Cnl2aspModel.Cnl.Pref
import Cnl2aspModel.Cnl.CoreLemmas

namespace Cnl2aspModel.Core
open Asp
open Generated (PrefType)

/-- optimal answer sets of the compiled program = models of the direct reading that no model of the direct reading beats, for
every stratified core specification and every list of preferences -/
theorem C04_main (s : Spec) (prefs : List PrefSentence) (rank : List Char → Nat) (h : s.Stratified rank) (M : Interp) :
    Optimal (compile s) (compilePrefs prefs) M ↔
      RefModel s M ∧ ¬ ∃ M', RefModel s M' ∧ Better (compilePrefs prefs) M' M := by
  unfold Optimal
  have key : ∀ N, Stable (compile s) N ↔ RefModel s N := fun N => (stable_iff_supp h N).trans (supp_compile_iff s N)
  rw [key M]
  constructor
  · rintro ⟨hM, hn⟩
    exact ⟨hM, fun ⟨M', hM', hb⟩ => hn ⟨M', (key M').mpr hM', hb⟩⟩
  · rintro ⟨hM, hn⟩
    exact ⟨hM, fun ⟨M', hM', hb⟩ => hn ⟨M', (key M').mp hM', hb⟩⟩

/-- direction table: "is minimized", "is maximized" and "as little as possible" get the direction they ask for
(`_partial`: "as much as possible" does not — finding F3, witness in Findings/C04.lean) -/
theorem C04_direction_partial :
    ∀ ph ∈ ["is minimized", "is maximized", "as little as possible"], some (dirOf ph) = dirMeaning ph := by decide

/-- sign table: a maximisation is printed with a negated weight, a minimisation with the weight itself -/
theorem C04_sign : Generated.prefWeightNegated .MINIMIZATION = false ∧ Generated.prefWeightNegated .MAXIMIZATION = true := by decide

/-- priority table: high > medium > low, and `priority N` is level N -/
theorem C04_priority :
    (Priority.named "high").level > (Priority.named "medium").level ∧ (Priority.named "medium").level > (Priority.named "low").level ∧
    ∀ n, (Priority.number n).level = n := by
  refine ⟨by decide, by decide, fun n => rfl⟩

/-- the cost at a level is a function of the interpretation (any two listings of the distinct tuples give the same sum) -/
theorem C04_cost_unique (ws : List Weak) (M : Interp) (l : Nat) (c c' : Int) (h : CostAt ws M l c) (h' : CostAt ws M l c') : c = c' :=
  h.unique h'

/-- an aggregate preference costs exactly the aggregate's value (negated for a maximisation) at its level -/
theorem C04_aggregate_cost (ph : String) (p : Priority) (fn : AggFn) (tuple : List Term) (cond : List SLit) (r : Nat)
    (M : Interp) (L : List (List Val)) (v : Int) (hnd : L.Nodup)
    (hL : ∀ t, t ∈ L ↔ (⟨fn, tuple, cond, .eq, .var r⟩ : Agg).tupleAt M [] (fun _ => default) t)
    (hv : fn.value L = some v) :
    CostAt [(PrefSentence.aggOpt ph p fn tuple cond r).weak] M p.level
      (if Generated.prefWeightNegated (dirOf ph) then -v else v) := by
  let a : Agg := ⟨fn, tuple, cond, .eq, .var r⟩
  have indep : ∀ e e' t, a.tupleAt M [] e t ↔ a.tupleAt M [] e' t := by
    intro e e' t
    unfold Agg.tupleAt
    constructor <;> rintro ⟨e'', _, h⟩ <;> exact ⟨e'', fun i hi => absurd hi List.not_mem_nil, h⟩
  refine ⟨[((if Generated.prefWeightNegated (dirOf ph) then -v else v), [])], by simp, fun x => ?_, by simp [sumWeights]⟩
  simp only [List.mem_singleton, levelTuple, PrefSentence.weak, exists_eq_left, true_and]
  constructor
  · rintro rfl
    refine ⟨fun _ => .num v, ⟨by simp [Weak.asRule], ?_⟩, v, rfl, by simp⟩
    intro a' ha'
    simp only [Weak.asRule, List.mem_singleton] at ha'
    subst ha'
    refine ⟨L, hnd, fun t => (hL t).trans (indep _ _ t), v, rfl, ?_⟩
    simp [hv, aggCmp, CmpOp.eval]
  · rintro ⟨e, ⟨_, hagg⟩, k, hk, rfl⟩
    obtain ⟨L', hnd', hL', b, hb, hc⟩ := hagg a (by simp [Weak.asRule, a])
    have hval : fn.value L' = some v := by
      rw [← hv]
      exact fn.value_unique hnd' hnd (fun t => by rw [hL' t, hL t]; exact indep _ _ t)
    have hb' : Term.eval e (.var r) = .num b := hb
    have hkb : k = b := by
      have : Val.num k = Val.num b := hk.symm.trans hb'
      injection this
    have hvb : v = b := by
      have hc' : aggCmp fn .eq (fn.value L') b = true := hc
      rw [hval] at hc'
      simpa [aggCmp, CmpOp.eval] using hc'
    subst hkb
    subst hvb
    simp

/-- a situation preference costs, at its level, one unit (with the direction's sign) per distinct parameter tuple for which the
situation holds -/
theorem C04_situation_cost (ph : String) (p : Priority) (cs : List Clause) (params : List Term)
    (M : Interp) (P : List (List Val)) (hnd : P.Nodup)
    (hP : ∀ t, t ∈ P ↔ ∃ e, (∀ c ∈ cs, c.holds M e) ∧ t = params.map (Term.eval e)) :
    CostAt [(PrefSentence.situation ph p cs params).weak] M p.level
      ((if Generated.prefWeightNegated (dirOf ph) then -1 else 1) * (P.length : Int)) := by
  let k : Int := if Generated.prefWeightNegated (dirOf ph) then -1 else 1
  refine ⟨P.map (fun t => (k, t)), ?_, fun x => ?_, ?_⟩
  · exact List.Pairwise.map _ (fun a b hab h => hab (congrArg Prod.snd h)) hnd
  · simp only [List.mem_map, levelTuple, PrefSentence.weak, List.mem_singleton, exists_eq_left, true_and, Weak.tupleAt]
    constructor
    · rintro ⟨t, ht, rfl⟩
      obtain ⟨e, hc, rfl⟩ := (hP t).mp ht
      refine ⟨e, ⟨?_, by simp [Weak.asRule]⟩, 1, rfl, ?_⟩
      · exact (litsOf_holds M e cs).mpr hc
      · simp only [k]
    · rintro ⟨e, ⟨hb, _⟩, j, hj, rfl⟩
      have : j = 1 := by
        have : Val.num 1 = Val.num j := hj
        injection this with h; exact h.symm
      subst this
      refine ⟨params.map (Term.eval e), (hP _).mpr ⟨e, (litsOf_holds M e cs).mp hb, rfl⟩, ?_⟩
      simp only [k]
  · rw [sumWeights_const _ k (fun x hx => by obtain ⟨t, _, rfl⟩ := List.mem_map.mp hx; rfl), List.length_map]

theorem sumWeights_scale (k : Int) (P : List (Int × List Val)) :
    sumWeights (P.map (fun x => (k * x.1, x.2))) = k * sumWeights P := by
  unfold sumWeights
  have gen : ∀ (P : List (Int × List Val)) (a : Int),
      ((P.map (fun x => (k * x.1, x.2))).map Prod.fst).foldl (· + ·) (k * a) = k * (P.map Prod.fst).foldl (· + ·) a := by
    intro P
    induction P with
    | nil => intro a; rfl
    | cons x xs ih =>
      intro a
      simp only [List.map_cons, List.foldl_cons]
      rw [← Int.mul_add]
      exact ih _
  have := gen P 0
  simpa using this

/-- a variable preference costs, at its level, the sum (with the direction's sign) of the variable's value over the distinct
(value, parameter tuple) pairs for which the conditions hold -/
theorem C04_variable_cost (ph : String) (p : Priority) (v : Term) (cs : List Clause) (params : List Term)
    (M : Interp) (P : List (Int × List Val)) (hnd : P.Nodup)
    (hP : ∀ x, x ∈ P ↔ ∃ e, (∀ c ∈ cs, c.holds M e) ∧ ∃ k, v.eval e = .num k ∧ x = (k, params.map (Term.eval e))) :
    CostAt [(PrefSentence.varOpt ph p v cs params).weak] M p.level
      ((if Generated.prefWeightNegated (dirOf ph) then -1 else 1) * sumWeights P) := by
  let s : Int := if Generated.prefWeightNegated (dirOf ph) then -1 else 1
  have hs : ∀ a b : Int, s * a = s * b → a = b := by
    intro a b h
    simp only [s] at h
    split at h <;> omega
  refine ⟨P.map (fun x => (s * x.1, x.2)), ?_, fun x => ?_, (sumWeights_scale s P).symm ▸ rfl⟩
  · refine List.Pairwise.map _ (fun a b hab h => hab ?_) hnd
    have h1 : s * a.1 = s * b.1 := (Prod.mk.injEq _ _ _ _ ▸ h).1
    have h2 : a.2 = b.2 := (Prod.mk.injEq _ _ _ _ ▸ h).2
    exact Prod.ext (hs _ _ h1) h2
  · simp only [List.mem_map, levelTuple, PrefSentence.weak, List.mem_singleton, exists_eq_left, true_and, Weak.tupleAt]
    constructor
    · rintro ⟨y, hy, rfl⟩
      obtain ⟨e, hc, k, hk, rfl⟩ := (hP y).mp hy
      refine ⟨e, ⟨(litsOf_holds M e cs).mpr hc, by simp [Weak.asRule]⟩, k, hk, ?_⟩
      simp only [s]
      split <;> simp
    · rintro ⟨e, ⟨hb, _⟩, k, hk, rfl⟩
      refine ⟨(k, params.map (Term.eval e)), (hP _).mpr ⟨e, (litsOf_holds M e cs).mp hb, k, hk, rfl⟩, ?_⟩
      simp only [s]
      split <;> simp

/-- lexicographic priority: an optimal answer set is cheapest at the highest level among all answer sets -/
theorem C04_highest_level_first (P : Program) (ws : List Weak) (M M' : Interp) (l : Nat) (c c' : Int)
    (hopt : Optimal P ws M) (hl : ∀ w ∈ ws, w.level ≤ l) (hc : CostAt ws M l c) (hM' : Stable P M') (hc' : CostAt ws M' l c') :
    c ≤ c' := by
  apply Classical.byContradiction
  intro hlt
  apply hopt.2
  refine ⟨M', hM', l, c', c, hc', hc, by omega, fun l' hl' d' d hd' hd => ?_⟩
  have empty : ∀ N x, ¬ levelTuple ws N l' x := by
    rintro N x ⟨w, hw, hwl, _⟩
    have := hl w hw
    omega
  have zero : ∀ N e, CostAt ws N l' e → e = 0 := by
    rintro N e ⟨L, _, hL, rfl⟩
    have : L = [] := List.eq_nil_iff_forall_not_mem.mpr (fun x hx => empty N x ((hL x).mp hx))
    subst this; rfl
  rw [zero M' d' hd', zero M d hd]

end Cnl2aspModel.Core
