/-
Line-protocol driver: one request per line `<op>\t<json>`, one JSON answer per line.
Run with `lake env lean --run Main.lean`.  Imports only Mathlib-free model modules.
-/
import Lean.Data.Json
import Cnl2aspModel.Compiler.TemporalRange
import Cnl2aspModel.Compiler.Cli
import Cnl2aspModel.Asp.PrintAtom
import Cnl2aspModel.Asp.PrintProg
import Cnl2aspModel.Asp.Gram
import Cnl2aspModel.Compiler.Route
import Cnl2aspModel.Compiler.Signatures
import Cnl2aspModel.Compiler.SignaturesFn
import Cnl2aspModel.Compiler.Naming
import Cnl2aspModel.Compiler.Temporal
import Cnl2aspModel.Compiler.Surface
import Cnl2aspModel.Compiler.Scope
import Cnl2aspModel.Compiler.Explain
import Cnl2aspModel.Compiler.ExplainSentence
import Cnl2aspModel.Compiler.Link
import Cnl2aspModel.Compiler.Value
import Cnl2aspModel.Cnl.Codec
import Cnl2aspModel.Cnl.CodecRef

open Lean Cnl2aspModel

def jstr (j : Json) (k : String) : String := (j.getObjValAs? String k).toOption.getD ""
def jnat (j : Json) (k : String) : Nat := (j.getObjValAs? Nat k).toOption.getD 0

def chars (s : List Char) : String := String.ofList s

namespace Ops

open TemporalRange in
def c16values (j : Json) : Json :=
  let kind := match jstr j "kind" with
    | "time" => Kind.time | "date" => Kind.date | _ => Kind.step
  let l := jnat j "l"
  if h : 0 < l then
    match computeValues kind (jstr j "a").toList (jstr j "b").toList l h with
    | none => Json.mkObj [("err", "type-mismatch")]
    | some vs => Json.mkObj [("ok", Json.arr (vs.map fun p => Json.arr #[Json.str (chars p.1), Json.num p.2]).toArray)]
  else Json.mkObj [("err", "bad-length")]

open TemporalRange in
def c16id (j : Json) : Json :=
  let kind := match jstr j "kind" with
    | "time" => Kind.time | "date" => Kind.date | _ => Kind.step
  let l := jnat j "l"
  if h : 0 < l then
    match computeValues kind (jstr j "a").toList (jstr j "b").toList l h with
    | none => Json.mkObj [("err", "type-mismatch")]
    | some vs => match valueId vs (jstr j "v").toList with
      | none => Json.mkObj [("err", "out-of-range")]
      | some i => Json.mkObj [("ok", Json.num i)]
  else Json.mkObj [("err", "bad-length")]

open TemporalRange in
def c16cal (j : Json) : Json :=
  let t : Date := ⟨jnat j "y", jnat j "m", jnat j "d"⟩
  let n := nextDay t
  Json.mkObj [("valid", Json.bool (decide t.Valid)), ("next", Json.arr #[Json.num n.y, Json.num n.m, Json.num n.d]),
              ("ord", Json.num (toOrd t)), ("fmt", Json.str (chars (fmtDate t)))]

def jbool (j : Json) (k : String) : Bool := (j.getObjValAs? Bool k).toOption.getD false
def jstrs (j : Json) (k : String) : List String :=
  match j.getObjVal? k with
  | .ok (Json.arr a) => a.toList.filterMap fun x => x.getStr?.toOption
  | _ => []

open Cli in
def c18word (j : Json) : Json :=
  Json.mkObj [("ok", Json.str (chars (unrecognizedWord (jstr j "s").toList (jnat j "i"))))]

open Cli in
def c18msg (j : Json) : Json :=
  Json.mkObj [("ok", Json.str (chars (parserMessage (jnat j "line") (jnat j "col") (jstr j "ch").toList
    (jstr j "context").toList (jstr j "linetext").toList ((jstrs j "allowed").map String.toList))))]

open Cli in
def c18cli (j : Json) : Json :=
  let f : Flags := ⟨jbool j "c", jbool j "json", jbool j "symbols", jbool j "p", jbool j "outfile", jbool j "debug"⟩
  let o : Outcome := match jstr j "outcome" with
    | "ok" => .ok (jbool j "nonempty")
    | "UnexpectedCharacters" => .unexpectedCharacters
    | "VisitError" => .visitError
    | _ => .other
  let r := cli f o
  Json.mkObj [("uncaught", Json.bool r.uncaught), ("printed", Json.str (reprStr r.printed)), ("file", Json.bool r.fileOpened)]

open PrintAtom in
def parseAtom (j : Json) : Atom :=
  let attrs : List Attr := match j.getObjVal? "attrs" with
    | .ok (Json.arr a) => a.toList.map fun x => ⟨jstr x "name", jstr x "value", jstrs x "origin"⟩
    | _ => []
  ⟨jstr j "name", attrs, jbool j "negated", jbool j "before", jbool j "after", jbool j "initial", jbool j "final"⟩

open PrintAtom in
def c14print (j : Json) : Json :=
  let a := parseAtom j
  -- name equality: string equality plus the extra pairs NameComponent.__eq__ identifies (passed by the harness)
  let pairs : List (String × String) := match j.getObjVal? "eqpairs" with
    | .ok (Json.arr ps) => ps.toList.filterMap fun p => match p with
        | Json.arr #[Json.str x, Json.str y] => some (x, y)
        | _ => none
    | _ => []
  let nameEq : String → String → Bool := fun x y => x == y || pairs.contains (x, y)
  Json.mkObj [("flat", Json.str (printFlat a)), ("fn", Json.str (printFn nameEq a)),
              ("flattened", Json.str (flattenFn nameEq a)),
              ("contiguous", Json.bool (contiguous nameEq (measure a.attrs) a.name a.attrs))]

open Route in
def c11route (j : Json) : Json :=
  let evs : List Event := match j.getObjVal? "events" with
    | .ok (Json.arr a) => a.toList.filterMap fun e => match e with
        | Json.arr #[Json.str "h", Json.str p] => some (.header p)
        | Json.arr #[Json.str "s", Json.arr rs] => some (.sent (rs.toList.filterMap fun r => r.getStr?.toOption))
        | Json.arr #[Json.str "x"] => some .split
        | _ => none
    | _ => []
  let ls := emit (run evs)
  Json.mkObj [("lines", Json.arr (ls.map fun l => match l with
    | .directive n => Json.arr #[Json.str "d", Json.str n]
    | .rule r => Json.arr #[Json.str "r", Json.str r]).toArray)]

open Signatures in
def parseSAttrs (j : Json) (k : String) : List SAttr :=
  match j.getObjVal? k with
  | .ok (Json.arr a) => a.toList.map fun x => ⟨jstr x "name", jstrs x "origin"⟩
  | _ => []

open Signatures in
def sattrsJson (l : List SAttr) : Json :=
  Json.arr (l.map fun a => Json.mkObj [("name", Json.str a.name), ("origin", Json.arr (a.origin.map Json.str).toArray)]).toArray

open Signatures in
def c13table (j : Json) : Json :=
  let ents : List Sig := match j.getObjVal? "entities" with
    | .ok (Json.arr a) => a.toList.map fun x => ⟨jstr x "name", parseSAttrs x "keys", parseSAttrs x "attrs"⟩
    | _ => []
  let pairs : List (String × String) := match j.getObjVal? "eqpairs" with
    | .ok (Json.arr ps) => ps.toList.filterMap fun p => match p with
        | Json.arr #[Json.str x, Json.str y] => some (x, y)
        | _ => none
    | _ => []
  let nameEq : String → String → Bool := fun x y => x == y || pairs.contains (x, y)
  let table := ents.foldl (addSignature nameEq) []
  Json.mkObj [("table", Json.arr (table.map fun s => Json.mkObj [
    ("name", Json.str s.name), ("keys", sattrsJson s.keys), ("attrs", sattrsJson s.attrs),
    ("flat", Json.num (flatArity s)), ("atom", Json.num (atomArity s)), ("fn", Json.num (fnArity s)),
    ("printedFn", Json.num (printedFnArity nameEq s)),
    ("ownOk", Json.bool (ownOkB s.name (instanceAttrs s)))]).toArray)]

open Naming in
def c07namer (j : Json) : Json :=
  let created := (jstrs j "avoid").map String.toList
  let name := (jstr j "name").toList
  let r := if jstr j "which" == "parser" then parserNamer 200 created name else converterNamer 200 created name
  match r with
  | none => Json.mkObj [("err", "fuel")]
  | some (n, c) => Json.mkObj [("ok", Json.str (chars n)), ("avoid", Json.arr (c.map fun x => Json.str (chars x)).toArray)]

namespace C05
open Temporal Tel

instance : Inhabited Operand := ⟨.leaf (.ent .none 0)⟩
instance : Inhabited TOp := ⟨.single ⟨false, none, .leaf (.ent .none 0), none⟩⟩

def leadOf : String → Option Lead
  | "always" => some .always | "eventually" => some .eventually | "before" => some .before
  | "since before" => some .sinceBefore | "after" => some .after | "since after" => some .sinceAfter
  | _ => none

def pfxOf : String → Pfx
  | "previously" => .previously | "subsequently" => .subsequently | "initially" => .initially | "finally" => .finally_
  | _ => .none

def leafOf (j : Json) : Leaf :=
  match j.getObjValAs? String "const" with
  | .ok ph => .const ph
  | _ => .ent (pfxOf (jstr j "pfx")) (jnat j "ent")

partial def operandOf (j : Json) : Operand :=
  match j.getObjVal? "leaf" with
  | .ok l => .leaf (leafOf l)
  | _ => match j.getObjVal? "l", j.getObjVal? "r" with
    | .ok l, .ok r => .dual (leafOf l) (jstr j "d") (operandOf r)
    | _, _ => .leaf (.ent .none 0)

def coreOf (j : Json) : Core :=
  let hold : Option (Bool × Lead) := match j.getObjVal? "hold" with
    | .ok (Json.arr #[Json.bool b, Json.str h]) => (leadOf h).map fun l => (b, l)
    | _ => none
  let operand := match j.getObjVal? "operand" with | .ok o => operandOf o | _ => .leaf (.ent .none 0)
  ⟨jbool j "neg", (leadOf (jstr j "lead")), operand, hold⟩

partial def topOf (j : Json) : TOp :=
  let c := match j.getObjVal? "core" with | .ok c => coreOf c | _ => ⟨false, none, .leaf (.ent .none 0), none⟩
  match j.getObjVal? "rest" with
  | .ok (Json.obj r) => .chain c (jstr j "d") (topOf (Json.obj r))
  | _ => .single c

def sx : F → String
  | .atom 0 => "a" | .atom 1 => "b" | .atom n => "x" ++ toString n
  | .tt => "(& true)" | .ff => "(& false)" | .initial => "(& initial)" | .final => "(& final)"
  | .neg f => "(~ " ++ sx f ++ ")"
  | .and f g => "(& " ++ sx f ++ " " ++ sx g ++ ")" | .or f g => "(| " ++ sx f ++ " " ++ sx g ++ ")"
  | .limp f g => "(<- " ++ sx f ++ " " ++ sx g ++ ")" | .rimp f g => "(-> " ++ sx f ++ " " ++ sx g ++ ")"
  | .equiv f g => "(<> " ++ sx f ++ " " ++ sx g ++ ")"
  | .prev f => "(< " ++ sx f ++ ")" | .wprev f => "(<: " ++ sx f ++ ")" | .next f => "(> " ++ sx f ++ ")" | .wnext f => "(>: " ++ sx f ++ ")"
  | .alwaysP f => "(<* " ++ sx f ++ ")" | .eventuallyP f => "(<? " ++ sx f ++ ")"
  | .alwaysF f => "(>* " ++ sx f ++ ")" | .eventuallyF f => "(>? " ++ sx f ++ ")"
  | .initially f => "(<< " ++ sx f ++ ")" | .finally_ f => "(>> " ++ sx f ++ ")"
  | .since f g => "(<? " ++ sx f ++ " " ++ sx g ++ ")" | .trigger f g => "(<* " ++ sx f ++ " " ++ sx g ++ ")"
  | .until_ f g => "(>? " ++ sx f ++ " " ++ sx g ++ ")" | .release f g => "(>* " ++ sx f ++ " " ++ sx g ++ ")"
  | .seqPrev f g => "(<; " ++ sx f ++ " " ++ sx g ++ ")" | .wseqPrev f g => "(<:; " ++ sx f ++ " " ++ sx g ++ ")"
  | .seqNext f g => "(;> " ++ sx f ++ " " ++ sx g ++ ")" | .wseqNext f g => "(;>: " ++ sx f ++ " " ++ sx g ++ ")"

def traceOf (j : Json) : Trace :=
  match j.getObjVal? "trace" with
  | .ok (Json.arr a) => a.toList.map fun st => match st with
      | Json.arr xs => xs.toList.filterMap fun x => x.getNat?.toOption
      | _ => []
  | _ => []

def run (j : Json) : Json :=
  let t := match j.getObjVal? "top" with | .ok x => topOf x | _ => .single ⟨false, none, .leaf (.ent .none 0), none⟩
  let σ := traceOf j
  let comp := compileT t
  let compJ := match comp with
    | none => Json.null
    | some (n, f) => Json.mkObj [("not", Json.bool n), ("tree", Json.str (sx f)),
                                 ("fires", Json.arr ((List.range σ.length).map fun i => Json.bool (fires σ (n, f) i)).toArray)]
  let holdsJ := match holds σ t with
    | none => Json.null
    | some p => Json.arr ((List.range σ.length).map fun i => Json.bool (p i)).toArray
  Json.mkObj [("compiled", compJ), ("holds", holdsJ)]
end C05

open Surface in
def c09keys (j : Json) : Json :=
  let prep := match j.getObjValAs? String "prep" with | .ok p => some p.toList | _ => none
  Json.mkObj [("verb", Json.str (chars (verbKey (jstr j "word").toList prep (jbool j "tohave")))),
              ("concept", Json.str (chars (conceptKey (jstr j "word").toList)))]

namespace C17
open Scope

def pairsOf (j : Json) (k : String) : List (String × List String) :=
  match j.getObjVal? k with
  | .ok (Json.arr a) => a.toList.filterMap fun x => match x with
      | Json.arr #[Json.str n, Json.arr vs] => some (n, vs.toList.filterMap fun v => v.getStr?.toOption)
      | _ => none
  | _ => []

def useOf : Json → Option Use
  | Json.arr #[Json.str "concept", Json.str c] => some (.concept c)
  | Json.arr #[Json.str "attribute", Json.str c, Json.str a] => some (.attribute c a)
  | Json.arr #[Json.str "label", Json.str l] => some (.label l)
  | Json.arr #[Json.str "temporal", Json.str c, Json.str v] => some (.temporalValue c v)
  | Json.arr #[Json.str "member", Json.str c, Json.str v] => some (.member c v)
  | Json.arr #[Json.str "cardinality", Json.bool b] => some (.secondCardinality b)
  | _ => none

def faultJson : Fault → Json
  | .entityNotFound n => Json.arr #["entity", n]
  | .attributeNotFound c a => Json.arr #["attribute", c, a]
  | .labelNotFound l => Json.arr #["label", l]
  | .valueOutOfRange v => Json.arr #["range", v]
  | .valueNotInCollection c v => Json.arr #["member", c, v]
  | .doubleCardinality => Json.arr #["cardinality"]

def run (j : Json) : Json :=
  let env : Env := ⟨pairsOf j "concepts", pairsOf j "ranges", pairsOf j "collections"⟩
  let sents : List Sentence := match j.getObjVal? "sentences" with
    | .ok (Json.arr a) => a.toList.map fun s =>
        ⟨pairsOf s "declares", jstrs s "labels",
         match s.getObjVal? "uses" with
         | .ok (Json.arr us) => us.toList.filterMap useOf
         | _ => []⟩
    | _ => []
  match check env 0 sents with
  | none => Json.null
  | some (k, f) => Json.mkObj [("index", Json.num k), ("fault", faultJson f)]
end C17

open Explain in
def c15printer (j : Json) : Json :=
  let attrs : List (List Char × List Char) := match j.getObjVal? "attrs" with
    | .ok (Json.arr a) => a.toList.filterMap fun x => match x with
        | Json.arr #[Json.str l, Json.str v] => some (l.toList, v.toList)
        | _ => none
    | _ => []
  Json.mkObj [("printed", Json.str (chars (entityPrinter (jstr j "symbol").toList attrs))),
              ("cap", Json.str (chars (capFirst (jstr j "sentence").toList))),
              ("verb", Json.str (convertVerb (jstr j "verb")))]

namespace C08
open Link

def chainOpt (j : Json) (k kn : String) : Option Chain := if jbool j kn then none else some (jstrs j k)

def atomOf (j : Json) : Atom × Nat :=
  let attrs : List Attr := match j.getObjVal? "attrs" with
    | .ok (Json.arr a) => a.toList.map fun x =>
        let ch := jstrs x "origin"
        ⟨jstr x "name", jstr x "value", if ch.isEmpty then none else some ch⟩
    | _ => []
  (⟨jstr j "name", attrs⟩, jnat j "nkeys")

def origin (j : Json) : Json :=
  let a := chainOpt j "a" "a_none"
  let b := chainOpt j "b" "b_none"
  let eq := match a, b with
    | some x, some y => originEq (· == ·) x y
    | none, none => true
    | _, _ => false
  Json.mkObj [("same", Json.bool (isSameOrigin (· == ·) a b)), ("eq", Json.bool eq)]

def link (j : Json) : Json :=
  let (a1, k1) := match j.getObjVal? "a1" with | .ok x => atomOf x | _ => (⟨"", []⟩, 0)
  let (a2, k2) := match j.getObjVal? "a2" with | .ok x => atomOf x | _ => (⟨"", []⟩, 0)
  let keysOf (a : Atom) (k : Nat) : List (String × Option Chain) :=
    let ks := if k == 0 then a.attrs else a.attrs.take k
    ks.map fun x => (x.name, x.origin)
  let st := linkTwoAtoms (· == ·) a1 a2 (keysOf a1 k1) (keysOf a2 k2) [] 0
  Json.mkObj [("a1", Json.arr (st.a2.attrs.map fun x => Json.str x.value).toArray),
              ("a2", Json.arr (st.a1.attrs.map fun x => Json.str x.value).toArray)]
end C08

open Value in
def c06value (j : Json) : Json :=
  Json.mkObj [("ok", Json.str (chars (convertValue ((jstrs j "consts").map String.toList) (jstr j "v").toList)))]

open LineCol in
def linecol (j : Json) : Json :=
  let s := (jstr j "s").toList
  let p := lineCol s (jnat j "k")
  Json.mkObj [("line", Json.num p.1), ("col", Json.num p.2), ("off", Json.num (offsetOf s p.1 p.2)),
              ("text", Json.str (chars (lineText s p.1)))]

end Ops

namespace C06P
open PrintAtom PrintProg Ops

instance : Inhabited Elem := ⟨.val ""⟩

def jarr (j : Json) (k : String) : List Json :=
  match j.getObjVal? k with
  | .ok (Json.arr a) => a.toList
  | _ => []

partial def parseElem (j : Json) : Elem :=
  match jstr j "t" with
  | "atom" => .atom (parseAtom j)
  | "op" =>
    let k := match jstr j "k" with
      | "angle" => OpKind.angle | "temporal" => OpKind.temporal | _ => OpKind.plain
    .op k (jstr j "sym") ((jarr j "args").map parseElem)
  | "agg" => .agg (jstr j "sym") ((jarr j "disc").map parseElem) ((jarr j "body").map parseElem)
  | "tel" => .tel (jbool j "neg") ((jarr j "ops").map parseElem)
  | _ => .val (jstr j "s")

def parseRule (j : Json) : Rule :=
  let head := (jarr j "head").map fun h => ({ elem := parseElem ((h.getObjVal? "elem").toOption.getD Json.null),
                                              cond := (jarr h "cond").map parseElem } : Head)
  let card : Option (String × String) := match j.getObjVal? "card" with
    | .ok (Json.arr #[Json.str lo, Json.str hi]) => some (lo, hi)
    | _ => none
  let weak : Option (String × String × List Elem) := match j.getObjVal? "weak" with
    | .ok w@(Json.obj _) => some (jstr w "weight", jstr w "level", (jarr w "disc").map parseElem)
    | _ => none
  { head := head, body := (jarr j "body").map parseElem, card := card, weak := weak }

def mode (j : Json) : Mode :=
  if jbool j "fn" then
    let pairs : List (String × String) := (jarr j "eqpairs").filterMap fun p => match p with
      | Json.arr #[Json.str x, Json.str y] => some (x, y)
      | _ => none
    some (fun x y => x == y || pairs.contains (x, y))
  else none

def parseEncoding (j : Json) : Encoding :=
  { consts := (jarr j "consts").filterMap fun c => match c with
      | Json.arr #[Json.str n, Json.str v] => some (n, v)
      | _ => none,
    programs := (jarr j "programs").map fun p => { name := jstr p "name", rules := (jarr p "rules").map parseRule } }

/-- print a whole encoding and each of its rules -/
def print (j : Json) : Json :=
  let m := mode j
  let e := parseEncoding j
  Json.mkObj [("text", Json.str (printEncoding m e)),
              ("rules", Json.arr ((e.programs.flatMap fun p => p.rules.map fun r => Json.str (printRule m r)).toArray)),
              ("wf", Json.arr ((e.programs.flatMap fun p => p.rules.map fun r => Json.bool (Gram.wfRule r)).toArray))]

end C06P

namespace C15S
open ExplainS Ops

def parseAttr (j : Json) : Attr :=
  let origin : Option Link.Chain := match j.getObjVal? "origin" with
    | .ok (Json.arr a) => if a.isEmpty then none else some (a.toList.filterMap fun x => x.getStr?.toOption)
    | _ => none
  ⟨jstr j "name", jstr j "value", origin, jstr j "label"⟩

def parseEnt (j : Json) : Ent :=
  ⟨jstr j "name", (C06P.jarr j "keys").map parseAttr, (C06P.jarr j "attrs").map parseAttr⟩

/-- one explanation sentence: the text, the values it mentions part by part, and the hypothesis of the mention theorem -/
def run (j : Json) : Json :=
  let pairs : List (String × String) := (C06P.jarr j "eqpairs").filterMap fun p => match p with
    | Json.arr #[Json.str x, Json.str y] => some (x, y)
    | _ => none
  let ne : NameEq := fun x y => x == y || pairs.contains (x, y)
  let entity := parseEnt ((j.getObjVal? "entity").toOption.getD Json.null)
  let subject : Option Ent := match j.getObjVal? "subject" with
    | .ok s@(Json.obj _) => some (parseEnt s)
    | _ => none
  let objects := (C06P.jarr j "objects").map parseEnt
  let args := jstrs j "args"
  Json.mkObj [("sentence", Json.str (sentence ne entity subject (jstr j "verb") objects args)),
              ("mentioned", Json.arr ((mentioned ne entity subject objects args).map Json.str).toArray),
              ("nocross", Json.bool (noCrossB ne (parseSymbol entity args)))]

end C15S

def dispatch (op : String) (j : Json) : Json :=
  match op with
  | "c16.values" => Ops.c16values j
  | "c16.id" => Ops.c16id j
  | "c16.cal" => Ops.c16cal j
  | "c18.word" => Ops.c18word j
  | "c18.msg" => Ops.c18msg j
  | "c18.cli" => Ops.c18cli j
  | "linecol" => Ops.linecol j
  | "c14.print" => Ops.c14print j
  | "c11.route" => Ops.c11route j
  | "c13.table" => Ops.c13table j
  | "c07.namer" => Ops.c07namer j
  | "c05.run" => Ops.C05.run j
  | "c09.keys" => Ops.c09keys j
  | "c17.check" => Ops.C17.run j
  | "c15.printer" => Ops.c15printer j
  | "c15.sentence" => C15S.run j
  | "c06.value" => Ops.c06value j
  | "c06.print" => C06P.print j
  | "c01.compile" => Core.Codec.compileOp j
  | "c04.compile" => Core.Codec.compilePrefsOp j
  | "c01.ref" => Core.Codec.refOp j
  | "c01.safe" => Core.Codec.safeOp j
  | "c08.origin" => Ops.C08.origin j
  | "c08.link" => Ops.C08.link j
  | _ => Json.mkObj [("err", "bad-op")]

partial def loop (h : IO.FS.Stream) (out : IO.FS.Stream) : IO Unit := do
  let line ← h.getLine
  if line.isEmpty then return ()
  let line := line.trimAsciiEnd.toString
  match line.splitOn "\t" with
  | [op, payload] =>
    match Json.parse payload with
    | .ok j => out.putStrLn (dispatch op j).compress
    | .error e => out.putStrLn (Json.mkObj [("err", Json.str ("bad-json: " ++ e))]).compress
  | _ => out.putStrLn (Json.mkObj [("err", "bad-line")]).compress
  loop h out

def main : IO Unit := do
  let stdin ← IO.getStdin
  let stdout ← IO.getStdout
  loop stdin stdout
